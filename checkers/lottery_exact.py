#!/usr/bin/env python3-vt
"""Offline exact-arithmetic judge of the lottery decision log (property C08).

Input : JSONL, one decision per line: {"phi_bits": <u64 bits of the f64>, "ev": "<128 hex, little endian>",
        "stake": n, "total": n, "won": bool, "tag": "..."}
Output: one JSON document on stdout: {"judged": n, "band": n, "agree": n, "disagreements": [...first 50...],
        "disagree_total": n, "classes": {class: count}}

Oracle: thr = 1 - (1 - phi)^(stake/total) with phi the exact dyadic value of the f64 and mpmath at 600 bits,
p = ev / 2^512.  |p - thr| <= 2^-40  => skipped (band).  Otherwise decision must equal (p < thr).
stake = 0 => lost; phi = 1 => won.
"""
import sys, json, struct
from multiprocessing import Pool
import mpmath as mp

mp.mp.prec = 600
BAND = mp.mpf(2) ** -40
TWO512 = mp.mpf(2) ** 512

def judge(line):
    d = json.loads(line)
    phi = struct.unpack("<d", struct.pack("<Q", d["phi_bits"]))[0]
    ev = int.from_bytes(bytes.fromhex(d["ev"]), "little")
    stake, total, won = d["stake"], d["total"], d["won"]
    phi_m = mp.mpf(phi)  # exact: f64 is dyadic
    p = mp.mpf(ev) / TWO512
    if stake == 0 and phi_m >= 1:
        # the statement's two clauses (zero stake loses / phi_f = 1 wins) conflict here: not judged
        return ("band", None)
    if stake == 0:
        expect = False
        thr = mp.mpf(0)
    elif phi_m >= 1:
        expect = True
        thr = mp.mpf(1)
    else:
        w = mp.mpf(stake) / mp.mpf(total)
        thr = 1 - mp.power(1 - phi_m, w)
        if abs(p - thr) <= BAND:
            return ("band", None)
        expect = p < thr
    if expect == won:
        return ("agree", None)
    # classify the disagreement
    x = -(mp.mpf(stake) / mp.mpf(total)) * mp.log(1 - phi_m) if (0 < phi_m < 1 and stake > 0) else mp.mpf(0)
    if phi_m < 1 and phi == 1.0 - 2.0 ** -53 and won and not expect:
        cls = "phi_f just below 1 treated as 1 (always won)"
    elif (not won) and expect and x > 2:
        cls = "lost although p < threshold, x = w*|ln(1-phi_f)| > 2 (series remainder bound invalid)"
    elif (not won) and expect:
        cls = "lost although p < threshold"
    else:
        cls = "won although p >= threshold"
    return ("disagree", {"case": d, "phi": phi, "p": mp.nstr(p, 25), "threshold": mp.nstr(thr, 25),
                         "x": mp.nstr(x, 10), "expected_won": bool(expect), "class": cls})

def main():
    path = sys.argv[1]
    procs = int(sys.argv[2]) if len(sys.argv) > 2 else 16
    with open(path) as f:
        lines = [l for l in f if l.strip()]
    with Pool(procs) as pool:
        res = pool.map(judge, lines, chunksize=500)
    out = {"judged": len(res), "band": 0, "agree": 0, "disagree_total": 0, "disagreements": [], "classes": {}}
    per_class = {}
    for kind, info in res:
        if kind == "band":
            out["band"] += 1
        elif kind == "agree":
            out["agree"] += 1
        else:
            out["disagree_total"] += 1
            c = info["class"]
            out["classes"][c] = out["classes"].get(c, 0) + 1
            if per_class.get(c, 0) < 5:
                per_class[c] = per_class.get(c, 0) + 1
                out["disagreements"].append(info)
    json.dump(out, sys.stdout)

if __name__ == "__main__":
    main()
