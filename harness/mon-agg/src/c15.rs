//! C15 — a crash at any point leaves a verifiable, resumable store.
//!
//! Mechanism: a scripted honest history runs in a CHILD PROCESS with MITHRIL_VERIF_CRASH=<point>@<n>;
//! the cfg(mithril_verif) hook in the aggregator calls std::process::abort() at the n-th hit of that
//! point (a real process death, real sqlite recovery). The parent then starts a fresh child on the
//! same data directory (doubles of the outside world re-created at the persisted time point) which
//! checks the invariants right after the restart and after every further tick, and drives the
//! honest workload to decide bounded progress.
use mon_agg::hist::{self, Ev, Run, SignMode};
use mon_agg::sim;
use mithril_common::entities::*;
use mithril_common::StdResult;
use serde_json::{json, Value};
use std::path::{Path, PathBuf};
use vcore::Monitor;

const WITHIN_EPOCH_STEPS: u64 = 3;

pub const POINTS: [&str; 9] = [
    "certifier:after_multi_signature",
    "certifier:after_certificate_insert",
    "certifier:after_open_message_update",
    "artifact:before_compute",
    "artifact:after_compute",
    "artifact:after_signed_entity_insert",
    "buffer:after_signature_handover",
    "buffer:before_buffer_removal",
    "buffer:after_buffer_removal",
];

fn world_file(dir: &Path) -> PathBuf {
    dir.join("world.json")
}

async fn persist_world(run: &mut Run, macro_step: u64, script: u64) -> StdResult<()> {
    // written before every tick sequence; crash points are only inside ticks, so the file is
    // always consistent with the in-memory doubles at the time of a crash
    // (the ticker's time point: epoch / chain point of the chain observer + immutable number of
    // the immutable file observer; the chain observer's own copy of the immutable number is never
    // moved by the doubles)
    let tp = run.sim.observed_time_point().await?;
    let w = json!({
        "epoch": *tp.epoch, "immutable": tp.immutable_file_number,
        "block": *tp.chain_point.block_number, "slot": *tp.chain_point.slot_number,
        "n_signers": run.n_signers(),
        "k": run.sim.cfg.protocol_parameters.k, "m": run.sim.cfg.protocol_parameters.m, "phi_f": run.sim.cfg.protocol_parameters.phi_f,
        "tx_step": run.sim.cfg.tx_step, "blocks_step": run.sim.cfg.blocks_step,
        "macro_step": macro_step, "script": script,
        "types": run.sim.cfg.types.iter().map(|d| d.to_string()).collect::<Vec<_>>(),
        "acknowledged_signatures": run.signed_once.as_ref().map(|s| s.iter().map(|(i, k)| json!([i, k])).collect::<Vec<_>>()).unwrap_or_default(),
        "genesis_epochs": run.model.genesis_epochs,
    });
    let tmp = world_file(&run.sim.cfg.data_dir).with_extension("tmp");
    {
        use std::io::Write;
        let mut f = std::fs::File::create(&tmp)?;
        f.write_all(serde_json::to_string(&w)?.as_bytes())?;
        f.sync_all()?;
    }
    std::fs::rename(&tmp, world_file(&run.sim.cfg.data_dir))?;
    Ok(())
}

/// One macro step of the honest workload: move the world, let the aggregator open the message(s),
/// every signer signs whatever is open (some early => buffered), tick until sealed.
/// `script` selects deterministic variations.
pub async fn macro_step(run: &mut Run, n: u64, script: u64, mon: &mut Monitor, hid: &str, check: bool) -> StdResult<()> {
    // with MithrilStakeDistribution alone the only rounds are the epochs' first ones
    let kind = if run.sim.cfg.types.is_empty() { if n % 2 == 0 { 5 } else { 2 } } else { (n + script) % 6 };
    macro_step_kind(run, n, script, kind, mon, hid, check).await
}

/// enabled signed entity types per script: all five / MithrilStakeDistribution + CardanoDatabase /
/// MithrilStakeDistribution alone (then an epoch has exactly one round: a round lost to a crash
/// leaves the epoch without certificate)
pub fn types_of_script(script: u64) -> Vec<SignedEntityTypeDiscriminants> {
    match script % 3 {
        0 => sim::all_types(),
        1 => vec![SignedEntityTypeDiscriminants::CardanoDatabase],
        _ => vec![],
    }
}

pub async fn macro_step_kind(run: &mut Run, n: u64, script: u64, kind: u64, mon: &mut Monitor, hid: &str, check: bool) -> StdResult<()> {
    let all: Vec<usize> = (0..run.n_signers()).collect();
    // the world moves
    match kind {
        0 | 3 => {
            run.apply(&Ev::NewImmutable, mon).await?;
        }
        1 => {
            run.apply(&Ev::Blocks(30 + (n % 3) * 15), mon).await?;
        }
        2 => {
            run.apply(&Ev::EpochUp(1), mon).await?;
        }
        4 => {
            run.apply(&Ev::NewImmutable, mon).await?;
            run.apply(&Ev::Blocks(45), mon).await?;
        }
        _ => {}
    }
    persist_world(run, n, script).await?;
    // early (authenticated => buffered) signatures on some steps: exercises the hand-over points
    if (n + script) % 2 == 0 && kind != 2 {
        for d in [SignedEntityTypeDiscriminants::CardanoDatabase, SignedEntityTypeDiscriminants::CardanoTransactions] {
            run.apply(&Ev::Sign { disc: d, who: all.clone(), mode: SignMode::Valid, authenticated: true }, mon).await?;
        }
        // stops only happen inside ticks: what was acknowledged is on record before the next one
        persist_world(run, n, script).await?;
    }
    for round in 0..10 {
        run.apply(&Ev::Tick, mon).await?;
        if check {
            check_invariants(run, mon, hid, "after a tick").await?;
        }
        if kind == 2 && round == 1 {
            run.apply(&Ev::Register { who: all.clone(), label_offset: 0 }, mon).await?;
            // signers are often faster than the aggregator at an epoch change: the epoch service
            // already works on the new epoch but the first message of the epoch is not open yet;
            // their signatures for it are buffered and handed over when it opens (the hand-over
            // crash points are then reached for the round every epoch depends on)
            if (n + script) % 2 == 1 && run.open_discriminants().is_empty() {
                run.apply(&Ev::Sign { disc: SignedEntityTypeDiscriminants::MithrilStakeDistribution, who: all.clone(), mode: SignMode::Valid, authenticated: true }, mon).await?;
                persist_world(run, n, script).await?;
            }
        }
        let snap = sim::snapshot(&run.sim.db_path())?;
        run.prev = snap;
        let open = run.open_discriminants();
        if open.is_empty() && round >= 2 && run.sim.state() == "ready" {
            break;
        }
        for d in open {
            run.apply(&Ev::Sign { disc: d, who: all.clone(), mode: SignMode::Valid, authenticated: true }, mon).await?;
        }
        persist_world(run, n, script).await?;
    }
    // let the background artifact task finish
    tokio::time::sleep(std::time::Duration::from_millis(20)).await;
    Ok(())
}

fn row_json(r: &serde_json::Map<String, Value>, k: &str) -> Value {
    match r.get(k) {
        Some(Value::String(s)) => serde_json::from_str::<Value>(s).unwrap_or_else(|_| Value::String(s.clone())),
        Some(v) => v.clone(),
        None => Value::Null,
    }
}

/// the store invariants of the statement
pub async fn check_invariants(run: &mut Run, mon: &mut Monitor, hid: &str, when: &str) -> StdResult<()> {
    let snap = sim::snapshot(&run.sim.db_path())?;
    mon.eval();
    // no signed entity with two artifacts
    for (i, a) in snap.signed_entities.iter().enumerate() {
        for b in &snap.signed_entities[..i] {
            if a["signed_entity_type_id"] == b["signed_entity_type_id"] && row_json(a, "beacon") == row_json(b, "beacon") {
                mon.violation("C15 signed entity with two artifacts", &format!("{when}: type {} beacon {}", a["signed_entity_type_id"], a["beacon"]), json!({"history": hid, "when": when}));
            }
        }
        // every artifact references a stored certificate that certifies exactly that entity
        let cid = a["certificate_id"].as_str().unwrap_or("");
        match snap.certificates.iter().find(|c| c["certificate_id"].as_str() == Some(cid)) {
            None => mon.violation("C15 artifact references a certificate that is not stored", &format!("{when}: artifact {} -> {cid}", a["signed_entity_id"]), json!({"history": hid, "when": when})),
            Some(c) => {
                if c["signed_entity_type_id"] != a["signed_entity_type_id"] || row_json(c, "signed_entity_beacon") != row_json(a, "beacon") {
                    mon.violation("C15 artifact references a certificate of another signed entity", &format!("{when}: artifact {} -> {cid}", a["signed_entity_id"]), json!({"history": hid, "when": when}));
                }
            }
        }
    }
    // diagnostics (outside the statement's list): two certificates for one entity / certificates without artifact
    for (i, a) in snap.certificates.iter().enumerate() {
        if a["parent_certificate_id"].is_null() {
            continue;
        }
        if snap.certificates[..i].iter().any(|b| !b["parent_certificate_id"].is_null() && a["signed_entity_type_id"] == b["signed_entity_type_id"] && row_json(a, "signed_entity_beacon") == row_json(b, "signed_entity_beacon")) {
            mon.count("diag:signed_entity_with_two_certificates_after_crash");
        }
    }
    run.prev = snap;
    Ok(())
}

/// child, phase 1: fresh start, run the base script (possibly armed => the process aborts)
pub async fn run_fresh(dir: PathBuf, script: u64, steps: u64, mon: &mut Monitor) -> StdResult<()> {
    let mut rng = mon.rng("c15-script", script);
    let mut run = Run::start_with_types(dir, &mut rng, types_of_script(script)).await?;
    run.signed_once = Some(Default::default());
    let all: Vec<usize> = (0..run.n_signers()).collect();
    let hid = format!("script{script}");
    mon.count(&format!("base:signed entity types enabled on top of MithrilStakeDistribution: {:?}", run.sim.cfg.types.iter().map(|d| d.to_string()).collect::<Vec<_>>()));
    for ev in [Ev::Tick, Ev::Register { who: all.clone(), label_offset: 0 }, Ev::EpochUp(1)] {
        run.apply(&ev, mon).await?;
    }
    persist_world(&mut run, 0, script).await?;
    for ev in [Ev::Tick, Ev::Tick, Ev::Register { who: all.clone(), label_offset: 0 }] {
        run.apply(&ev, mon).await?;
    }
    for n in 0..steps {
        macro_step(&mut run, n, script, mon, &hid, false).await?;
    }
    check_invariants(&mut run, mon, &hid, "end of the uninterrupted run").await?;
    hist::verify_all(&mut run, mon, &hid).await?;
    let certs = run.prev.certificates.len();
    let arts = run.prev.signed_entities.len();
    mon.count_n("base:certificates", certs as u64);
    mon.count_n("base:artifacts", arts as u64);
    run.sim.builder.drop_sqlite_connections().await;
    Ok(())
}

/// child, phase 2: restart on the same directory after a crash; check, then drive the honest
/// workload and decide bounded progress. Returns a JSON verdict.
pub async fn run_resume(dir: PathBuf, mon: &mut Monitor, label: &str, progress_steps: u64) -> StdResult<Value> {
    let w: Value = serde_json::from_str(&std::fs::read_to_string(world_file(&dir))?)?;
    let script = w["script"].as_u64().unwrap_or(0);
    let pp = ProtocolParameters { k: w["k"].as_u64().unwrap(), m: w["m"].as_u64().unwrap(), phi_f: w["phi_f"].as_f64().unwrap() };
    let cfg = sim::SimConfig { data_dir: dir.clone(), protocol_parameters: pp.clone(), tx_step: w["tx_step"].as_u64().unwrap(), blocks_step: w["blocks_step"].as_u64().unwrap(),
        types: w["types"].as_array().map(|a| a.iter().filter_map(|x| x.as_str()).filter_map(|x| sim::all_types().into_iter().find(|d| d.to_string() == x)).collect()).unwrap_or_else(sim::all_types) };
    let block = w["block"].as_u64().unwrap();
    let slot = w["slot"].as_u64().unwrap();
    let tp = TimePoint {
        epoch: Epoch(w["epoch"].as_u64().unwrap()),
        immutable_file_number: w["immutable"].as_u64().unwrap(),
        chain_point: ChainPoint { slot_number: SlotNumber(slot), block_number: BlockNumber(block), block_hash: format!("block_hash-{block}") },
    };
    let mut run = Run::resume(cfg, tp, w["n_signers"].as_u64().unwrap() as usize, pp, w["genesis_epochs"].as_array().map(|a| a.iter().filter_map(|x| x.as_u64()).collect()).unwrap_or_default()).await?;
    // what the signers know they delivered (acknowledged before the stop): never sent again
    run.signed_once = Some(
        w["acknowledged_signatures"]
            .as_array()
            .map(|a| a.iter().filter_map(|e| Some((e[0].as_u64()? as usize, e[1].as_str()?.to_string()))).collect())
            .unwrap_or_default(),
    );
    // blocks the node has but the store has not: serve them again
    let txdb = dir.join("stores").join("cardano-transaction.sqlite3");
    let stored_max = sim::read_table(&txdb, "select coalesce(max(block_number), 0) as m from cardano_block").ok().and_then(|r| r.first().and_then(|m| m["m"].as_i64())).unwrap_or(0) as u64;
    run.sim.serve_blocks(stored_max.max(100) + 1, block, slot);
    let hid = format!("script{script}/{label}");
    // ---- right after the restart
    check_invariants(&mut run, mon, &hid, "right after the restart").await?;
    hist::verify_all(&mut run, mon, &hid).await?;
    let certs_at_restart = run.prev.certificates.len();
    let arts_at_restart = run.prev.signed_entities.len();
    let max_beacon_key = |run: &Run| -> Vec<String> { run.prev.signed_entities.iter().map(|s| format!("{}|{}", s["signed_entity_type_id"], s["beacon"])).collect() };
    let arts_before = max_beacon_key(&run);
    // ---- bounded progress under the honest workload
    let start_step = w["macro_step"].as_u64().unwrap_or(0) + 1;
    let mut progressed_at: Option<u64> = None;
    // recovery phase: the world stands still (the crash did not make time jump to the next epoch),
    // the aggregator ticks and honest signers (re)sign whatever is open
    macro_step_kind(&mut run, w["macro_step"].as_u64().unwrap_or(0), script, 5, mon, &hid, true).await?;
    // ---- progress inside the epoch of the restart: new immutable files give new CardanoDatabase
    // rounds; "later rounds are certified" must not have to wait for the next epoch
    let mut within_epoch: Option<bool> = None;
    if run.sim.cfg.types.contains(&SignedEntityTypeDiscriminants::CardanoDatabase) {
        let mut ok = false;
        for n in 0..WITHIN_EPOCH_STEPS {
            macro_step_kind(&mut run, start_step + n, script, 0, mon, &hid, true).await?;
            let snap = sim::snapshot(&run.sim.db_path())?;
            run.prev = snap;
            if run.prev.signed_entities.iter().any(|s| {
                !arts_before.contains(&format!("{}|{}", s["signed_entity_type_id"], s["beacon"]))
                    && run.prev.certificates.iter().any(|c| c["certificate_id"].as_str() == s["certificate_id"].as_str())
            }) {
                ok = true;
                break;
            }
        }
        within_epoch = Some(ok);
        mon.count(if ok { "progress inside the epoch of the restart: yes" } else { "progress inside the epoch of the restart: NO" });
        if !ok {
            mon.violation(
                "C15 no certificate with artifact for a later beacon inside the epoch of the restart",
                &format!("{label}: after the restart and a recovery phase, {WITHIN_EPOCH_STEPS} new immutable files (each followed by up to 10 ticks, all signers sign whatever is open) produced no new certified artifact although CardanoDatabase is enabled; state {}", run.sim.state()),
                json!({"history": hid, "log_tail": run.log.iter().rev().take(40).rev().collect::<Vec<_>>()}),
            );
        }
    }
    for n in 0..progress_steps {
        macro_step(&mut run, start_step + n, script, mon, &hid, true).await?;
        let snap = sim::snapshot(&run.sim.db_path())?;
        run.prev = snap;
        // a certificate AND its artifact for a beacon that did not have one at the restart
        let new_art = run.prev.signed_entities.iter().find(|s| !arts_before.contains(&format!("{}|{}", s["signed_entity_type_id"], s["beacon"])));
        if let Some(a) = new_art {
            let cid = a["certificate_id"].as_str().unwrap_or("");
            if run.prev.certificates.iter().any(|c| c["certificate_id"].as_str() == Some(cid)) && progressed_at.is_none() {
                progressed_at = Some(n + 1);
            }
        }
        if progressed_at.is_some() && n >= 2 {
            break;
        }
    }
    hist::verify_all(&mut run, mon, &hid).await?;
    check_invariants(&mut run, mon, &hid, "end of the resumed run").await?;
    let verdict = json!({
        "label": label, "script": script,
        "certificates_at_restart": certs_at_restart, "artifacts_at_restart": arts_at_restart,
        "certificates_at_end": run.prev.certificates.len(), "artifacts_at_end": run.prev.signed_entities.len(),
        "progressed_after_macro_steps": progressed_at, "progress_inside_the_epoch_of_the_restart": within_epoch, "state_at_end": run.sim.state(),
    });
    if progressed_at.is_none() {
        mon.violation(
            "C15 no certificate with artifact for a later beacon within the progress bound after restart",
            &format!("{label}: {progress_steps} macro steps (each: world moves, up to 10 ticks, all signers sign whatever is open) after the restart produced no new certified artifact; state {}", run.sim.state()),
            json!({"history": hid, "verdict": verdict, "log_tail": run.log.iter().rev().take(40).rev().collect::<Vec<_>>()}),
        );
    }
    run.sim.builder.drop_sqlite_connections().await;
    Ok(verdict)
}
