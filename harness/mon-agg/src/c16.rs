//! C16 — a stored signature is attributed to the party whose registered key produced it.
//! Rounds over the real aggregator: honest submissions interleaved with adversarial ones (own sigma
//! under another registered name, a copy of another party's sigma under own name with matching /
//! altered index lists, the same under an unregistered name, replays), through the certifier API,
//! the real HTTP route, the buffered path and the message-queue signature processor.
//! Oracle (ground truth held by the harness): a row (open message, L) exists => the stored sigma
//! verifies for that message under the key L REGISTERED for the epoch; no sigma under two labels;
//! honest rows survive; certificate signers all have such a row; honest quorum => certified.
use mon_agg::hist::{self, Run};
use mon_agg::sim;
use mithril_aggregator::services::{SequentialSignatureProcessor, SignatureConsumerDmq, SignatureProcessor};
use mithril_common::entities::*;
use mithril_common::messages::{RegisterSignatureMessageDmq, RegisterSignatureMessageHttp, SignedEntityTypeMessage};
use mithril_common::protocol::{SignerBuilder, ToMessage};
use mithril_common::StdResult;
use rand_chacha::ChaCha20Rng;
use serde_json::{json, Value};
use std::collections::{BTreeMap, BTreeSet};
use std::sync::{Arc, Mutex};
use vcore::rnd;
use vcore::Monitor;

#[derive(Clone, Copy, Debug, PartialEq, Eq)]
pub enum Channel {
    Api,
    ApiAuthenticated,
    Http,
    Dmq,
}

#[derive(Clone, Debug)]
pub struct Submission {
    pub variant: &'static str,
    pub label: String,
    pub producer: String,
    pub sig: SingleSignature,
    pub channel: Channel,
}

/// The message-queue client double: hands the REAL `SignatureConsumerDmq` one batch of
/// (message, sender's party id) pairs - the party id is what the transport authenticated.
struct ScriptedDmqClient {
    batch: Mutex<Option<Vec<(RegisterSignatureMessageDmq, String)>>>,
}

#[async_trait::async_trait]
impl mithril_dmq::DmqConsumerClient<RegisterSignatureMessageDmq> for ScriptedDmqClient {
    async fn consume_messages(&self) -> StdResult<Vec<(RegisterSignatureMessageDmq, String)>> {
        Ok(self.batch.lock().unwrap().take().unwrap_or_default())
    }
}

static DMQ_NOISE: std::sync::atomic::AtomicU64 = std::sync::atomic::AtomicU64::new(0);

/// identity of a signature = its sigma (the index list travels with it but is not part of the identity)
fn sig_hex(s: &SingleSignature) -> String {
    vcore::hex(&s.to_protocol_signature().get_concatenation_signature_sigma().to_bytes())
}

/// (sigma hex, indexes) of a stored `signature` column (json-hex of the STM single signature)
fn decode_stored(sig_json_hex: &str) -> (String, Vec<u64>) {
    match mithril_common::crypto_helper::ProtocolSingleSignature::from_json_hex(sig_json_hex) {
        Ok(k) => {
            let p: mithril_stm::SingleSignature = k.into();
            (vcore::hex(&p.get_concatenation_signature_sigma().to_bytes()), p.get_concatenation_signature_indices())
        }
        Err(_) => (sig_json_hex.to_string(), vec![]),
    }
}

/// restrict the won indexes of a signature everywhere they are carried
fn with_indexes(s: &SingleSignature, idx: &[u64]) -> SingleSignature {
    let mut c = s.clone();
    let mut p = c.to_protocol_signature();
    p.set_concatenation_signature_indices(idx);
    c.signature = p.into();
    c.won_indexes = idx.to_vec();
    c
}

/// does `sig` verify for `message` under the key that `party` registered (ground truth)?
fn verifies_under(run: &Run, epoch: u64, party: &str, sig: &SingleSignature, message: &ProtocolMessage) -> bool {
    let signers = run.signers_at(epoch);
    let Some(s) = signers.iter().find(|s| s.party_id == party) else { return false };
    let pp = run.sim.cfg.protocol_parameters.clone();
    let Ok(b) = SignerBuilder::new(&signers, &pp) else { return false };
    let avk = b.compute_aggregate_verification_key();
    let mut p = sig.to_protocol_signature();
    p.set_concatenation_signature_indices(&sig.won_indexes);
    let params = mithril_stm::Parameters { m: pp.m, k: pp.k, phi_f: pp.phi_f };
    p.verify(&params, &s.verification_key_for_concatenation.vk, &s.stake, &avk, message.to_message().as_bytes()).is_ok()
}

/// deliver one submission; a panic inside the aggregator's handling is caught and reported as reply
pub async fn submit(run: &mut Run, set: &SignedEntityType, message: &ProtocolMessage, sub: &Submission, mon: &mut Monitor) -> String {
    use futures::FutureExt;
    mon.count(&format!("submission:{}:{:?}", sub.variant, sub.channel));
    match std::panic::AssertUnwindSafe(submit_inner(run, set, message, sub)).catch_unwind().await {
        Ok(r) => r,
        Err(_) => {
            let p = hist::PANICS.lock().map(|mut p| p.drain(..).collect::<Vec<_>>()).unwrap_or_default();
            let loc = p.first().map(|s| s.chars().take(120).collect::<String>()).unwrap_or_default();
            mon.count(&format!("diag:aggregator_panic_while_registering({}):{}", sub.variant, loc));
            "panic".to_string()
        }
    }
}

async fn submit_inner(run: &mut Run, set: &SignedEntityType, message: &ProtocolMessage, sub: &Submission) -> String {
    let mut sig = sub.sig.clone();
    match sub.channel {
        Channel::Api | Channel::ApiAuthenticated => {
            if sub.channel == Channel::ApiAuthenticated {
                sig.authentication_status = SingleSignatureAuthenticationStatus::Authenticated;
            }
            match run.sim.deps.certifier_service.register_single_signature(set, &sig).await {
                Ok(s) => format!("{s:?}"),
                Err(e) => format!("err:{}", format!("{e:?}").chars().take(60).collect::<String>()),
            }
        }
        Channel::Http => {
            let msg = RegisterSignatureMessageHttp {
                signed_entity_type: SignedEntityTypeMessage::Known(set.clone()),
                party_id: sig.party_id.clone(),
                signature: sig.signature.to_json_hex().unwrap_or_default(),
                won_indexes: sig.won_indexes.clone(),
                signed_message: message.to_message(),
            };
            let routes = match run.sim.builder.create_http_routes().await {
                Ok(r) => r,
                Err(e) => return format!("harness-error:routes:{e:?}").chars().take(80).collect(),
            };
            let resp = warp::test::request().method("POST").path("/aggregator/register-signatures").json(&msg).reply(&routes).await;
            format!("http:{}", resp.status().as_u16())
        }
        Channel::Dmq => {
            // the batch the node hands over: the submission, in some deliveries behind messages of
            // OTHER senders that the consumer has to discard (signed entity type it does not know /
            // a discontinued one): discarding them must not change whose name the submission carries
            use mithril_common::messages::DiscontinuedSignedEntityType;
            let real = RegisterSignatureMessageDmq { signed_entity_type: SignedEntityTypeMessage::Known(set.clone()), signature: sig.signature.clone() };
            let mut batch = vec![];
            let n_noise = DMQ_NOISE.fetch_add(1, std::sync::atomic::Ordering::SeqCst) % 3;
            for i in 0..n_noise {
                batch.push((
                    RegisterSignatureMessageDmq {
                        signed_entity_type: if i % 2 == 0 { SignedEntityTypeMessage::Unknown } else { SignedEntityTypeMessage::Discontinued(DiscontinuedSignedEntityType::CardanoImmutableFilesFull) },
                        signature: sig.signature.clone(),
                    },
                    format!("pool1someoneelse{i:042}"),
                ));
            }
            batch.push((real, sig.party_id.clone()));
            let consumer = Arc::new(SignatureConsumerDmq::new(Arc::new(ScriptedDmqClient { batch: Mutex::new(Some(batch)) })));
            let (_tx, rx) = tokio::sync::watch::channel(());
            let metrics = match run.sim.builder.get_metrics_service().await {
                Ok(m) => m,
                Err(e) => return format!("harness-error:metrics:{e:?}").chars().take(80).collect(),
            };
            let proc = SequentialSignatureProcessor::new(consumer, run.sim.deps.certifier_service.clone(), rx, metrics, std::time::Duration::from_millis(1), sim::discard_logger());
            match proc.process_signatures().await {
                Ok(()) => "dmq:processed".into(),
                Err(_) => "dmq:import-error".into(),
            }
        }
    }
}

/// rows of single_signature for the open message of `set`
fn rows_for(run: &Run, snap: &sim::Snapshot, set: &SignedEntityType) -> Vec<(String, String, Vec<u64>)> {
    let (tid, beacon) = hist::set_key(set);
    let Some(om) = snap.open_messages.iter().find(|o| {
        o["signed_entity_type_id"].as_i64() == Some(tid)
            && match &o["beacon"] {
                Value::String(s) => serde_json::from_str::<Value>(s).unwrap_or(Value::Null) == beacon,
                v => *v == beacon,
            }
    }) else {
        return vec![];
    };
    let _ = run;
    let omid = om["open_message_id"].as_str().unwrap_or("");
    snap.single_signatures
        .iter()
        .filter(|r| r["open_message_id"].as_str() == Some(omid))
        .map(|r| {
            // what gets aggregated is the STM signature stored in `signature` (it carries its own index list)
            let (sigma, idx) = decode_stored(r["signature"].as_str().unwrap_or(""));
            (r["signer_id"].as_str().unwrap_or("").to_string(), sigma, idx)
        })
        .collect()
}

fn buffered_rows(snap: &sim::Snapshot) -> Vec<(String, String)> {
    snap.buffered.iter().map(|r| (r["party_id"].as_str().unwrap_or("").to_string(), r["signature"].as_str().unwrap_or("").to_string())).collect()
}


#[allow(clippy::too_many_arguments)]
fn check_rows(
    reported: &mut BTreeSet<String>,
    run: &Run,
    mon: &mut Monitor,
    rows: &[(String, String, Vec<u64>)],
    honest: &BTreeMap<String, SingleSignature>,
    epoch: u64,
    message: &ProtocolMessage,
    place: &str,
    last: (&str, Channel, &str),
    replay: &dyn Fn(Value) -> Value,
) {
    let (variant, channel, reply) = last;
    let mut by_sigma: BTreeMap<String, BTreeSet<String>> = BTreeMap::new();
    for (label, sigma, idx) in rows {
        by_sigma.entry(sigma.clone()).or_default().insert(label.clone());
        // whose sigma is it? (ground truth by value)
        let true_producer = honest.iter().find(|(_, s)| sig_hex(s) == *sigma).map(|(p, _)| p.clone());
        let ok = false; // every row is judged cryptographically, also when label and producer agree
        if !ok {
            // double check with the cryptographic ground truth
            let stored = honest.values().find(|s| sig_hex(s) == *sigma).cloned();
            let crypt_ok = stored
                .map(|mut s| {
                    if !idx.is_empty() {
                        s.won_indexes = idx.clone();
                    }
                    verifies_under(run, epoch, label, &s, message)
                })
                .unwrap_or(false);
            if !crypt_ok && matches!(&true_producer, Some(p) if p == label) {
                if reported.insert(format!("rowidx|{label}|{sigma}")) {
                    mon.violation(
                        &format!("C16 recorded signature of a party no longer verifies under its own registered key ({variant})"),
                        &format!("{place}: row labelled {label} holds its own sigma but with the index list {idx:?}, which does not verify (an index it did not win was recorded); last submission: {variant} via {channel:?} -> {reply}"),
                        replay(json!({"label": label, "indexes": idx})),
                    );
                }
            } else if !crypt_ok && reported.insert(format!("row|{label}|{sigma}")) {
                mon.violation(
                    &format!("C16 signature recorded under a party whose registered key did not produce it ({variant})"),
                    &format!("{place}: row labelled {label} holds the sigma produced by {true_producer:?}; last submission: {variant} via {channel:?} -> {reply}"),
                    replay(json!({"label": label, "true_producer": true_producer})),
                );
            }
        }
    }
    for (sigma, labels) in &by_sigma {
        if labels.len() > 1 && reported.insert(format!("two|{sigma}")) {
            mon.violation(
                "C16 one signature recorded under two party names",
                &format!("{place}: sigma {}… is stored under {:?}", &sigma[..sigma.len().min(24)], labels),
                replay(json!({"labels": labels})),
            );
        }
    }
}

/// one adversarial round on the open message of `disc`; returns false when the round could not run
pub async fn round(run: &mut Run, disc: SignedEntityTypeDiscriminants, early: bool, rng: &mut ChaCha20Rng, mon: &mut Monitor, hid: &str) -> StdResult<bool> {
    let set = run.sim.current_signed_entity_type(disc).await?;
    let om = run.sim.deps.certifier_service.get_open_message(&set).await.ok().flatten();
    if early == om.is_some() {
        return Ok(false);
    }
    if let Some(om) = &om {
        if om.is_certified || om.is_expired {
            return Ok(false);
        }
    }
    let message: ProtocolMessage = match &om {
        Some(om) => om.protocol_message.clone(),
        None => match run.sim.deps.signable_builder_service.compute_protocol_message(set.clone()).await {
            Ok(m) => m,
            Err(_) => return Ok(false),
        },
    };
    let epoch = *set.get_epoch_when_signed_entity_type_is_signed();
    let signers = run.signers_at(epoch);
    if signers.len() < 2 {
        return Ok(false);
    }
    let pp = run.sim.cfg.protocol_parameters.clone();
    let builder = SignerBuilder::new(&signers, &pp)?;
    let fixtures = run.fixture.signers_fixture();
    // honest signatures of every party of the epoch's set
    let mut honest: BTreeMap<String, SingleSignature> = BTreeMap::new();
    for s in &signers {
        let f = fixtures.iter().find(|f| f.signer_with_stake.party_id == s.party_id).unwrap();
        let fi = fixtures.iter().position(|x| x.signer_with_stake.party_id == s.party_id).unwrap();
        let _ = f;
        if let Ok(ss) = builder.restore_signer_from_initializer(s.party_id.clone(), run.initializer_at(epoch, fi)) {
            if let Ok(Some(sig)) = ss.sign(&message) {
                honest.insert(s.party_id.clone(), sig);
            }
        }
    }
    if honest.len() < 2 {
        return Ok(false);
    }
    let parties: Vec<String> = honest.keys().cloned().collect();
    let adversary = rnd::pick(rng, &parties).clone();
    let victim = loop {
        let v = rnd::pick(rng, &parties).clone();
        if v != adversary {
            break v;
        }
    };
    let unregistered = "pool1unregistered0000000000000000000000000000000000000000".to_string();
    let channels: Vec<Channel> = if early { vec![Channel::ApiAuthenticated, Channel::Http, Channel::Dmq] } else { vec![Channel::Api, Channel::ApiAuthenticated, Channel::Http, Channel::Dmq] };
    let mut subs: Vec<Submission> = vec![];
    // honest submissions (a random subset, the victim always included)
    for (p, s) in &honest {
        if *p == victim || *p == adversary || rnd::chance(rng, 2, 3) {
            subs.push(Submission { variant: "honest", label: p.clone(), producer: p.clone(), sig: s.clone(), channel: *rnd::pick(rng, &channels) });
        }
    }
    // adversarial ones
    let adv_sig = honest[&adversary].clone();
    let vic_sig = honest[&victim].clone();
    let relabel = |s: &SingleSignature, label: &str| {
        let mut c = s.clone();
        c.party_id = label.to_string();
        c
    };
    let mut adv: Vec<Submission> = vec![
        Submission { variant: "own-sigma-under-other-registered-name", label: victim.clone(), producer: adversary.clone(), sig: relabel(&adv_sig, &victim), channel: *rnd::pick(rng, &channels) },
        Submission { variant: "copy-of-other-sigma-under-own-name", label: adversary.clone(), producer: victim.clone(), sig: relabel(&vic_sig, &adversary), channel: *rnd::pick(rng, &channels) },
        Submission { variant: "copy-of-other-sigma-under-unregistered-name", label: unregistered.clone(), producer: victim.clone(), sig: relabel(&vic_sig, &unregistered), channel: *rnd::pick(rng, &channels) },
        Submission { variant: "replay-of-honest", label: victim.clone(), producer: victim.clone(), sig: vic_sig.clone(), channel: *rnd::pick(rng, &channels) },
    ];
    if vic_sig.won_indexes.len() >= 2 {
        let c = relabel(&with_indexes(&vic_sig, &vic_sig.won_indexes[..1]), &adversary);
        adv.push(Submission { variant: "copy-of-other-sigma-under-own-name-altered-indexes", label: adversary.clone(), producer: victim.clone(), sig: c, channel: *rnd::pick(rng, &channels) });
        let c = with_indexes(&vic_sig, &vic_sig.won_indexes[..1]);
        adv.push(Submission { variant: "replay-of-other-sigma-under-its-owner-name-with-restricted-indexes", label: victim.clone(), producer: victim.clone(), sig: c, channel: *rnd::pick(rng, &channels) });
    }
    {
        // a copy of the victim's signature under the victim's name whose ANNOUNCED index list (the
        // separate field of the submission) contains an index the victim did not win; the list
        // embedded in the signature is untouched
        let m = pp.m;
        if let Some(unwon) = (0..m).find(|i| !vic_sig.won_indexes.contains(i)) {
            let mut c = vic_sig.clone();
            c.won_indexes.push(unwon);
            adv.push(Submission { variant: "replay-under-owner-name-with-announced-unwon-index", label: victim.clone(), producer: victim.clone(), sig: c, channel: *rnd::pick(rng, &channels) });
        }
    }
    // own sigma under another name is impossible on the message queue (the party id is derived from the sender's certificate)
    for a in adv.iter_mut() {
        if a.channel == Channel::Dmq && a.variant == "own-sigma-under-other-registered-name" {
            a.channel = Channel::Http;
        }
    }
    let n_adv = 2 + rnd::usize_below(rng, adv.len() - 1);
    rnd::shuffle(rng, &mut adv);
    adv.truncate(n_adv);
    subs.extend(adv);
    rnd::shuffle(rng, &mut subs);

    let k = pp.k;
    let mut honest_delivered: BTreeMap<String, SingleSignature> = BTreeMap::new();
    // an earlier round on the same message that did not reach the quorum left its accepted
    // signatures behind (table, or buffer for an early round): a party whose own sigma (BLS is
    // deterministic: the harness re-makes the same one) is already held under its own name HAS
    // delivered; its contribution is what is held now
    {
        let snap0 = sim::snapshot(&run.sim.db_path())?;
        let mut held: Vec<(String, String, Vec<u64>)> = rows_for(run, &snap0, &set);
        for (party, sig) in buffered_rows(&snap0) {
            let (sigma, idx) = decode_stored(&sig);
            held.push((party, sigma, idx));
        }
        for (label, sigma, idx) in held {
            if let Some(h) = honest.get(&label) {
                if sig_hex(h) == sigma && !honest_delivered.contains_key(&label) {
                    honest_delivered.insert(label.clone(), with_indexes(h, &idx));
                    mon.count("honest_signature_already_held_from_an_earlier_round_on_the_same_message");
                }
            }
        }
    }
    let mut reported: BTreeSet<String> = BTreeSet::new();
    // sigma of the last submission ACCEPTED under each party name in this round (the buffer keeps one
    // entry per signed entity type and party: a later accepted submission under the same name
    // legitimately takes the place of an earlier one)
    let mut last_accepted_under_name: BTreeMap<String, String> = BTreeMap::new();
    let mut trace: Vec<Value> = vec![];
    let replay = |trace: &Vec<Value>, extra: Value| json!({"history": hid, "signed_entity_type": format!("{set:?}"), "early": early, "submissions": trace, "detail": extra});
    for sub in &subs {
        mon.eval();
        let reply = submit(run, &set, &message, sub, mon).await;
        mon.count(&format!("reply:{}:{}", sub.variant, reply.chars().take(24).collect::<String>()));
        if reply == "panic" {
            // the aggregator panicked while handling the submission: its sqlite connection mutex is
            // poisoned from here on, the history cannot go on
            anyhow::bail!("aggregator panicked while registering a '{}' submission", sub.variant);
        }
        trace.push(json!({"variant": sub.variant, "label": sub.label, "producer": sub.producer, "channel": format!("{:?}", sub.channel), "indexes": sub.sig.won_indexes, "reply": reply}));
        let snap = sim::snapshot(&run.sim.db_path())?;
        let accepted = reply.starts_with("Registered") || reply.starts_with("Buffered") || reply == "http:201" || reply == "http:202" || reply == "dmq:processed";
        if sub.variant == "honest" && accepted {
            honest_delivered.insert(sub.label.clone(), sub.sig.clone());
        }
        if accepted {
            last_accepted_under_name.insert(sub.label.clone(), sig_hex(&sub.sig));
        }
        run.deliveries.push(hist::Delivery {
            step: run.step,
            signed_entity_type: set.clone(),
            label: sub.label.clone(),
            producer: sub.producer.clone(),
            sigma_hex: sig_hex(&sub.sig),
            indexes: sub.sig.won_indexes.clone(),
            well_formed: sub.label == sub.producer,
            reply: if accepted { "Registered".into() } else { format!("refused:{reply}") },
        });
        if sub.variant != "honest" && sub.variant != "replay-of-honest" {
            mon.nontrivial_str(&format!("{hid}|{set:?}|{}|{:?}|{}", sub.variant, sub.channel, trace.len()));
        }
        // ---- invariants on what is stored now
        // the buffer (early submissions) is a waiting room: its content is only verified at hand-over,
        // so it is not judged; what counts is the single_signature table
        if early {
            mon.count_n("diag:buffered_rows_observed", buffered_rows(&snap).len() as u64);
        }
        let rows: Vec<(String, String, Vec<u64>)> = rows_for(run, &snap, &set);
        check_rows(&mut reported, run, mon, &rows, &honest, epoch, &message, "single_signature table", (sub.variant, sub.channel, &reply), &|extra| replay(&trace, extra));
        // honest contributions never disappear
        if !early {
            for (p, s) in &honest_delivered {
                let row = rows.iter().find(|(l, sg, _)| l == p && *sg == sig_hex(s));
                if let Some((_, _, idx)) = row {
                    // the recorded contribution (won indexes) must not shrink either
                    if !s.won_indexes.iter().all(|i| idx.contains(i)) && reported.insert(format!("shrink|{p}")) {
                        mon.violation(
                            &format!("C16 an honest party's recorded contribution shrank ({})", sub.variant),
                            &format!("party {p} delivered indexes {:?} (acknowledged) but its row now holds only {:?} after: {} via {:?}", s.won_indexes, idx, sub.variant, sub.channel),
                            replay(&trace, json!({"party": p})),
                        );
                    }
                }
                if row.is_none() {
                    mon.violation(
                        &format!("C16 an honest party's recorded signature disappeared or was replaced ({})", sub.variant),
                        &format!("party {p} delivered its own signature (acknowledged) but its row no longer holds it after: {} via {:?}", sub.variant, sub.channel),
                        replay(&trace, json!({"party": p})),
                    );
                }
            }
        }
    }
    // ---- seal the round
    let honest_union: BTreeSet<u64> = honest_delivered.values().flat_map(|s| s.won_indexes.iter().copied()).collect();
    let certs_before: BTreeSet<String> = run.prev.certificates.iter().map(|c| c["certificate_id"].as_str().unwrap_or("").to_string()).collect();
    for _ in 0..4 {
        run.apply(&hist::Ev::Tick, mon).await?;
        hist::check_step(run, mon, hid).await?;
    }
    {
        let snap = sim::snapshot(&run.sim.db_path())?;
        let rows = rows_for(run, &snap, &set);
        if early {
            mon.count_n("buffered_signatures_handed_over_rows", rows.len() as u64);
            // hand-over: once the open message of this very signed entity exists, every honest
            // signature that was acknowledged as buffered under its owner's name - and was the last
            // thing accepted under that name - must have been taken over into the table. Whatever
            // OTHER parties sent in between (copies under their own names included) must not have
            // displaced it.
            let (tid0, beacon0) = hist::set_key(&set);
            let opened = snap.open_messages.iter().any(|o| {
                o["signed_entity_type_id"].as_i64() == Some(tid0)
                    && match &o["beacon"] {
                        Value::String(s) => serde_json::from_str::<Value>(s).unwrap_or(Value::Null) == beacon0,
                        v => *v == beacon0,
                    }
            });
            if opened {
                for (p, s) in &honest_delivered {
                    if last_accepted_under_name.get(p) != Some(&sig_hex(s)) {
                        continue;
                    }
                    mon.eval();
                    mon.count("buffered_honest_signature_expected_in_the_table_after_hand_over");
                    if !rows.iter().any(|(l, sg, _)| l == p && *sg == sig_hex(s)) && reported.insert(format!("handover|{p}")) {
                        mon.violation(
                            "C16 an honest party's buffered signature was not handed over to the open message",
                            &format!("party {p} delivered its own signature early (acknowledged as buffered, nothing else was accepted under its name afterwards); the open message exists now but holds no row with that signature under {p}"),
                            replay(&trace, json!({"party": p})),
                        );
                    }
                }
            }
        }
        check_rows(&mut reported, run, mon, &rows, &honest, epoch, &message, "single_signature table after hand-over / sealing", ("(after the sealing ticks)", Channel::Api, "-"), &|extra| replay(&trace, extra));
    }
    let (tid, beacon) = hist::set_key(&set);
    let new_cert = run.prev.certificates.iter().find(|c| {
        !certs_before.contains(c["certificate_id"].as_str().unwrap_or(""))
            && c["signed_entity_type_id"].as_i64() == Some(tid)
            && match &c["signed_entity_beacon"] {
                Value::String(s) => serde_json::from_str::<Value>(s).unwrap_or(Value::Null) == beacon,
                v => *v == beacon,
            }
    });
    match new_cert {
        Some(c) => {
            mon.count("rounds_certified");
            if let Some(signers) = c["signers"].as_str().and_then(|s| serde_json::from_str::<Vec<Value>>(s).ok()) {
                for s in signers {
                    let p = s["party_id"].as_str().unwrap_or("");
                    if !honest_delivered.contains_key(p) {
                        mon.violation(
                            "C16 certificate names a party whose own key produced no delivered signature",
                            &format!("metadata.signers contains {p}, which never delivered a signature made with its own key in this round"),
                            replay(&trace, json!({"certificate_id": c["certificate_id"], "party": p})),
                        );
                    }
                }
            }
        }
        None => {
            mon.count("rounds_not_certified");
            let state = run.sim.state();
            if !early && honest_union.len() as u64 >= k && (state == "signing" || state == "ready") {
                // only judged when this open message is the one the state machine was working on
                let current = run.prev.open_messages.iter().any(|o| o["signed_entity_type_id"].as_i64() == Some(tid) && o["is_certified"].as_i64() == Some(0) && o["is_expired"].as_i64() == Some(0));
                if current && state == "signing" {
                    mon.violation(
                        "C16 honest quorum delivered but the round does not certify after adversarial submissions",
                        &format!("honest parties delivered {} distinct indices >= k = {k}, yet no certificate after 4 ticks", honest_union.len()),
                        replay(&trace, json!({})),
                    );
                }
            }
        }
    }
    if mon.wants_sample() {
        mon.sample(json!({"history": hid, "signed_entity_type": format!("{set:?}"), "early": early, "submissions": trace}));
    }
    mon.count("rounds");
    Ok(true)
}
