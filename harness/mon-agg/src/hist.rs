//! Seeded random histories over the real aggregator (sim.rs), with a boundary event log and the
//! history checker of C14 (M1-M6) and the attribution checker of C16.
use crate::sim::{self, Sim, SimConfig, Snapshot};
use mithril_common::certificate_chain::{CertificateRetriever, CertificateRetrieverError, CertificateVerifier, MithrilCertificateVerifier};
use mithril_common::crypto_helper::{GenesisSigner, GenesisVerifier};
use mithril_common::entities::*;
use mithril_common::protocol::{SignerBuilder, ToMessage};
use mithril_common::test::builder::{MithrilFixture, MithrilFixtureBuilder};
use mithril_common::StdResult;
use rand_chacha::ChaCha20Rng;
use rand_core::RngCore;
use serde_json::{json, Map, Value};
use std::collections::{BTreeMap, BTreeSet};
use std::sync::Arc;
use vcore::rnd;
use vcore::Monitor;

#[derive(Clone, Debug)]
pub enum Ev {
    Tick,
    EpochUp(u64),
    NewImmutable,
    Blocks(u64),
    /// `label_offset` = difference between the epoch the registration is labelled with and the epoch
    /// of the open round (0 = as an honest signer does)
    Register { who: Vec<usize>, label_offset: i64 },
    /// what a real signer does every epoch: register (honest round label) with a NEWLY generated key,
    /// KES-certified with the party's own operational certificate; possibly the second registration
    /// of the party in the round (the last acknowledged one is the key in force)
    RegisterFreshKey { who: Vec<usize> },
    /// sign the open message the aggregator is (or would be) working on for a discriminant
    Sign { disc: SignedEntityTypeDiscriminants, who: Vec<usize>, mode: SignMode, authenticated: bool },
    Expire { disc: SignedEntityTypeDiscriminants },
    Restart,
    ReissueGenesis,
}

#[derive(Clone, Copy, Debug, PartialEq)]
pub enum SignMode {
    Valid,
    Repeat,
    WrongMessage,
}

/// panics raised anywhere in the process (the aggregator's background tasks included), recorded by
/// the hook installed in main.rs
pub static PANICS: std::sync::Mutex<Vec<String>> = std::sync::Mutex::new(Vec::new());

pub fn install_panic_recorder() {
    std::panic::set_hook(Box::new(|info| {
        let loc = info.location().map(|l| format!("{}:{}", l.file(), l.line())).unwrap_or_default();
        let msg = if let Some(s) = info.payload().downcast_ref::<&str>() {
            s.to_string()
        } else if let Some(s) = info.payload().downcast_ref::<String>() {
            s.clone()
        } else {
            "?".into()
        };
        if std::env::var("VERIF_DEBUG").is_ok() {
            eprintln!("panic recorded: {loc}: {msg}");
        }
        if let Ok(mut p) = PANICS.lock() {
            p.push(format!("{loc}: {msg}"));
        }
    }));
}

pub const DISCS: [SignedEntityTypeDiscriminants; 5] = [
    SignedEntityTypeDiscriminants::MithrilStakeDistribution,
    SignedEntityTypeDiscriminants::CardanoStakeDistribution,
    SignedEntityTypeDiscriminants::CardanoDatabase,
    SignedEntityTypeDiscriminants::CardanoTransactions,
    SignedEntityTypeDiscriminants::CardanoBlocksTransactions,
];

/// What the harness knows about one delivered signature (ground truth kept outside the aggregator)
#[derive(Clone, Debug)]
pub struct Delivery {
    pub step: usize,
    pub signed_entity_type: SignedEntityType,
    /// label = party id written in the submission
    pub label: String,
    /// party whose key really produced sigma
    pub producer: String,
    pub sigma_hex: String,
    pub indexes: Vec<u64>,
    /// did the harness build it as a valid signature of the right message by a signer of the epoch's set
    pub well_formed: bool,
    pub reply: String,
}

pub struct Model {
    /// signer set (fixture indices) in force for signing at an epoch
    pub signing_set: BTreeMap<u64, BTreeSet<usize>>,
    pub genesis_epochs: Vec<u64>,
    /// epochs without an entry: everybody (used by workloads in which every signer always registers)
    pub default_all: bool,
    /// (signing epoch, fixture index) -> the key the party registered LAST (acknowledged) for that
    /// epoch when it is not the fixture's key, with the initializer that signs with it
    pub keys: BTreeMap<(u64, usize), (SignerWithStake, mithril_common::crypto_helper::ProtocolInitializer)>,
}

pub struct Run {
    pub sim: Sim,
    pub fixture: MithrilFixture,
    pub model: Model,
    pub log: Vec<Value>,
    pub deliveries: Vec<Delivery>,
    pub prev: Snapshot,
    pub step: usize,
    pub states_seen: BTreeSet<String>,
    pub transitions_seen: BTreeSet<String>,
    pub state_event_pairs: BTreeSet<String>,
    pub chain_epoch: u64,
    pub key_counter: u64,
    pub background_stuck: bool,
    /// Some: signers behave like real ones - a (signer, signed entity) whose signature was
    /// ACKNOWLEDGED (registered or buffered) is never sent again (C15's workload: a restarted
    /// aggregator has to go on with what it persisted). None: every Sign event sends.
    pub signed_once: Option<BTreeSet<(usize, String)>>,
}

fn disc_name(d: SignedEntityTypeDiscriminants) -> String {
    d.to_string()
}

pub fn genesis_verifier() -> GenesisVerifier {
    GenesisSigner::create_deterministic_signer().create_verifier()
}

impl Run {
    pub async fn start(dir: std::path::PathBuf, rng: &mut ChaCha20Rng) -> StdResult<Run> {
        Self::start_with_types(dir, rng, sim::all_types()).await
    }

    pub async fn start_with_types(dir: std::path::PathBuf, rng: &mut ChaCha20Rng, types: Vec<SignedEntityTypeDiscriminants>) -> StdResult<Run> {
        let n_signers = 3 + rnd::usize_below(rng, 4);
        let pp = ProtocolParameters { k: 3 + rnd::below(rng, 3), m: 60 + rnd::below(rng, 90), phi_f: 0.95 };
        let cfg = SimConfig { data_dir: dir, protocol_parameters: pp.clone(), tx_step: 30, blocks_step: 15 * (1 + rnd::below(rng, 2)), types };
        let start_epoch = 1 + rnd::below(rng, 3);
        let start = TimePoint {
            epoch: Epoch(start_epoch),
            immutable_file_number: 1,
            chain_point: ChainPoint { slot_number: SlotNumber(10), block_number: BlockNumber(100), block_hash: "block_hash-100".into() },
        };
        let mut sim = Sim::build(cfg, start).await?;
        let mut seed = [0u8; 32];
        rng.fill_bytes(&mut seed);
        let fixture = MithrilFixtureBuilder::default().with_signers(n_signers).with_protocol_parameters(pp).build();
        sim.init_genesis(&fixture).await?;
        let all: BTreeSet<usize> = (0..n_signers).collect();
        let mut signing_set = BTreeMap::new();
        signing_set.insert(start_epoch, all.clone());
        signing_set.insert(start_epoch + 1, all);
        let prev = sim::snapshot(&sim.db_path())?;
        Ok(Run {
            sim,
            fixture,
            model: Model { signing_set, genesis_epochs: vec![start_epoch], default_all: false, keys: BTreeMap::new() },
            log: vec![],
            deliveries: vec![],
            prev,
            step: 0,
            states_seen: BTreeSet::new(),
            transitions_seen: BTreeSet::new(),
            state_event_pairs: BTreeSet::new(),
            chain_epoch: start_epoch,
            key_counter: 0,
            background_stuck: false,
            signed_once: None,
        })
    }

    /// restart on existing files after a crash: the doubles of the outside world are re-created at
    /// the persisted time point, the fixture is deterministic
    pub async fn resume(cfg: SimConfig, tp: TimePoint, n_signers: usize, pp: ProtocolParameters, genesis_epochs: Vec<u64>) -> StdResult<Run> {
        let chain_epoch = *tp.epoch;
        let mut sim = Sim::build(cfg, tp).await?;
        let fixture = MithrilFixtureBuilder::default().with_signers(n_signers).with_protocol_parameters(pp).build();
        sim.world.chain_observer.set_signers(fixture.signers_with_stake()).await;
        sim.update_digester().await?;
        let prev = sim::snapshot(&sim.db_path())?;
        Ok(Run {
            sim,
            fixture,
            model: Model { signing_set: BTreeMap::new(), genesis_epochs, default_all: true, keys: BTreeMap::new() },
            log: vec![],
            deliveries: vec![],
            prev,
            step: 0,
            states_seen: BTreeSet::new(),
            transitions_seen: BTreeSet::new(),
            state_event_pairs: BTreeSet::new(),
            chain_epoch,
            key_counter: 0,
            background_stuck: false,
            signed_once: None,
        })
    }

    pub fn n_signers(&self) -> usize {
        self.fixture.signers_fixture().len()
    }

    /// signers (with stake) the model says are in force at `epoch`
    pub fn signers_at(&self, epoch: u64) -> Vec<SignerWithStake> {
        let all = self.fixture.signers_with_stake();
        let key_of = |i: usize| self.model.keys.get(&(epoch, i)).map(|k| k.0.clone()).unwrap_or_else(|| all[i].clone());
        match self.model.signing_set.get(&epoch) {
            Some(s) => s.iter().map(|&i| key_of(i)).collect(),
            None if self.model.default_all => (0..all.len()).map(key_of).collect(),
            None => vec![],
        }
    }

    /// the initializer holding the key party `i` registered for signing at `epoch`
    pub fn initializer_at(&self, epoch: u64, i: usize) -> mithril_common::crypto_helper::ProtocolInitializer {
        match self.model.keys.get(&(epoch, i)) {
            Some(k) => k.1.clone(),
            None => self.fixture.signers_fixture()[i].protocol_initializer.clone(),
        }
    }

    /// choose the next event
    pub fn choose(&self, rng: &mut ChaCha20Rng, open_discs: &[SignedEntityTypeDiscriminants]) -> Ev {
        let state = self.sim.state();
        let n = self.n_signers();
        let subset = |rng: &mut ChaCha20Rng, p_all: u64| -> Vec<usize> {
            if rnd::chance(rng, p_all, 100) {
                (0..n).collect()
            } else {
                let mut v: Vec<usize> = (0..n).collect();
                rnd::shuffle(rng, &mut v);
                v.truncate(1 + rnd::usize_below(rng, n));
                v.sort();
                v
            }
        };
        if state == "blocked-epoch-gap" || state == "blocked-no-genesis" {
            let has_genesis_now = self.prev.certificates.iter().any(|c| c["parent_certificate_id"].is_null() && c["epoch"].as_i64() == Some(self.chain_epoch as i64));
            if !has_genesis_now && rnd::chance(rng, 40, 100) {
                return Ev::ReissueGenesis;
            }
            if has_genesis_now && rnd::chance(rng, 35, 100) {
                return Ev::EpochUp(1);
            }
        }
        if state == "blocked-genesis-epoch" && rnd::chance(rng, 30, 100) {
            return Ev::EpochUp(1);
        }
        let roll = rnd::below(rng, 100);
        match roll {
            0..=29 => Ev::Tick,
            30..=57 => {
                // sign what the state machine is working on, if anything
                let disc = if !open_discs.is_empty() && rnd::chance(rng, 85, 100) { *rnd::pick(rng, open_discs) } else { *rnd::pick(rng, &DISCS) };
                let mode = match rnd::below(rng, 10) {
                    0 => SignMode::Repeat,
                    1 => SignMode::WrongMessage,
                    _ => SignMode::Valid,
                };
                Ev::Sign { disc, who: subset(rng, 65), mode, authenticated: rnd::chance(rng, 1, 2) }
            }
            58..=65 => Ev::NewImmutable,
            66..=74 => Ev::Blocks(1 + rnd::below(rng, 45)),
            75..=81 => {
                // an epoch usually lasts long enough for at least one certificate; sometimes not
                if self.epoch_has_certificate() || rnd::chance(rng, 1, 6) {
                    if rnd::chance(rng, 1, 12) { Ev::EpochUp(2 + rnd::below(rng, 2)) } else { Ev::EpochUp(1) }
                } else {
                    Ev::Tick
                }
            }
            82 => Ev::Blocks(15 + rnd::below(rng, 30)),
            83..=85 => Ev::RegisterFreshKey { who: subset(rng, 50) },
            86..=91 => Ev::Register { who: subset(rng, 70), label_offset: if rnd::chance(rng, 1, 6) { *rnd::pick(rng, &[-2i64, -1, 1]) } else { 0 } },
            92..=93 => Ev::Expire { disc: if open_discs.is_empty() { *rnd::pick(rng, &DISCS) } else { *rnd::pick(rng, open_discs) } },
            94..=97 => Ev::Restart,
            _ => Ev::Tick,
        }
    }

    pub fn epoch_has_certificate(&self) -> bool {
        self.prev.certificates.iter().any(|c| c["epoch"].as_i64() == Some(self.chain_epoch as i64) && !c["parent_certificate_id"].is_null())
    }

    /// non certified, non expired open messages of the aggregator's current epoch (from the table)
    pub fn open_discriminants(&self) -> Vec<SignedEntityTypeDiscriminants> {
        let mut v = vec![];
        for om in &self.prev.open_messages {
            if om["is_certified"].as_i64() == Some(0) && om["is_expired"].as_i64() == Some(0) {
                if let Some(id) = om["signed_entity_type_id"].as_i64() {
                    if let Some(d) = disc_of_id(id) {
                        v.push(d);
                    }
                }
            }
        }
        v
    }

    pub async fn apply(&mut self, ev: &Ev, mon: &mut Monitor) -> StdResult<()> {
        self.step += 1;
        let state_before = self.sim.state().to_string();
        let kind = match ev {
            Ev::Tick => "tick",
            Ev::EpochUp(1) => "epoch+1",
            Ev::EpochUp(_) => "epoch+n",
            Ev::NewImmutable => "new-immutable",
            Ev::Blocks(_) => "blocks",
            Ev::Register { label_offset: 0, .. } => "register",
            Ev::Register { .. } => "register-wrong-round-label",
            Ev::RegisterFreshKey { .. } => "register-fresh-key",
            Ev::Sign { mode: SignMode::Valid, .. } => "sign-valid",
            Ev::Sign { mode: SignMode::Repeat, .. } => "sign-repeat",
            Ev::Sign { mode: SignMode::WrongMessage, .. } => "sign-wrong-message",
            Ev::Expire { .. } => "expire",
            Ev::Restart => "restart",
            Ev::ReissueGenesis => "reissue-genesis",
        };
        if std::env::var("VERIF_DEBUG").is_ok() {
            eprintln!("step {} chain epoch {} state {state_before}: {ev:?}", self.step, self.chain_epoch);
        }
        self.state_event_pairs.insert(format!("{state_before}/{kind}"));
        mon.count(&format!("event:{kind}"));
        let mut entry = json!({"step": self.step, "event": format!("{ev:?}"), "state_before": state_before});
        match ev {
            Ev::Tick => {
                let r = self.sim.cycle().await;
                // let a spawned artifact task finish: artifacts are produced by a background task
                // whose duration depends on the machine's load (file archiving); what the harness
                // observes after a tick must not. Once a task has not come back within the cap the
                // history goes on with short waits (a task that never ends is for the oracles).
                let cap = if self.background_stuck { std::time::Duration::from_millis(50) } else { std::time::Duration::from_secs(30) };
                if !self.sim.wait_for_background_tasks(cap).await && !self.background_stuck {
                    self.background_stuck = true;
                    mon.count("background artifact task still running 30 s after a tick");
                }
                entry["reply"] = json!(match &r { Ok(()) => "ok".to_string(), Err(e) => format!("err: {e}") });
                if let Err(e) = &r {
                    mon.count("tick_errors");
                    let class: String = e.split(|c| c == '{' || c == '(').next().unwrap_or("").chars().take(40).collect();
                    mon.count(&format!("tick_error_class:{}", class.trim()));
                    if std::env::var("VERIF_DEBUG").is_ok() {
                        eprintln!("tick error in state {state_before}: {e}");
                    }
                }
            }
            Ev::EpochUp(n) => {
                for _ in 0..*n {
                    let e = self.sim.increase_epoch().await?;
                    self.chain_epoch = *e;
                }
                entry["epoch"] = json!(self.chain_epoch);
            }
            Ev::NewImmutable => {
                let n = self.sim.increase_immutable().await?;
                entry["immutable"] = json!(n);
            }
            Ev::Blocks(n) => {
                let (b, s) = self.sim.increase_blocks(*n).await?;
                entry["block"] = json!(b);
                entry["slot"] = json!(s);
            }
            Ev::Register { who, label_offset } => {
                let honest_label = Epoch(self.chain_epoch).offset_to_recording_epoch();
                let reg_epoch = Epoch((*honest_label as i64 + *label_offset).max(0) as u64);
                let fixtures = self.fixture.signers_fixture();
                let mut acks = vec![];
                for &i in who {
                    let signer: Signer = fixtures[i].signer_with_stake.clone().into();
                    let r = self.sim.deps.signer_registerer.register_signer(reg_epoch, &signer).await;
                    let ok = match &r {
                        Ok(_) => true,
                        Err(e) => format!("{e:?}").contains("ExistingSigner"),
                    };
                    if ok {
                        // An acknowledged registration counts for the round it NAMES: label L is the
                        // recording epoch of the round, i.e. the registration was made for chain epoch
                        // L - 1 and its key signs at (L - 1) + 2 = L + 1. With the honest label this is
                        // chain epoch + 2. A label other than the honest one is acknowledged by a
                        // correct aggregator only while that round is still the open one (the chain
                        // has moved to the next epoch, the aggregator has not opened the new round
                        // yet): it then belongs to that round. An aggregator that files it under
                        // another round disagrees with this model and M3 judges the key.
                        self.model.signing_set.entry(*reg_epoch + 1).or_default().insert(i);
                        // the fixture's key is now the last one acknowledged for that round
                        self.model.keys.remove(&(*reg_epoch + 1, i));
                    }
                    if ok && *label_offset != 0 {
                        mon.count("diag:registration_with_wrong_round_label_acknowledged");
                    }
                    acks.push(json!({"signer": i, "ack": ok, "err": r.err().map(|e| format!("{e:?}").chars().take(120).collect::<String>())}));
                    mon.count(if ok { "registration_acked" } else { "registration_refused" });
                }
                entry["replies"] = json!(acks);
            }
            Ev::RegisterFreshKey { who } => {
                use mithril_common::crypto_helper::{KesPeriod, KesSigner, KesSignerStandard, ProtocolInitializer};
                let label = Epoch(self.chain_epoch).offset_to_recording_epoch();
                let fixtures = self.fixture.signers_fixture();
                let pp = self.sim.cfg.protocol_parameters.clone();
                let mut acks = vec![];
                for &i in who {
                    let f = &fixtures[i];
                    let (Some(sk), Some(oc)) = (f.kes_secret_key_path(), f.operational_certificate_path()) else {
                        mon.count("register_fresh_key:fixture_without_kes_material");
                        continue;
                    };
                    let kes = Arc::new(KesSignerStandard::new(sk.to_path_buf(), oc.to_path_buf())) as Arc<dyn KesSigner>;
                    let stake = f.signer_with_stake.stake;
                    self.key_counter += 1;
                    let mut seed = [0u8; 32];
                    seed[..8].copy_from_slice(&self.key_counter.to_le_bytes());
                    seed[8..16].copy_from_slice(&(i as u64).to_le_bytes());
                    seed[16..24].copy_from_slice(&self.chain_epoch.to_le_bytes());
                    let mut krng = <ChaCha20Rng as rand_core::SeedableRng>::from_seed(seed);
                    let Ok(pi) = ProtocolInitializer::setup(pp.clone().into(), Some(kes), Some(KesPeriod(0)), stake, &mut krng) else {
                        mon.count("register_fresh_key:setup_failed");
                        continue;
                    };
                    let signer = Signer {
                        party_id: f.signer_with_stake.party_id.clone(),
                        verification_key_for_concatenation: pi.verification_key_for_concatenation().into(),
                        verification_key_signature_for_concatenation: pi.verification_key_signature_for_concatenation(),
                        operational_certificate: f.signer_with_stake.operational_certificate.clone(),
                        kes_evolutions: Some(mithril_common::crypto_helper::KesEvolutions(0)),
                    };
                    let r = self.sim.deps.signer_registerer.register_signer(label, &signer).await;
                    let ok = match &r {
                        Ok(_) => true,
                        Err(e) => format!("{e:?}").contains("ExistingSigner"),
                    };
                    if ok {
                        self.model.signing_set.entry(*label + 1).or_default().insert(i);
                        self.model.keys.insert((*label + 1, i), (SignerWithStake::from_signer(signer, stake), pi));
                        mon.count(if r.is_ok() { "register_fresh_key:first_registration_of_the_party_in_the_round" } else { "register_fresh_key:replaces_an_earlier_registration_of_the_round" });
                    }
                    acks.push(json!({"signer": i, "ack": ok, "err": r.err().map(|e| format!("{e:?}").chars().take(120).collect::<String>())}));
                    mon.count(if ok { "registration_acked" } else { "registration_refused" });
                }
                entry["replies"] = json!(acks);
            }
            Ev::Sign { disc, who, mode, authenticated } => {
                let replies = self.sign(*disc, who, *mode, *authenticated, mon).await;
                entry["replies"] = json!(replies);
            }
            Ev::Expire { disc } => {
                // make the current open message of that type expire (what the passing of time does)
                if let Ok(set) = self.sim.current_signed_entity_type(*disc).await {
                    let repo = self.sim.builder.get_open_message_repository().await.map_err(|e| anyhow::anyhow!("{e:?}"))?;
                    if let Ok(Some(mut om)) = repo.get_open_message(&set).await {
                        om.expires_at = Some(chrono::Utc::now() - chrono::Duration::seconds(1));
                        let _ = repo.update_open_message(&om).await;
                        entry["expired"] = json!(format!("{set:?}"));
                        mon.count("open_message_forced_to_expire");
                    }
                }
            }
            Ev::Restart => {
                // give background artifact tasks a chance to complete: a clean restart
                tokio::time::sleep(std::time::Duration::from_millis(30)).await;
                self.sim.restart().await?;
            }
            Ev::ReissueGenesis => {
                // `init_state_from_fixture_for_genesis` is a test helper of the aggregator crate, not
                // the operator's genesis command: called for an epoch the aggregator never observed
                // (several epoch changes in a blocked state without a tick) its inserts violate a
                // foreign key and panic inside mithril-persistence, which also poisons the connection
                // mutex. That is a limit of the harness's shortcut: the history ends there, discarded.
                use futures::FutureExt;
                let r = std::panic::AssertUnwindSafe(self.sim.reissue_genesis(&self.fixture)).catch_unwind().await;
                match r {
                    Ok(r) => r?,
                    Err(_) => {
                        mon.count("harness:genesis_helper_panicked_history_discarded");
                        anyhow::bail!("the genesis test helper panicked (epoch never observed by the aggregator)");
                    }
                }
                let all: BTreeSet<usize> = (0..self.n_signers()).collect();
                self.model.signing_set.insert(self.chain_epoch, all.clone());
                self.model.signing_set.insert(self.chain_epoch + 1, all);
                // the re-bootstrap stores the fixture's keys for these two epochs
                let ce = self.chain_epoch;
                self.model.keys.retain(|(e, _), _| *e != ce && *e != ce + 1);
                self.model.genesis_epochs.push(self.chain_epoch);
            }
        }
        let state_after = self.sim.state().to_string();
        entry["state_after"] = json!(state_after);
        {
            let new_panics: Vec<String> = PANICS.lock().map(|mut p| p.drain(..).collect()).unwrap_or_default();
            if !new_panics.is_empty() {
                for p in &new_panics {
                    let loc = vcore::panic_location(p);
                    let msg: String = p.chars().skip(loc.len() + 2).take(60).collect();
                    mon.count(&format!("diag:aggregator_panic@{loc}: {msg}"));
                }
                entry["panics"] = json!(new_panics);
                if std::env::var("VERIF_DEBUG").is_ok() {
                    eprintln!("PANIC at step {}: {:?}\n  event {:?}\n  recent: {}", self.step, new_panics, ev,
                        self.log.iter().rev().take(10).rev().map(|e| format!("{} [{}->{}]", e["event"], e["state_before"], e["state_after"])).collect::<Vec<_>>().join("\n          "));
                    if let Ok(sn) = sim::snapshot(&self.sim.db_path()) {
                        for se in &sn.signed_entities {
                            eprintln!("  signed_entity {} type {} beacon {} cert {}", se["signed_entity_id"], se["signed_entity_type_id"], se["beacon"], se["certificate_id"]);
                        }
                        for c in &sn.certificates {
                            eprintln!("  cert {} type {} beacon {} epoch {} parent {}", c["certificate_id"], c["signed_entity_type_id"], c["signed_entity_beacon"], c["epoch"], c["parent_certificate_id"]);
                        }
                    }
                }
            }
        }
        self.states_seen.insert(state_after.clone());
        if matches!(ev, Ev::Tick) {
            self.transitions_seen.insert(format!("{state_before}->{state_after}"));
        }
        self.log.push(entry);
        Ok(())
    }

    async fn sign(&mut self, disc: SignedEntityTypeDiscriminants, who: &[usize], mode: SignMode, authenticated: bool, mon: &mut Monitor) -> Vec<Value> {
        let mut replies = vec![];
        let Ok(set) = self.sim.current_signed_entity_type(disc).await else {
            mon.count("sign:no_signed_entity_type");
            return replies;
        };
        // the message: the open message's own protocol message when it exists, else what the
        // signable builder computes (signers compute it on their own in reality)
        let om = self.sim.deps.certifier_service.get_open_message(&set).await.ok().flatten();
        let message: ProtocolMessage = match &om {
            Some(om) => om.protocol_message.clone(),
            None => match self.sim.deps.signable_builder_service.compute_protocol_message(set.clone()).await {
                Ok(m) => m,
                Err(e) => {
                    mon.count("sign:cannot_compute_message");
                    if std::env::var("VERIF_DEBUG").is_ok() {
                        eprintln!("cannot compute message for {set:?}: {e:#}");
                    }
                    return replies;
                }
            },
        };
        let epoch = *set.get_epoch_when_signed_entity_type_is_signed();
        let signers = self.signers_at(epoch);
        if signers.is_empty() {
            mon.count("sign:no_signers_in_model_for_epoch");
            return replies;
        }
        let pp = self.sim.cfg.protocol_parameters.clone();
        let Ok(builder) = SignerBuilder::new(&signers, &pp) else {
            mon.count("sign:signer_builder_failed");
            return replies;
        };
        let fixtures = self.fixture.signers_fixture();
        for &i in who {
            let f = &fixtures[i];
            let party = f.signer_with_stake.party_id.clone();
            let once_key = (i, format!("{set:?}"));
            if self.signed_once.as_ref().is_some_and(|s| s.contains(&once_key)) {
                mon.count("sign:not_sent_again_(already_acknowledged)");
                continue;
            }
            let in_set = self.model.signing_set.get(&epoch).map(|s| s.contains(&i)).unwrap_or(self.model.default_all);
            // a signer outside the epoch's set signs with the whole-fixture registration it knows
            let sig: Option<SingleSignature> = if in_set {
                match builder.restore_signer_from_initializer(party.clone(), self.initializer_at(epoch, i)) {
                    Ok(s) => {
                        let msg_to_sign = if mode == SignMode::WrongMessage {
                            let mut m = message.clone();
                            m.set_message_part(ProtocolMessagePartKey::CurrentEpoch, "999999".to_string());
                            m
                        } else {
                            message.clone()
                        };
                        s.sign(&msg_to_sign).ok().flatten()
                    }
                    Err(_) => None,
                }
            } else {
                f.sign(&message)
            };
            let Some(mut sig) = sig else {
                mon.count("sign:lost_lottery");
                continue;
            };
            if authenticated {
                sig.authentication_status = SingleSignatureAuthenticationStatus::Authenticated;
            }
            let well_formed = in_set && mode != SignMode::WrongMessage;
            let times = if mode == SignMode::Repeat { 2 } else { 1 };
            for _ in 0..times {
                let r = self.sim.deps.certifier_service.register_single_signature(&set, &sig).await;
                let reply = match &r {
                    Ok(s) => format!("{s:?}"),
                    Err(e) => {
                        let t = format!("{e:?}");
                        let class = ["AlreadyCertified", "Expired", "NotFound", "InvalidSingleSignature"].iter().find(|c| t.contains(**c)).map(|c| c.to_string());
                        format!("err:{}", class.unwrap_or_else(|| t.chars().take(80).collect()))
                    }
                };
                if (reply.starts_with("Registered") || reply.starts_with("Buffered")) && mode == SignMode::Valid {
                    if let Some(s) = self.signed_once.as_mut() {
                        s.insert(once_key.clone());
                    }
                }
                mon.count(&format!("signature_reply:{}:{}", if well_formed { "well_formed" } else { "bad" }, reply.chars().take(40).collect::<String>()));
                self.deliveries.push(Delivery {
                    step: self.step,
                    signed_entity_type: set.clone(),
                    label: party.clone(),
                    producer: party.clone(),
                    sigma_hex: sig.signature.to_json_hex().unwrap_or_default(),
                    indexes: sig.won_indexes.clone(),
                    well_formed,
                    reply: reply.clone(),
                });
                replies.push(json!({"signer": i, "reply": reply, "well_formed": well_formed, "set": format!("{set:?}")}));
            }
        }
        let _ = message.to_message();
        replies
    }
}

pub fn disc_of_id(id: i64) -> Option<SignedEntityTypeDiscriminants> {
    DISCS.iter().copied().find(|d| d.index() as i64 == id).or(match id {
        0 => Some(SignedEntityTypeDiscriminants::MithrilStakeDistribution),
        _ => None,
    })
}

// ---------------------------------------------------------------------------------------------
// C14 history checker

pub struct TableRetriever {
    pub certs: BTreeMap<String, Certificate>,
}

#[async_trait::async_trait]
impl CertificateRetriever for TableRetriever {
    async fn get_certificate_details(&self, hash: &str) -> Result<Certificate, CertificateRetrieverError> {
        self.certs.get(hash).cloned().ok_or_else(|| CertificateRetrieverError(anyhow::anyhow!("certificate {hash} not served")))
    }
}

/// a JSON column may come back from sqlite as text: normalise to the parsed value
fn row_json(r: &Map<String, Value>, k: &str) -> Value {
    match r.get(k) {
        Some(Value::String(s)) => serde_json::from_str::<Value>(s).unwrap_or_else(|_| Value::String(s.clone())),
        Some(v) => v.clone(),
        None => Value::Null,
    }
}

fn row_str<'a>(r: &'a Map<String, Value>, k: &str) -> &'a str {
    r.get(k).and_then(|v| v.as_str()).unwrap_or("")
}

pub struct Checker<'a> {
    pub run: &'a mut Run,
}

/// After every step: look at the new certificate rows and judge M2-M6; M1 is done by `verify_all`.
pub async fn check_step(run: &mut Run, mon: &mut Monitor, history_id: &str) -> StdResult<()> {
    let snap = sim::snapshot(&run.sim.db_path())?;
    let known: BTreeSet<String> = run.prev.certificates.iter().map(|r| row_str(r, "certificate_id").to_string()).collect();
    let replay = |run: &Run, extra: Value| json!({"history": history_id, "step": run.step, "log_tail": run.log.iter().rev().take(25).rev().collect::<Vec<_>>(), "detail": extra});
    // rows never disappear or change
    for old in &run.prev.certificates {
        let id = row_str(old, "certificate_id");
        match snap.certificates.iter().find(|r| row_str(r, "certificate_id") == id) {
            None => mon.violation("C14 stored certificate disappeared", &format!("certificate {id} is no longer in the store"), replay(run, json!({"certificate_id": id}))),
            Some(n) if n != old => mon.violation("C14 stored certificate was modified", &format!("certificate {id} changed after being stored"), replay(run, json!({"certificate_id": id}))),
            _ => {}
        }
    }
    for (pos, row) in snap.certificates.iter().enumerate() {
        let id = row_str(row, "certificate_id").to_string();
        if known.contains(&id) {
            continue;
        }
        mon.eval();
        let is_genesis = row["parent_certificate_id"].is_null();
        let epoch = row["epoch"].as_i64().unwrap_or(-1) as u64;
        if is_genesis {
            mon.count("certificate_rows:genesis");
            continue;
        }
        mon.count("certificate_rows:standard");
        let set_id = row["signed_entity_type_id"].as_i64().unwrap_or(-1);
        let beacon = row_json(row, "signed_entity_beacon");
        mon.count(&format!("certified:{}", disc_of_id(set_id).map(disc_name).unwrap_or_else(|| format!("type{set_id}"))));
        mon.nontrivial_str(&format!("{history_id}|{id}"));
        let earlier = &snap.certificates[..pos];
        // latest genesis at or before this row restarts the chain
        let gpos = earlier.iter().rposition(|r| r["parent_certificate_id"].is_null()).unwrap_or(0);
        let chain = &earlier[gpos..];
        // ---- M5: no signed entity certified twice
        if earlier.iter().any(|r| !r["parent_certificate_id"].is_null() && r["signed_entity_type_id"].as_i64() == Some(set_id) && row_json(r, "signed_entity_beacon") == beacon) {
            mon.violation("C14 signed entity certified twice", &format!("two certificates for type {set_id} beacon {beacon}"), replay(run, json!({"certificate_id": id})));
        }
        // ---- M6: no gap
        if let Some(last) = earlier.last() {
            let le = last["epoch"].as_i64().unwrap_or(-1) as u64;
            if epoch > le + 1 {
                mon.violation("C14 certificate emitted across an epoch gap", &format!("certificate of epoch {epoch} follows a last certificate of epoch {le}"), replay(run, json!({"certificate_id": id})));
            }
            if epoch < le {
                mon.violation("C14 certificate of an earlier epoch emitted after a later one", &format!("epoch {epoch} after {le}"), replay(run, json!({"certificate_id": id})));
            }
        }
        // ---- M4: parent = first certificate of its epoch, or of the preceding epoch if it is the first
        let first_of = |e: u64| chain.iter().find(|r| r["epoch"].as_i64() == Some(e as i64));
        let expected_parent = first_of(epoch).or_else(|| if epoch > 0 { first_of(epoch - 1) } else { None });
        let parent = row_str(row, "parent_certificate_id");
        match expected_parent {
            Some(p) if row_str(p, "certificate_id") == parent => {}
            Some(p) => mon.violation("C14 wrong parent certificate", &format!("certificate of epoch {epoch} links to {parent} instead of {}", row_str(p, "certificate_id")), replay(run, json!({"certificate_id": id}))),
            None => mon.violation("C14 certificate without an admissible parent", &format!("certificate of epoch {epoch}: no certificate of epoch {epoch} or {} since the last genesis", epoch.saturating_sub(1)), replay(run, json!({"certificate_id": id}))),
        }
        // ---- M2: sealed for a live open message that had a quorum of acknowledged valid signatures
        let om_before = run.prev.open_messages.iter().find(|o| o["signed_entity_type_id"].as_i64() == Some(set_id) && row_json(o, "beacon") == beacon);
        match om_before {
            None => mon.violation("C14 certificate sealed without an open message", &format!("no open message existed for type {set_id} beacon {beacon} before the sealing step"), replay(run, json!({"certificate_id": id}))),
            Some(o) => {
                if o["is_certified"].as_i64() != Some(0) {
                    mon.violation("C14 certificate sealed for an already certified open message", "", replay(run, json!({"certificate_id": id})));
                }
                if o["is_expired"].as_i64() != Some(0) {
                    mon.violation("C14 certificate sealed for an expired open message", "", replay(run, json!({"certificate_id": id})));
                }
            }
        }
        {
            let k = run.sim.cfg.protocol_parameters.k;
            let mut union: BTreeSet<u64> = BTreeSet::new();
            let mut parties: BTreeSet<String> = BTreeSet::new();
            for d in run.deliveries.iter().filter(|d| d.well_formed && (d.reply.starts_with("Registered") || d.reply.starts_with("Buffered"))) {
                let (tid, b) = set_key(&d.signed_entity_type);
                if tid == set_id && b == beacon && d.step < run.step {
                    union.extend(d.indexes.iter().copied());
                    parties.insert(d.label.clone());
                }
            }
            if (union.len() as u64) < k {
                mon.violation("C14 certificate sealed without a quorum of delivered valid signatures",
                    &format!("acknowledged valid signatures delivered for this open message cover {} distinct indices < k = {k}", union.len()),
                    replay(run, json!({"certificate_id": id, "delivered_parties": parties})));
            }
            // the signer list names only parties that delivered a valid signature for it
            if let Ok(signers) = serde_json::from_str::<Vec<Value>>(row_str(row, "signers")) {
                for s in signers {
                    let p = s["party_id"].as_str().unwrap_or("").to_string();
                    if !parties.contains(&p) {
                        mon.violation("C14 certificate names a signer that delivered no valid signature", &format!("party {p} is in metadata.signers"), replay(run, json!({"certificate_id": id})));
                    }
                }
            }
        }
        // ---- M3: aggregate key and parameters in force for the epoch
        {
            let signers = run.signers_at(epoch);
            let pp = run.sim.cfg.protocol_parameters.clone();
            match SignerBuilder::new(&signers, &pp) {
                Ok(b) => {
                    let avk = b.compute_aggregate_verification_key();
                    let want = mithril_common::crypto_helper::ProtocolKey::new(avk.to_concatenation_aggregate_verification_key().to_owned()).to_json_hex().unwrap_or_default();
                    if want != row_str(row, "aggregate_verification_key") {
                        mon.violation("C14 certificate carries an aggregate key that is not the one in force for its epoch",
                            &format!("epoch {epoch}: key recomputed from the logged registrations ({} signers) differs", signers.len()),
                            replay(run, json!({"certificate_id": id, "model_set": run.model.signing_set.get(&epoch)})));
                    }
                }
                Err(_) => mon.violation("C14 certificate for an epoch without registered signers", &format!("epoch {epoch}"), replay(run, json!({"certificate_id": id}))),
            }
            // the key this certificate commits to for the NEXT epoch (signed in its protocol message)
            // must be the one derived from the logged registrations as well
            if let Some(next_avk) = row_json(row, "protocol_message").get("message_parts").and_then(|p| p.get("next_aggregate_verification_key")).and_then(|v| v.as_str()) {
                let next_signers = run.signers_at(epoch + 1);
                if !next_signers.is_empty() {
                    if let Ok(b) = SignerBuilder::new(&next_signers, &pp) {
                        let want = mithril_common::crypto_helper::ProtocolKey::new(b.compute_aggregate_verification_key().to_concatenation_aggregate_verification_key().to_owned()).to_json_hex().unwrap_or_default();
                        mon.count("M3:next_aggregate_key_commitments_checked");
                        if want != next_avk {
                            mon.violation("C14 certificate commits to a next aggregate key that is not the one derived from the registrations of the round",
                                &format!("epoch {epoch}: next_aggregate_verification_key differs from the key recomputed from the {} signers whose registration for the round was acknowledged", next_signers.len()),
                                replay(run, json!({"certificate_id": id, "model_set_next_epoch": run.model.signing_set.get(&(epoch + 1))})));
                        }
                    }
                }
            }
            if let Ok(p) = serde_json::from_str::<ProtocolParameters>(row_str(row, "protocol_parameters")) {
                if p != pp {
                    mon.violation("C14 certificate carries protocol parameters that are not the ones in force", &format!("{p:?} vs {pp:?}"), replay(run, json!({"certificate_id": id})));
                }
            }
        }
    }
    // signed entities: never two artifacts for one entity, always referencing a stored certificate of that entity
    for se in &snap.signed_entities {
        let cid = row_str(se, "certificate_id");
        match snap.certificates.iter().find(|c| row_str(c, "certificate_id") == cid) {
            None => mon.violation("C14 artifact references a certificate that is not stored", cid, replay(run, json!({"signed_entity": se.get("signed_entity_id")}))),
            Some(c) => {
                if c["signed_entity_type_id"] != se["signed_entity_type_id"] || row_json(c, "signed_entity_beacon") != row_json(se, "beacon") {
                    mon.violation("C14 artifact references a certificate of another signed entity", cid, replay(run, json!({"signed_entity": se.get("signed_entity_id")})));
                }
            }
        }
    }
    run.prev = snap;
    Ok(())
}

pub fn set_key(set: &SignedEntityType) -> (i64, Value) {
    let id = set.index() as i64;
    let beacon = set.get_json_beacon().ok().and_then(|s| serde_json::from_str::<Value>(&s).ok()).unwrap_or(Value::Null);
    (id, beacon)
}

/// M1: every stored certificate verifies with its chain under the public verifier, fed with the
/// certificate messages the aggregator itself serves.
pub async fn verify_all(run: &mut Run, mon: &mut Monitor, history_id: &str) -> StdResult<()> {
    let ids: Vec<String> = run.prev.certificates.iter().map(|r| row_str(r, "certificate_id").to_string()).collect();
    let mut served: BTreeMap<String, Certificate> = BTreeMap::new();
    for id in &ids {
        match run.sim.deps.message_service.get_certificate_message(id).await {
            Ok(Some(m)) => match Certificate::try_from(m) {
                Ok(c) => {
                    served.insert(id.clone(), c);
                }
                Err(e) => mon.violation("C14 served certificate message cannot be decoded", &format!("{id}: {e:#}"), json!({"history": history_id})),
            },
            _ => mon.violation("C14 stored certificate is not served by the message service", id, json!({"history": history_id})),
        }
    }
    let retriever = Arc::new(TableRetriever { certs: served.clone() });
    let verifier = MithrilCertificateVerifier::new(sim::discard_logger(), retriever, Arc::new(genesis_verifier()));
    for id in &ids {
        let Some(c) = served.get(id) else { continue };
        mon.eval();
        match verifier.verify_certificate(c).await {
            Ok(_) => mon.count("M1:certificates_verified_with_public_verifier"),
            Err(e) => mon.violation(
                "C14 stored certificate does not verify under the public verifier",
                &format!("certificate {id} (epoch {}): {e:#}", c.epoch).chars().take(400).collect::<String>(),
                json!({"history": history_id, "certificate_id": id, "log_tail": run.log.iter().rev().take(25).rev().collect::<Vec<_>>()}),
            ),
        }
    }
    Ok(())
}
