//! Library part of mon-agg: the real-aggregator simulation (sim) and the history driver / checkers
//! (hist), reused by mon-signer (C20).
pub mod hist;
pub mod sim;
