mod c15;
mod c16;
use mon_agg::{hist, sim};

use mithril_common::entities::SignedEntityTypeDiscriminants;
use serde_json::{json, Value};
use std::path::PathBuf;
use std::process::Command;
use vcore::{rnd, Monitor, Tier};

fn scratch_root() -> PathBuf {
    std::env::temp_dir().join(format!("verif-agg-{}", std::process::id()))
}

fn main() {
    let args = vcore::parse_args();
    vcore::install_panic_hook();
    match args.prop.as_str() {
        "C14" => c14_parent(&args),
        "C14-child" => {
            hist::install_panic_recorder();
            let rt = tokio::runtime::Builder::new_multi_thread().worker_threads(2).enable_all().build().unwrap();
            rt.block_on(c14_child(&args));
        }
        "C15" => c15_parent(&args),
        "C15-fresh" | "C15-resume" => {
            hist::install_panic_recorder();
            let rt = tokio::runtime::Builder::new_multi_thread().worker_threads(2).enable_all().build().unwrap();
            rt.block_on(c15_child(&args));
        }
        "C16" => c16_parent(&args),
        "C16-child" => {
            hist::install_panic_recorder();
            let rt = tokio::runtime::Builder::new_multi_thread().worker_threads(2).enable_all().build().unwrap();
            rt.block_on(c16_child(&args));
        }
        other => {
            eprintln!("mon-agg: unknown property {other}");
            std::process::exit(2);
        }
    }
}

/// run `n` child processes of this binary in parallel, each writing a Monitor dump
fn run_children(mon: &mut Monitor, child_prop: &str, shards: u64, parallel: usize, extra: &[String], timeout_s: u64) {
    let exe = std::env::current_exe().unwrap();
    let root = scratch_root();
    let _ = std::fs::create_dir_all(&root);
    let mut pending: Vec<u64> = (0..shards).rev().collect();
    let mut running: Vec<(u64, std::process::Child, std::time::Instant, PathBuf)> = vec![];
    while !pending.is_empty() || !running.is_empty() {
        while running.len() < parallel && !pending.is_empty() {
            let shard = pending.pop().unwrap();
            let out = root.join(format!("shard-{shard}.json"));
            let child = Command::new(&exe)
                .arg(child_prop)
                .arg("--tier")
                .arg(mon.tier.as_str())
                .arg(format!("--shard={shard}"))
                .arg(format!("--out={}", out.display()))
                .arg(format!("--dir={}", root.join(format!("data-{shard}")).display()))
                .args(extra)
                .env("VERIF_SEED", mon.seed.to_string())
                .stdout(std::process::Stdio::null())
                .stderr(if std::env::var("VERIF_DEBUG").is_ok() { std::process::Stdio::inherit() } else { std::process::Stdio::null() })
                .spawn()
                .expect("spawn child");
            running.push((shard, child, std::time::Instant::now(), out));
        }
        let mut i = 0;
        while i < running.len() {
            let done = match running[i].1.try_wait() {
                Ok(Some(st)) => Some(Ok(st)),
                Ok(None) => {
                    if running[i].2.elapsed().as_secs() > timeout_s {
                        let _ = running[i].1.kill();
                        let _ = running[i].1.wait();
                        Some(Err("watchdog"))
                    } else {
                        None
                    }
                }
                Err(_) => Some(Err("wait failed")),
            };
            if let Some(res) = done {
                let (shard, _, _, out) = running.remove(i);
                match res {
                    Ok(st) => match std::fs::read_to_string(&out).ok().and_then(|t| serde_json::from_str::<Value>(&t).ok()) {
                        Some(d) => mon.absorb(&d),
                        None => mon.inconclusive(&format!("shard {shard}: child ended with {st} without a report")),
                    },
                    Err(why) => mon.inconclusive(&format!("shard {shard}: {why} after {timeout_s}s")),
                }
            } else {
                i += 1;
            }
        }
        std::thread::sleep(std::time::Duration::from_millis(50));
    }
    let _ = std::fs::remove_dir_all(&root);
}

fn arg_value(args: &vcore::Args, key: &str) -> Option<String> {
    args.extra.iter().find_map(|a| a.strip_prefix(&format!("--{key}=")).map(|s| s.to_string()))
}

fn c14_parent(args: &vcore::Args) {
    let mut mon = Monitor::new(args);
    let (shards, timeout) = match args.tier {
        Tier::Quick => (16, 600),
        Tier::Thorough => (96, 3600),
    };
    run_children(&mut mon, "C14-child", shards, vcore::default_threads().min(16), &[], timeout);
    // coverage summary of the state machine
    let states: Vec<String> = mon.counters.keys().filter_map(|k| k.strip_prefix("state:").map(|s| s.to_string())).collect();
    let transitions: Vec<String> = mon.counters.keys().filter_map(|k| k.strip_prefix("transition:").map(|s| s.to_string())).collect();
    let pairs = mon.counters.keys().filter(|k| k.starts_with("pair:")).count();
    mon.extra.insert("state_labels_observed".into(), json!(states));
    mon.extra.insert("state_machine_transitions_observed".into(), json!(transitions));
    mon.extra.insert("distinct_state_event_pairs".into(), json!(pairs));
    let all_states = ["idle", "ready", "signing", "blocked-genesis-epoch", "blocked-epoch-gap"];
    let missing: Vec<&str> = all_states.iter().copied().filter(|s| !states.iter().any(|x| x == s)).collect();
    mon.extra.insert("state_labels_not_observed".into(), json!(missing));
    let min = match args.tier {
        Tier::Quick => 20,
        Tier::Thorough => 200,
    };
    mon.finish(
        "seeded random histories (40-160 events) over the real aggregator (DependenciesBuilder wiring of the repo's integration tests, file-backed sqlite): ticks, epoch +1 / +2..3, new immutable, +n blocks, registration of all / a subset of 3-6 KES-certified signers, single signatures (valid / repeated / for another message / by parties outside the epoch's signer set; authenticated => buffered when early), forced open-message expiry, clean restarts, genesis re-issue from a blocked state; after every event the certificate / open_message / single_signature / signed_entity tables are read through an independent read-only connection and every NEW certificate row is judged (M2 live open message + quorum of acknowledged valid deliveries, M3 key/parameters recomputed from logged registrations, M4 parent rule, M5 no double certification, M6 no gap); at restarts and at the end every stored certificate is verified with the public certificate verifier fed from the aggregator's own message service (M1). Non-trivial = a standard certificate row sealed during a history; distinct = (history, certificate id).",
        &["test doubles for the outside world only (chain observer, immutable observer, digester, block scanner, uploader, snapshotter)", "restarts are clean (between ticks); mid-operation stops are C15", "the genesis certificate is only re-issued from a blocked state", "sqlite durability"],
        min,
    );
}

async fn c14_child(args: &vcore::Args) {
    let shard: u64 = arg_value(args, "shard").and_then(|s| s.parse().ok()).unwrap_or(0);
    let out = PathBuf::from(arg_value(args, "out").unwrap_or_else(|| "/tmp/c14-child.json".into()));
    let dir = PathBuf::from(arg_value(args, "dir").unwrap_or_else(|| "/tmp/c14-child-data".into()));
    let mut mon = Monitor::with("C14", args.tier, args.seed);
    let histories = match args.tier {
        Tier::Quick => 4,
        Tier::Thorough => 16,
    };
    for h in 0..histories {
        let hid = format!("seed{}-shard{}-h{}", args.seed, shard, h);
        let hdir = dir.join(format!("h{h}"));
        let _ = std::fs::remove_dir_all(&hdir);
        let mut rng = mon.rng("c14", shard * 1000 + h);
        match one_history(&mut mon, &mut rng, hdir.clone(), &hid).await {
            Ok(()) => mon.count("histories_completed"),
            Err(e) => {
                // the harness itself could not deliver what it logged: discard as inconclusive
                mon.count("histories_discarded_harness_error");
                if std::env::var("VERIF_DEBUG").is_ok() {
                    eprintln!("history {hid} discarded: {e:#}");
                }
            }
        }
        let _ = std::fs::remove_dir_all(&hdir);
    }
    let _ = std::fs::write(&out, serde_json::to_string(&mon.dump()).unwrap());
}

async fn one_history(mon: &mut Monitor, rng: &mut rand_chacha::ChaCha20Rng, dir: PathBuf, hid: &str) -> anyhow::Result<()> {
    let mut run = hist::Run::start(dir, rng).await?;
    let len = 40 + rnd::usize_below(rng, 121);
    // bootstrap like an operator would: tick, register, next epoch
    let boot = vec![hist::Ev::Tick, hist::Ev::Register { who: (0..run.n_signers()).collect(), label_offset: 0 }, hist::Ev::EpochUp(1), hist::Ev::Tick, hist::Ev::Tick, hist::Ev::Register { who: (0..run.n_signers()).collect(), label_offset: 0 }];
    for ev in boot {
        run.apply(&ev, mon).await?;
        hist::check_step(&mut run, mon, hid).await?;
    }
    for _ in 0..len {
        let open = run.open_discriminants();
        let ev = run.choose(rng, &open);
        let follow_ups: Vec<hist::Ev> = match &ev {
            // after an epoch change an operator-less network still ticks and signers re-register
            hist::Ev::EpochUp(_) if rnd::chance(rng, 85, 100) => {
                let who: Vec<usize> = if rnd::chance(rng, 7, 10) { (0..run.n_signers()).collect() } else { (0..run.n_signers()).filter(|_| rnd::chance(rng, 2, 3)).collect() };
                vec![hist::Ev::Tick, hist::Ev::Tick, hist::Ev::Register { who, label_offset: 0 }]
            }
            hist::Ev::Sign { .. } if rnd::chance(rng, 7, 10) => vec![hist::Ev::Tick],
            hist::Ev::Restart => vec![],
            _ => vec![],
        };
        let is_restart = matches!(ev, hist::Ev::Restart);
        run.apply(&ev, mon).await?;
        hist::check_step(&mut run, mon, hid).await?;
        if is_restart {
            hist::verify_all(&mut run, mon, hid).await?;
        }
        for f in follow_ups {
            run.apply(&f, mon).await?;
            hist::check_step(&mut run, mon, hid).await?;
        }
    }
    // quiescence: let pending artifact tasks finish, then final checks
    tokio::time::sleep(std::time::Duration::from_millis(50)).await;
    hist::check_step(&mut run, mon, hid).await?;
    hist::verify_all(&mut run, mon, hid).await?;
    for s in &run.states_seen {
        mon.count(&format!("state:{s}"));
    }
    for t in &run.transitions_seen {
        mon.count(&format!("transition:{t}"));
    }
    for p in &run.state_event_pairs {
        mon.count(&format!("pair:{p}"));
    }
    mon.count_n("events", run.log.len() as u64);
    if mon.wants_sample() {
        mon.sample(json!({"history": hid, "events": run.log.len(), "certificates": run.prev.certificates.len(),
            "first_events": run.log.iter().take(12).map(|e| json!({"event": e["event"], "state_after": e["state_after"]})).collect::<Vec<_>>()}));
    }
    run.sim.builder.drop_sqlite_connections().await;
    Ok(())
}

fn c16_parent(args: &vcore::Args) {
    let mut mon = Monitor::new(args);
    let (shards, timeout) = match args.tier {
        Tier::Quick => (16, 600),
        Tier::Thorough => (96, 3600),
    };
    run_children(&mut mon, "C16-child", shards, vcore::default_threads().min(16), &[], timeout);
    let min = match args.tier {
        Tier::Quick => 40,
        Tier::Thorough => 400,
    };
    mon.finish(
        "rounds over the real aggregator (same wiring as C14): for an open message (all five signed entity types; before it exists => buffered path) the honest signatures of the epoch's signer set are computed, then a shuffled sequence of honest submissions and adversarial ones (own sigma under another registered name, copy of another party's sigma under own name with matching / truncated index list, the same under an unregistered name, replay, honest with restricted index list) is delivered through the certifier API (unauthenticated / authenticated), the real HTTP route (warp router built by DependenciesBuilder::create_http_routes), and the message-queue SequentialSignatureProcessor with a scripted consumer; after EVERY submission the single_signature / buffered_single_signature tables are read through an independent connection and judged; then the round is sealed and metadata.signers judged. Non-trivial = an adversarial submission; distinct = (history, entity, variant, channel, position).",
        &["ground truth: the harness generated every sigma itself and knows its producer; cross-checked cryptographically with mithril-stm under the labelled party's registered key", "on the message queue the party id is derived from the sender's certificate, so 'own sigma under another name' is only sent through HTTP / API", "C14's checks run on the same histories as a by-product"],
        min,
    );
}

async fn c16_child(args: &vcore::Args) {
    let shard: u64 = arg_value(args, "shard").and_then(|s| s.parse().ok()).unwrap_or(0);
    let out = PathBuf::from(arg_value(args, "out").unwrap_or_else(|| "/tmp/c16-child.json".into()));
    let dir = PathBuf::from(arg_value(args, "dir").unwrap_or_else(|| "/tmp/c16-child-data".into()));
    let mut mon = Monitor::with("C16", args.tier, args.seed);
    let histories = match args.tier {
        Tier::Quick => 2,
        Tier::Thorough => 10,
    };
    for h in 0..histories {
        let hid = format!("seed{}-shard{}-h{}", args.seed, shard, h);
        let hdir = dir.join(format!("h{h}"));
        let _ = std::fs::remove_dir_all(&hdir);
        let mut rng = mon.rng("c16", shard * 1000 + h);
        match c16_history(&mut mon, &mut rng, hdir.clone(), &hid).await {
            Ok(()) => mon.count("histories_completed"),
            Err(e) => {
                mon.count("histories_discarded_harness_error");
                if std::env::var("VERIF_DEBUG").is_ok() {
                    eprintln!("history {hid} discarded: {e:#}");
                }
            }
        }
        let _ = std::fs::remove_dir_all(&hdir);
    }
    let _ = std::fs::write(&out, serde_json::to_string(&mon.dump()).unwrap());
}

async fn c16_history(mon: &mut Monitor, rng: &mut rand_chacha::ChaCha20Rng, dir: PathBuf, hid: &str) -> anyhow::Result<()> {
    let mut run = hist::Run::start(dir, rng).await?;
    let all: Vec<usize> = (0..run.n_signers()).collect();
    let boot = vec![hist::Ev::Tick, hist::Ev::Register { who: all.clone(), label_offset: 0 }, hist::Ev::EpochUp(1), hist::Ev::Tick, hist::Ev::Tick, hist::Ev::Register { who: all.clone(), label_offset: 0 }];
    for ev in boot {
        run.apply(&ev, mon).await?;
        hist::check_step(&mut run, mon, hid).await?;
    }
    let rounds = 10 + rnd::usize_below(rng, 8);
    for _ in 0..rounds {
        // create a fresh stimulus, optionally attack before the open message exists (buffered path)
        let stimulus = rnd::below(rng, 10);
        let early = rnd::chance(rng, 1, 3);
        let disc = match stimulus {
            0..=2 => {
                run.apply(&hist::Ev::NewImmutable, mon).await?;
                SignedEntityTypeDiscriminants::CardanoDatabase
            }
            3..=4 => {
                run.apply(&hist::Ev::Blocks(30 + rnd::below(rng, 30)), mon).await?;
                if rnd::chance(rng, 1, 2) { SignedEntityTypeDiscriminants::CardanoTransactions } else { SignedEntityTypeDiscriminants::CardanoBlocksTransactions }
            }
            5 => {
                run.apply(&hist::Ev::EpochUp(1), mon).await?;
                run.apply(&hist::Ev::Tick, mon).await?;
                run.apply(&hist::Ev::Tick, mon).await?;
                run.apply(&hist::Ev::Register { who: all.clone(), label_offset: 0 }, mon).await?;
                SignedEntityTypeDiscriminants::MithrilStakeDistribution
            }
            _ => {
                let open = run.open_discriminants();
                if open.is_empty() { SignedEntityTypeDiscriminants::MithrilStakeDistribution } else { *rnd::pick(rng, &open) }
            }
        };
        hist::check_step(&mut run, mon, hid).await?;
        if !early {
            // let the state machine open the message
            for _ in 0..3 {
                run.apply(&hist::Ev::Tick, mon).await?;
                hist::check_step(&mut run, mon, hid).await?;
            }
        }
        let ran = c16::round(&mut run, disc, early, rng, mon, hid).await?;
        if !ran {
            mon.count("rounds_skipped");
            // keep the aggregator moving: sign whatever is open
            let open = run.open_discriminants();
            if let Some(d) = open.first() {
                run.apply(&hist::Ev::Sign { disc: *d, who: all.clone(), mode: hist::SignMode::Valid, authenticated: true }, mon).await?;
            }
            run.apply(&hist::Ev::Tick, mon).await?;
            hist::check_step(&mut run, mon, hid).await?;
        }
    }
    hist::verify_all(&mut run, mon, hid).await?;
    run.sim.builder.drop_sqlite_connections().await;
    Ok(())
}

// ---------------------------------------------------------------------------------------------
// C15

async fn c15_child(args: &vcore::Args) {
    let out = PathBuf::from(arg_value(args, "out").unwrap_or_else(|| "/tmp/c15-child.json".into()));
    let dir = PathBuf::from(arg_value(args, "dir").unwrap_or_else(|| "/tmp/c15-child-data".into()));
    let script: u64 = arg_value(args, "script").and_then(|s| s.parse().ok()).unwrap_or(0);
    let steps: u64 = arg_value(args, "steps").and_then(|s| s.parse().ok()).unwrap_or(8);
    let label = arg_value(args, "label").unwrap_or_default();
    let mut mon = Monitor::with("C15", args.tier, args.seed);
    mon.level = "fault_enumeration".into();
    let res = if args.prop == "C15-fresh" {
        c15::run_fresh(dir, script, steps, &mut mon).await.map(|_| json!({"phase": "fresh", "completed": true}))
    } else {
        c15::run_resume(dir, &mut mon, &label, steps).await
    };
    let mut d = mon.dump();
    match res {
        Ok(v) => d["verdict"] = v,
        Err(e) => d["harness_error"] = json!(format!("{e:#}").chars().take(400).collect::<String>()),
    }
    let _ = std::fs::write(&out, serde_json::to_string(&d).unwrap());
}

struct ChildResult {
    status: Option<i32>,
    signal_abort: bool,
    timed_out: bool,
    report: Option<Value>,
}

fn run_one_child(prop: &str, tier: Tier, seed: u64, dir: &std::path::Path, out: &std::path::Path, extra: &[String], env: &[(&str, String)], timeout_s: u64) -> ChildResult {
    let _ = std::fs::remove_file(out);
    let exe = std::env::current_exe().unwrap();
    let mut cmd = Command::new(exe);
    cmd.arg(prop).arg("--tier").arg(tier.as_str()).arg(format!("--out={}", out.display())).arg(format!("--dir={}", dir.display())).args(extra).env("VERIF_SEED", seed.to_string()).stdout(std::process::Stdio::null()).stderr(if std::env::var("VERIF_DEBUG").is_ok() { std::process::Stdio::inherit() } else { std::process::Stdio::null() });
    cmd.env_remove("MITHRIL_VERIF_CRASH").env_remove("MITHRIL_VERIF_CRASH_LOG");
    for (k, v) in env {
        cmd.env(k, v);
    }
    let mut child = cmd.spawn().expect("spawn");
    let t0 = std::time::Instant::now();
    loop {
        match child.try_wait() {
            Ok(Some(st)) => {
                use std::os::unix::process::ExitStatusExt;
                let report = std::fs::read_to_string(out).ok().and_then(|t| serde_json::from_str::<Value>(&t).ok());
                return ChildResult { status: st.code(), signal_abort: st.signal() == Some(6), timed_out: false, report };
            }
            Ok(None) => {
                if t0.elapsed().as_secs() > timeout_s {
                    let _ = child.kill();
                    let _ = child.wait();
                    return ChildResult { status: None, signal_abort: false, timed_out: true, report: None };
                }
                std::thread::sleep(std::time::Duration::from_millis(20));
            }
            Err(_) => return ChildResult { status: None, signal_abort: false, timed_out: false, report: None },
        }
    }
}

fn c15_parent(args: &vcore::Args) {
    let mut mon = Monitor::new(args);
    mon.level = "fault_enumeration".into();
    let root = scratch_root();
    let _ = std::fs::create_dir_all(&root);
    let (scripts, steps, pairs): (u64, u64, usize) = match args.tier {
        Tier::Quick => (3, 7, 6),
        Tier::Thorough => (24, 10, 40),
    };
    let progress_steps = 8u64;
    let seed = args.seed;
    let tier = args.tier;
    // ---- phase A: unarmed base runs record which (point, occurrence) pairs are reachable
    let mut jobs: Vec<(u64, Vec<(String, u64)>)> = vec![]; // (script, crash sequence)
    let mut base_hits_all: std::collections::BTreeMap<String, u64> = Default::default();
    for sc in 0..scripts {
        let script = seed.wrapping_mul(1000) + sc;
        let dir = root.join(format!("base-{sc}"));
        let log = root.join(format!("base-{sc}.hits"));
        let r = run_one_child("C15-fresh", tier, seed, &dir, &root.join(format!("base-{sc}.json")), &[format!("--script={script}"), format!("--steps={steps}")], &[("MITHRIL_VERIF_CRASH_LOG", log.display().to_string())], 600);
        match (&r.report, r.status) {
            (Some(rep), Some(0)) if rep.get("harness_error").is_none() => {
                mon.absorb(rep);
                mon.count("base_runs_completed");
            }
            _ => {
                mon.inconclusive(&format!("base run of script {script} did not complete (status {:?}, timed out {}, error {:?})", r.status, r.timed_out, r.report.as_ref().and_then(|x| x.get("harness_error").cloned())));
                continue;
            }
        }
        let mut hits: std::collections::BTreeMap<String, u64> = Default::default();
        for l in std::fs::read_to_string(&log).unwrap_or_default().lines() {
            *hits.entry(l.trim().to_string()).or_insert(0) += 1;
        }
        for (p, n) in &hits {
            *base_hits_all.entry(p.clone()).or_insert(0) += n;
            for occ in 1..=*n {
                jobs.push((script, vec![(p.clone(), occ)]));
            }
        }
        // double crashes: a second crash during the resumed run (seeded choice)
        let mut rng = mon.rng("c15-pairs", sc);
        let points: Vec<(String, u64)> = hits.iter().map(|(p, n)| (p.clone(), *n)).collect();
        if !points.is_empty() {
            for _ in 0..pairs {
                let (p1, n1) = rnd::pick(&mut rng, &points).clone();
                let (p2, _) = rnd::pick(&mut rng, &points).clone();
                jobs.push((script, vec![(p1, 1 + rnd::below(&mut rng, n1)), (p2, 1 + rnd::below(&mut rng, 2))]));
            }
        }
        let _ = std::fs::remove_dir_all(&dir);
    }
    for (p, n) in &base_hits_all {
        mon.count_n(&format!("base_hits:{p}"), *n);
    }
    let not_reached: Vec<&str> = c15::POINTS.iter().copied().filter(|p| !base_hits_all.contains_key(*p)).collect();
    mon.extra.insert("crash_points_not_reached_by_the_base_runs".into(), json!(not_reached));
    mon.extra.insert("exhaustive".into(), json!(true));
    mon.extra.insert("exhaustive_scope".into(), json!("every (crash point, occurrence) pair reached by the base histories of this run is crashed once; double crashes are sampled"));
    // ---- phase B: armed runs, in parallel
    let results: std::sync::Mutex<Vec<(String, Value)>> = std::sync::Mutex::new(vec![]);
    let next = std::sync::atomic::AtomicUsize::new(0);
    let threads = vcore::default_threads().min(16);
    let mons: std::sync::Mutex<Vec<Monitor>> = std::sync::Mutex::new(vec![]);
    std::thread::scope(|s| {
        for _ in 0..threads {
            s.spawn(|| {
                let mut m = mon.fork();
                loop {
                    let j = next.fetch_add(1, std::sync::atomic::Ordering::SeqCst);
                    if j >= jobs.len() {
                        break;
                    }
                    let (script, crashes) = &jobs[j];
                    let label = crashes.iter().map(|(p, n)| format!("{p}@{n}")).collect::<Vec<_>>().join("+");
                    let dir = root.join(format!("job-{j}"));
                    let out = root.join(format!("job-{j}.json"));
                    m.eval();
                    m.count(if crashes.len() == 1 { "crash_runs:single" } else { "crash_runs:double" });
                    // first crash: fresh armed run
                    let (p1, n1) = &crashes[0];
                    let r = run_one_child("C15-fresh", tier, seed, &dir, &out, &[format!("--script={script}"), format!("--steps={steps}")], &[("MITHRIL_VERIF_CRASH", format!("{p1}@{n1}"))], 600);
                    if !r.signal_abort {
                        m.count("armed_run_did_not_abort");
                        m.inconclusive(&format!("script {script} {label}: the armed run did not abort (status {:?}, timed out {})", r.status, r.timed_out));
                        let _ = std::fs::remove_dir_all(&dir);
                        continue;
                    }
                    m.count(&format!("crashed_at:{p1}"));
                    let mut aborted_again = false;
                    if crashes.len() == 2 {
                        let (p2, n2) = &crashes[1];
                        let r2 = run_one_child("C15-resume", tier, seed, &dir, &out, &[format!("--label={label}"), format!("--steps={progress_steps}")], &[("MITHRIL_VERIF_CRASH", format!("{p2}@{n2}"))], 600);
                        aborted_again = r2.signal_abort;
                        if aborted_again {
                            m.count(&format!("crashed_again_at:{p2}"));
                        } else if let Some(rep) = &r2.report {
                            // the second point was not reached: this resumed run is already the final one
                            m.absorb(rep);
                            m.nontrivial_str(&format!("{script}|{label}"));
                            results.lock().unwrap().push((label.clone(), rep["verdict"].clone()));
                            let _ = std::fs::remove_dir_all(&dir);
                            continue;
                        }
                    }
                    let _ = aborted_again;
                    // final unarmed resume: invariants + bounded progress
                    let r3 = run_one_child("C15-resume", tier, seed, &dir, &out, &[format!("--label={label}"), format!("--steps={progress_steps}")], &[], 600);
                    match r3.report {
                        Some(rep) if rep.get("harness_error").is_none() => {
                            m.absorb(&rep);
                            m.nontrivial_str(&format!("{script}|{label}"));
                            results.lock().unwrap().push((label.clone(), rep["verdict"].clone()));
                        }
                        Some(rep) => m.inconclusive(&format!("script {script} {label}: resumed run failed in the harness: {}", rep["harness_error"])),
                        None => m.inconclusive(&format!("script {script} {label}: resumed run ended without a report (status {:?}, timed out {})", r3.status, r3.timed_out)),
                    }
                    let _ = std::fs::remove_dir_all(&dir);
                }
                mons.lock().unwrap().push(m);
            });
        }
    });
    for m in mons.into_inner().unwrap() {
        mon.merge(m);
    }
    let res = results.into_inner().unwrap();
    for (label, v) in res.iter().take(6) {
        mon.sample(json!({"crash": label, "verdict": v}));
    }
    let _ = std::fs::remove_dir_all(&root);
    let min = match args.tier {
        Tier::Quick => 30,
        Tier::Thorough => 300,
    };
    mon.finish(
        "base histories = scripted honest workload over the real aggregator (new immutables, blocks, epoch changes, every signer signs every open message, some signatures early => buffered) run once unarmed with the crash-point hit log on; then for EVERY (crash point, occurrence) reached a fresh child process runs the same script with MITHRIL_VERIF_CRASH=<point>@<n> and is killed by std::process::abort() inside the aggregator; a new process restarts on the same files and checks: every certificate verifies with its chain (public verifier), no signed entity has two artifacts, every artifact references a stored certificate of exactly that entity - right after the restart and after every further tick - and bounded progress: within 8 macro steps of the honest workload a certificate with artifact for a beacon that had none appears. Double crashes (second abort during the resumed run) are sampled. Non-trivial = one (script, crash sequence) that really aborted and was resumed; distinct by (script, crash sequence).",
        &["sqlite durability (journal/WAL recovery) is trusted", "doubles of the outside world are re-created at the persisted time point; blocks above the highest stored block are served again", "a second certificate for the entity whose open message was not yet marked certified is outside the statement's list: counted as diagnostic"],
        min,
    );
}
