//! The aggregator under test: the REAL aggregator built by its own `DependenciesBuilder` in the
//! test environment with FILE-BACKED sqlite, real state machine / runner / certifier (buffered
//! decorator included) / epoch service / signer registration / signed-entity service / HTTP
//! router; test doubles only for the outside world (fake chain observer, immutable observer, dumb
//! digester / block scanner / uploader / snapshotter) — the wiring of the repository's own
//! `tests/test_extensions/runtime_tester.rs`, re-created here.
use anyhow::{anyhow, Context};
use std::path::{Path, PathBuf};
use std::sync::Arc;

use mithril_aggregator::{
    dependency_injection::DependenciesBuilder, services::FakeSnapshotter, AggregatorRuntime, DumbUploader,
    ServeCommandConfiguration, ServeCommandDependenciesContainer,
};
use mithril_cardano_node_chain::{
    entities::ScannedBlock,
    test::double::{DumbBlockScanner, FakeChainObserver},
};
use mithril_cardano_node_internal_database::test::double::{DumbImmutableDigester, DumbImmutableFileObserver};
use mithril_common::{
    entities::{
        BlockNumber, BlockNumberOffset, CardanoBlocksTransactionsSigningConfig, CardanoTransactionsSigningConfig,
        ChainPoint, Epoch, ProtocolParameters, SignedEntityType, SignedEntityTypeDiscriminants, SlotNumber,
        SupportedEra, TimePoint,
    },
    test::{builder::MithrilFixture, double::Dummy},
    StdResult,
};
use mithril_era::{adapters::EraReaderDummyAdapter, EraMarker, EraReader};
use serde_json::{json, Map, Value};

pub fn discard_logger() -> slog::Logger {
    if std::env::var("VERIF_AGG_LOG").is_ok() {
        use slog::Drain;
        let decorator = slog_term::PlainDecorator::new(std::io::stderr());
        let drain = slog_term::CompactFormat::new(decorator).build().fuse();
        let drain = slog_async::Async::new(drain).build().fuse();
        slog::Logger::root(Arc::new(drain), slog::o!())
    } else {
        slog::Logger::root(slog::Discard, slog::o!())
    }
}

pub struct SimConfig {
    pub data_dir: PathBuf,
    pub protocol_parameters: ProtocolParameters,
    pub tx_step: u64,
    pub blocks_step: u64,
    /// signed entity types enabled on top of MithrilStakeDistribution (always on)
    pub types: Vec<SignedEntityTypeDiscriminants>,
}

/// every optional signed entity type
pub fn all_types() -> Vec<SignedEntityTypeDiscriminants> {
    vec![
        SignedEntityTypeDiscriminants::CardanoStakeDistribution,
        SignedEntityTypeDiscriminants::CardanoTransactions,
        SignedEntityTypeDiscriminants::CardanoBlocksTransactions,
        SignedEntityTypeDiscriminants::CardanoDatabase,
    ]
}

impl SimConfig {
    pub fn to_configuration(&self) -> ServeCommandConfiguration {
        let snapshot_dir = self.data_dir.join("snapshots");
        let _ = std::fs::create_dir_all(&snapshot_dir);
        ServeCommandConfiguration {
            protocol_parameters: Some(self.protocol_parameters.clone()),
            signed_entity_types: Some(self.types.iter().map(|d| d.to_string()).collect::<Vec<_>>().join(",")),
            data_stores_directory: self.data_dir.join("stores"),
            cardano_transactions_signing_config: Some(CardanoTransactionsSigningConfig {
                security_parameter: BlockNumberOffset(0),
                step: BlockNumber(self.tx_step),
            }),
            cardano_blocks_transactions_signing_config: Some(CardanoBlocksTransactionsSigningConfig {
                security_parameter: BlockNumberOffset(0),
                step: BlockNumber(self.blocks_step),
            }),
            ..ServeCommandConfiguration::new_sample(snapshot_dir)
        }
    }
}

/// The doubles of the outside world survive a restart of the aggregator (they ARE the world).
pub struct World {
    pub snapshot_uploader: Arc<DumbUploader>,
    pub chain_observer: Arc<FakeChainObserver>,
    pub immutable_file_observer: Arc<DumbImmutableFileObserver>,
    pub digester: Arc<DumbImmutableDigester>,
    pub era_reader_adapter: Arc<EraReaderDummyAdapter>,
    pub block_scanner: Arc<DumbBlockScanner>,
    pub network: String,
}

pub struct Sim {
    pub cfg: SimConfig,
    pub world: World,
    pub deps: ServeCommandDependenciesContainer,
    pub runtime: AggregatorRuntime,
    pub builder: DependenciesBuilder,
    pub restarts: u64,
}

impl Sim {
    pub async fn build(cfg: SimConfig, start: TimePoint) -> StdResult<Self> {
        let configuration = cfg.to_configuration();
        let _ = std::fs::create_dir_all(cfg.data_dir.join("stores"));
        let network = configuration.network.clone();
        let immutable_file_observer = Arc::new(DumbImmutableFileObserver::new());
        immutable_file_observer.shall_return(Some(start.immutable_file_number)).await;
        let world = World {
            snapshot_uploader: Arc::new(DumbUploader::default()),
            chain_observer: Arc::new(FakeChainObserver::new(Some(start))),
            immutable_file_observer,
            digester: Arc::new(DumbImmutableDigester::default()),
            era_reader_adapter: Arc::new(EraReaderDummyAdapter::from_markers(vec![EraMarker::new(
                &SupportedEra::dummy().to_string(),
                Some(Epoch(0)),
            )])),
            block_scanner: Arc::new(DumbBlockScanner::new()),
            network,
        };
        let (builder, deps, runtime) = Self::wire(&cfg, &world).await?;
        Ok(Sim { cfg, world, deps, runtime, builder, restarts: 0 })
    }

    async fn wire(cfg: &SimConfig, world: &World) -> StdResult<(DependenciesBuilder, ServeCommandDependenciesContainer, AggregatorRuntime)> {
        let configuration = cfg.to_configuration();
        let snapshotter = Arc::new(FakeSnapshotter::new(cfg.data_dir.join("snapshots").join("fake_snapshots")));
        // The aggregator's file archiver verifies an archive by unpacking it below
        // `std::env::temp_dir()/mithril_archiver_verify_archive/<archive file name>`, a path it reads
        // when its dependencies are built. Many aggregators of this harness run at the same time on
        // one machine and produce archives with the same names (same network / epoch / immutable):
        // sharing that directory makes artifact tasks fail at random (seen as a crash point that one
        // run reaches and its armed twin does not). Each simulated aggregator gets its own temp
        // directory while its dependencies are built; the variable is restored right after.
        let own_tmp = cfg.data_dir.join("tmp");
        let _ = std::fs::create_dir_all(&own_tmp);
        let prev_tmp = std::env::var_os("TMPDIR");
        std::env::set_var("TMPDIR", &own_tmp);
        let built = Self::wire_inner(configuration, snapshotter, world).await;
        match prev_tmp {
            Some(p) => std::env::set_var("TMPDIR", p),
            None => std::env::remove_var("TMPDIR"),
        }
        built
    }

    async fn wire_inner(
        configuration: ServeCommandConfiguration,
        snapshotter: Arc<FakeSnapshotter>,
        world: &World,
    ) -> StdResult<(DependenciesBuilder, ServeCommandDependenciesContainer, AggregatorRuntime)> {
        let mut b = DependenciesBuilder::new(discard_logger(), Arc::new(configuration));
        b.snapshot_uploader = Some(world.snapshot_uploader.clone());
        b.chain_observer = Some(world.chain_observer.clone());
        b.immutable_file_observer = Some(world.immutable_file_observer.clone());
        b.immutable_digester = Some(world.digester.clone());
        b.snapshotter = Some(snapshotter);
        b.era_reader = Some(Arc::new(EraReader::new(world.era_reader_adapter.clone())));
        b.block_scanner = Some(world.block_scanner.clone());
        let deps = b.build_serve_dependencies_container().await.map_err(|e| anyhow!("{e:?}"))?;
        let runtime = b.create_aggregator_runner().await.map_err(|e| anyhow!("{e:?}"))?;
        Ok((b, deps, runtime))
    }

    /// Clean restart between ticks: drop everything and rebuild on the same files.
    pub async fn restart(&mut self) -> StdResult<()> {
        self.builder.drop_sqlite_connections().await;
        let (builder, deps, runtime) = Self::wire(&self.cfg, &self.world).await?;
        self.builder = builder;
        self.deps = deps;
        self.runtime = runtime;
        self.restarts += 1;
        Ok(())
    }

    pub async fn cycle(&mut self) -> Result<(), String> {
        let r = self.runtime.cycle().await.map_err(|e| format!("{e:?}").chars().take(300).collect::<String>());
        tokio::task::yield_now().await;
        r
    }

    /// Wait until the aggregator's background artifact tasks are done (they hold the signed entity
    /// type lock while they run): decisions of the harness must not depend on how fast this
    /// machine archives files. Logical wait with a generous wall-clock cap; `false` = still busy.
    pub async fn wait_for_background_tasks(&mut self, cap: std::time::Duration) -> bool {
        let Ok(lock) = self.builder.get_signed_entity_type_lock().await else { return true };
        let t0 = std::time::Instant::now();
        loop {
            for _ in 0..20 {
                tokio::task::yield_now().await;
            }
            if !lock.has_locked_entities().await {
                return true;
            }
            if t0.elapsed() > cap {
                return false;
            }
            tokio::time::sleep(std::time::Duration::from_millis(5)).await;
        }
    }

    pub fn state(&self) -> &'static str {
        self.runtime.state_label()
    }

    pub async fn time_point(&self) -> TimePoint {
        self.world.chain_observer.current_time_point.read().await.clone().unwrap()
    }

    pub async fn observed_time_point(&mut self) -> StdResult<TimePoint> {
        let t = self.builder.get_ticker_service().await.map_err(|e| anyhow!("{e:?}"))?;
        t.get_current_time_point().await
    }

    pub async fn init_genesis(&mut self, fixture: &MithrilFixture) -> StdResult<()> {
        self.world.chain_observer.set_signers(fixture.signers_with_stake()).await;
        let tp = self.observed_time_point().await?;
        self.deps.init_state_from_fixture_for_genesis(fixture, tp.epoch).await;
        let genesis = fixture.create_genesis_certificate(&self.world.network, tp.epoch);
        self.deps.certificate_repository.create_certificate(genesis).await.with_context(|| "cannot store the genesis certificate")?;
        Ok(())
    }

    /// a new genesis certificate at the current epoch (manual re-bootstrap from a blocked state)
    pub async fn reissue_genesis(&mut self, fixture: &MithrilFixture) -> StdResult<()> {
        let tp = self.observed_time_point().await?;
        self.deps.init_state_from_fixture_for_genesis(fixture, tp.epoch).await;
        let genesis = fixture.create_genesis_certificate(&self.world.network, tp.epoch);
        self.deps.certificate_repository.create_certificate(genesis).await?;
        Ok(())
    }

    pub async fn update_digester(&mut self) -> StdResult<()> {
        let tp = self.observed_time_point().await?;
        self.world
            .digester
            .update_digest(format!("n{}-e{}-i{}", self.world.network, tp.epoch, tp.immutable_file_number))
            .await;
        self.world.digester.update_merkle_tree(vec![tp.immutable_file_number.to_string()]).await;
        Ok(())
    }

    pub async fn increase_epoch(&mut self) -> StdResult<Epoch> {
        let e = self.world.chain_observer.next_epoch().await.with_context(|| "no epoch")?;
        self.update_digester().await?;
        Ok(e)
    }

    pub async fn increase_immutable(&mut self) -> StdResult<u64> {
        let n = self.world.immutable_file_observer.increase().await.map_err(|e| anyhow!("{e:?}"))?;
        self.update_digester().await?;
        Ok(n)
    }

    pub async fn increase_blocks(&mut self, increment: u64) -> StdResult<(u64, u64)> {
        let slot = self.world.chain_observer.increase_slot_number(increment).await.with_context(|| "no slot")?;
        let block = self.world.chain_observer.increase_block_number(increment).await.with_context(|| "no block")?;
        let blocks: Vec<ScannedBlock> = (1..=increment)
            .map(|i| {
                let bn = *block - increment + i;
                let sn = *slot - increment + i;
                ScannedBlock::new(format!("block_hash-{bn}"), BlockNumber(bn), SlotNumber(sn), vec![format!("tx_hash-{bn}-1")])
            })
            .collect();
        self.world.block_scanner.add_forwards(vec![blocks]);
        Ok((*block, *slot))
    }

    /// make the block scanner serve blocks from..=to again (after a crash the node still has them)
    pub fn serve_blocks(&self, from: u64, to: u64, slot_of_to: u64) {
        if from > to {
            return;
        }
        let delta = to - slot_of_to;
        let blocks: Vec<ScannedBlock> = (from..=to)
            .map(|bn| ScannedBlock::new(format!("block_hash-{bn}"), BlockNumber(bn), SlotNumber(bn - delta), vec![format!("tx_hash-{bn}-1")]))
            .collect();
        self.world.block_scanner.add_forwards(vec![blocks]);
    }

    pub async fn current_signed_entity_type(&mut self, d: SignedEntityTypeDiscriminants) -> StdResult<SignedEntityType> {
        let tp = self.observed_time_point().await?;
        let es = self.builder.get_epoch_service().await.map_err(|e| anyhow!("{e:?}"))?;
        let es = es.read().await;
        es.signed_entity_config()?.time_point_to_signed_entity(d, &tp)
    }

    pub fn db_path(&self) -> PathBuf {
        self.cfg.data_dir.join("stores").join("aggregator.sqlite3")
    }
}

// ---------------------------------------------------------------------------------------------
// table snapshots through an independent read-only sqlite connection

pub fn read_table(db: &Path, sql: &str) -> StdResult<Vec<Map<String, Value>>> {
    let conn = sqlite::Connection::open_with_flags(db, sqlite::OpenFlags::new().with_read_only())?;
    let mut out = vec![];
    let mut st = conn.prepare(sql)?;
    let names: Vec<String> = st.column_names().to_vec();
    while let sqlite::State::Row = st.next()? {
        let mut m = Map::new();
        for (i, n) in names.iter().enumerate() {
            let v: sqlite::Value = st.read(i)?;
            let jv = match v {
                sqlite::Value::Null => Value::Null,
                sqlite::Value::Integer(x) => json!(x),
                sqlite::Value::Float(x) => json!(x),
                sqlite::Value::String(s) => json!(s),
                sqlite::Value::Binary(b) => json!(hex::encode(b)),
            };
            m.insert(n.clone(), jv);
        }
        out.push(m);
    }
    Ok(out)
}

#[derive(Clone, Debug, Default)]
pub struct Snapshot {
    pub certificates: Vec<Map<String, Value>>,
    pub open_messages: Vec<Map<String, Value>>,
    pub single_signatures: Vec<Map<String, Value>>,
    pub signed_entities: Vec<Map<String, Value>>,
    pub buffered: Vec<Map<String, Value>>,
}

pub fn snapshot(db: &Path) -> StdResult<Snapshot> {
    Ok(Snapshot {
        certificates: read_table(db, "select rowid as row_id, * from certificate order by rowid")?,
        open_messages: read_table(db, "select rowid as row_id, * from open_message order by rowid")?,
        single_signatures: read_table(db, "select rowid as row_id, * from single_signature order by rowid")?,
        signed_entities: read_table(db, "select rowid as row_id, * from signed_entity order by rowid")?,
        buffered: read_table(db, "select rowid as row_id, * from buffered_single_signature order by rowid")?,
    })
}
