//! mon-beacon — C17: beacons to sign respect the security margin, are monotone and agreed by all.
//!
//! Code under test (real, from /repo): `CardanoTransactionsSigningConfig::compute_block_number_to_be_signed`,
//! `CardanoBlocksTransactionsSigningConfig::compute_block_number_to_be_signed`,
//! `SignedEntityConfig::time_point_to_signed_entity`, `SignedEntityConfig::list_allowed_signed_entity_types`.
//! Oracle: oracle.rs (i128 relations taken from the statement) + purity / agreement comparisons.
mod oracle;

use mithril_common::entities::{
    BlockNumber, BlockNumberOffset, CardanoBlocksTransactionsSigningConfig, CardanoTransactionsSigningConfig,
    ChainPoint, SignedEntityConfig, SignedEntityType, SignedEntityTypeDiscriminants, SlotNumber, TimePoint,
};
use oracle::{Kind, Sweep};
use rand_chacha::ChaCha20Rng;
use rand_core::RngCore;
use serde_json::{json, Value};
use std::collections::BTreeSet;
use vcore::rnd;
use vcore::{catch, Monitor, Tier};

const GRID_TIP_MAX: u64 = 700;
const GRID_SEC: [u64; 14] = [0, 1, 2, 14, 15, 16, 29, 30, 31, 100, 699, 700, 701, 3000];
const GRID_STEP: [u64; 15] = [0, 1, 2, 7, 14, 15, 16, 24, 29, 30, 31, 44, 45, 100, 1000];

// ---------------------------------------------------------------------------------------------
// observation of the real code

fn direct(kind: Kind, tip: u64, sec: u64, step: u64) -> Result<u64, String> {
    catch(|| match kind {
        Kind::Tx => *CardanoTransactionsSigningConfig { security_parameter: BlockNumberOffset(sec), step: BlockNumber(step) }
            .compute_block_number_to_be_signed(BlockNumber(tip)),
        Kind::Blk => *CardanoBlocksTransactionsSigningConfig { security_parameter: BlockNumberOffset(sec), step: BlockNumber(step) }
            .compute_block_number_to_be_signed(BlockNumber(tip)),
    })
}

fn disc_of(kind: Kind) -> SignedEntityTypeDiscriminants {
    match kind {
        Kind::Tx => SignedEntityTypeDiscriminants::CardanoTransactions,
        Kind::Blk => SignedEntityTypeDiscriminants::CardanoBlocksTransactions,
    }
}

fn time_point(epoch: u64, ifn: u64, tip: u64, slot: u64, hash: &str) -> TimePoint {
    TimePoint::new(epoch, ifn, ChainPoint::new(SlotNumber(slot), BlockNumber(tip), hash.to_string()))
}

/// outcome of time_point_to_signed_entity: Ok(entity) | Err(message) | panic
#[derive(Debug, Clone, PartialEq)]
enum Tpse {
    Ok(SignedEntityType),
    Err(String),
    Panic(String),
}

fn tpse(cfg: &SignedEntityConfig, d: SignedEntityTypeDiscriminants, tp: &TimePoint) -> Tpse {
    match catch(|| cfg.time_point_to_signed_entity(d, tp)) {
        Ok(Ok(e)) => Tpse::Ok(e),
        Ok(Err(e)) => Tpse::Err(format!("{e:#}").chars().take(200).collect()),
        Err(p) => Tpse::Panic(p),
    }
}

fn block_number_of(e: &SignedEntityType) -> Option<u64> {
    match e {
        SignedEntityType::CardanoTransactions(_, b) => Some(**b),
        SignedEntityType::CardanoBlocksTransactions(_, b, _) => Some(**b),
        _ => None,
    }
}

fn report_panic(mon: &mut Monitor, kind: Kind, tip: u64, sec: u64, step: u64, p: &str, source: &str) {
    mon.violation(
        &format!("C17 compute_block_number_to_be_signed panics ({})", kind.name()),
        &format!("tip={tip} security_parameter={sec} step={step}: {p}"),
        json!({"kind": kind.short(), "tip": tip, "security_parameter": sec, "step": step, "source": source}),
    );
}

fn nontrivial_key(kind: Kind, tip: u64, sec: u64, step: u64) -> [u8; 25] {
    let mut k = [0u8; 25];
    k[0] = kind as u8;
    k[1..9].copy_from_slice(&tip.to_le_bytes());
    k[9..17].copy_from_slice(&sec.to_le_bytes());
    k[17..25].copy_from_slice(&step.to_le_bytes());
    k
}

// ---------------------------------------------------------------------------------------------
// 1. exhaustive grid

/// One (sec, step) configuration of the grid: every tip 0..=700 in order, both entity kinds, observed
/// both at compute_block_number_to_be_signed and through time_point_to_signed_entity.
fn grid_config(sec: u64, step: u64, mon: &mut Monitor) {
    let cfg = SignedEntityConfig {
        allowed_discriminants: SignedEntityTypeDiscriminants::all(),
        cardano_transactions_signing_config: Some(CardanoTransactionsSigningConfig {
            security_parameter: BlockNumberOffset(sec),
            step: BlockNumber(step),
        }),
        cardano_blocks_transactions_signing_config: Some(CardanoBlocksTransactionsSigningConfig {
            security_parameter: BlockNumberOffset(sec),
            step: BlockNumber(step),
        }),
    };
    for kind in [Kind::Tx, Kind::Blk] {
        let mut sweep = Sweep::new(kind, sec, step, "grid");
        for tip in 0..=GRID_TIP_MAX {
            mon.eval();
            let sel = match direct(kind, tip, sec, step) {
                Ok(s) => s,
                Err(p) => {
                    report_panic(mon, kind, tip, sec, step, &p, "grid");
                    continue;
                }
            };
            if sweep.observe(tip, sel, mon) {
                mon.nontrivial(&nontrivial_key(kind, tip, sec, step));
            }
            // the same selection seen through the time point conversion (epochs 0,1,2,... cycling)
            let tp = time_point(tip % 3, tip / 7, tip, tip * 20, "grid");
            match tpse(&cfg, disc_of(kind), &tp) {
                Tpse::Ok(e) => {
                    mon.count("grid:time_point_conversions");
                    if block_number_of(&e) != Some(sel) {
                        mon.violation(
                            &format!("C17 time_point_to_signed_entity and compute_block_number_to_be_signed disagree ({})", kind.name()),
                            &format!("tip={tip} security_parameter={sec} step={step}: entity {e:?} vs direct {sel}"),
                            json!({"kind": kind.short(), "tip": tip, "security_parameter": sec, "step": step, "source": "grid"}),
                        );
                    }
                }
                Tpse::Err(e) => mon.violation(
                    &format!("C17 no beacon selected although the signing configuration is present ({})", kind.name()),
                    &format!("tip={tip} security_parameter={sec} step={step}: {e}"),
                    json!({"kind": kind.short(), "tip": tip, "security_parameter": sec, "step": step, "source": "grid"}),
                ),
                Tpse::Panic(p) => mon.violation(
                    "C17 time_point_to_signed_entity panics",
                    &format!("tip={tip} security_parameter={sec} step={step} kind={}: {p}", kind.short()),
                    json!({"kind": kind.short(), "tip": tip, "security_parameter": sec, "step": step, "source": "grid"}),
                ),
            }
            if mon.wants_sample() && sec == 15 && step == 24 && kind == Kind::Tx && (tip == 29 || tip == 39 || tip == 700) {
                mon.sample(json!({"space": "grid", "kind": kind.short(), "tip": tip, "security_parameter": sec, "step": step, "selected": sel}));
            }
            if mon.wants_sample() && sec == 15 && step == 24 && kind == Kind::Blk && tip == 700 {
                mon.sample(json!({"space": "grid", "kind": kind.short(), "tip": tip, "security_parameter": sec, "step": step, "selected": sel}));
            }
        }
        sweep.close(mon);
        mon.count("grid:sweeps");
    }
}

// ---------------------------------------------------------------------------------------------
// 2. seeded random 64-bit samples

/// mixture of magnitudes: small, around multiples of 15, powers of two, uniform up to `cap`
fn mix(rng: &mut ChaCha20Rng, cap: u64) -> u64 {
    let v = match rnd::below(rng, 8) {
        0 => rnd::below(rng, 4),
        1 => rnd::below(rng, 64),
        2 => {
            let bits = rnd::below(rng, 36);
            let m = rnd::below(rng, 1 << bits) * 15;
            (m + rnd::below(rng, 3)).saturating_sub(1)
        }
        3 => {
            let p = 1u64 << rnd::below(rng, 63);
            (p + rnd::below(rng, 3)).saturating_sub(1)
        }
        4 => rnd::below(rng, 100_000),
        5 => rnd::below(rng, 1 << 32),
        _ => {
            let sh = rnd::below(rng, 64);
            rng.next_u64() >> sh
        }
    };
    v.min(cap)
}

const TIP_CAP: u64 = 1 << 62;
const PARAM_CAP: u64 = 1 << 40;

/// a run of non-decreasing tips built around interesting places of the configuration
fn tips_for(rng: &mut ChaCha20Rng, sec: u64, step: u64, n: usize) -> Vec<u64> {
    let base = match rnd::below(rng, 6) {
        0 => mix(rng, TIP_CAP),
        1 => sec.saturating_sub(rnd::below(rng, 3)),
        2 => sec.saturating_add(step.max(15)).saturating_sub(rnd::below(rng, 20)),
        3 => sec.saturating_add(step.max(1).saturating_mul(rnd::below(rng, 1 << 20)).min(TIP_CAP / 2)),
        4 => rnd::below(rng, 2000),
        _ => rnd::below(rng, TIP_CAP),
    }
    .min(TIP_CAP);
    let mut tips = vec![base];
    let mut t = base;
    for _ in 1..n {
        let inc = match rnd::below(rng, 6) {
            0 => 0,
            1 => 1,
            2 => rnd::below(rng, 16),
            3 => rnd::below(rng, step.max(1).saturating_mul(3).max(2)),
            4 => step,
            _ => {
                let bits = rnd::below(rng, 45);
                rnd::below(rng, 1 << bits)
            }
        };
        t = t.saturating_add(inc).min(TIP_CAP);
        tips.push(t);
    }
    tips
}

fn random_shard(shard: u64, mon: &mut Monitor, configs: u64, keep_distinct: u64) {
    let mut rng = mon.rng("random", shard);
    let mut kept = 0u64;
    for i in 0..configs {
        // one configuration in eight has a security parameter far above any tip (the statement's
        // "values larger than the tip"): around 2^63 (where a signed conversion would wrap), next to
        // u64::MAX (a "never certify" setting), or uniform above 2^40; the selection must then be 0
        let sec = if rnd::below(&mut rng, 8) == 0 {
            match rnd::below(&mut rng, 4) {
                0 => ((1u64 << 63) + rnd::below(&mut rng, 3)).saturating_sub(1),
                1 => u64::MAX - rnd::below(&mut rng, 17),
                2 => (1u64 << (41 + rnd::below(&mut rng, 23))) + rnd::below(&mut rng, 16),
                _ => rng.next_u64() | (1 << 40),
            }
        } else {
            mix(&mut rng, PARAM_CAP)
        };
        if sec > PARAM_CAP {
            mon.count("random:configurations_with_a_security_parameter_above_2^40");
        }
        let step = mix(&mut rng, PARAM_CAP);
        let tips = tips_for(&mut rng, sec, step, 8);
        for kind in [Kind::Tx, Kind::Blk] {
            let mut sweep = Sweep::new(kind, sec, step, "random");
            for &tip in &tips {
                mon.eval();
                match direct(kind, tip, sec, step) {
                    Ok(sel) => {
                        let nt = sweep.observe(tip, sel, mon);
                        if nt && kept < keep_distinct {
                            kept += 1;
                            mon.nontrivial(&nontrivial_key(kind, tip, sec, step));
                        } else if nt {
                            mon.count("random:nontrivial_not_deduplicated");
                        }
                        if step > tip {
                            mon.count("random:step_larger_than_tip");
                        }
                        if sec > tip {
                            mon.count("random:security_parameter_larger_than_tip");
                        }
                        if shard == 0 && i == 3 && kind == Kind::Tx && mon.wants_sample() && tip == tips[7] {
                            mon.sample(json!({"space": "random", "kind": kind.short(), "tips": tips, "security_parameter": sec, "step": step, "selected_at_last_tip": sel}));
                        }
                    }
                    Err(p) => report_panic(mon, kind, tip, sec, step, &p, "random"),
                }
            }
            sweep.close(mon);
        }
        mon.count("random:configurations");
    }
}

/// values next to u64::MAX: outside the sampled space of the rule (diagnostics only, never a verdict)
fn extremes(mon: &mut Monitor) {
    let xs = [u64::MAX, u64::MAX - 1, u64::MAX - 14, u64::MAX - 15, u64::MAX - 16, 1 << 63, (1 << 63) - 1];
    for kind in [Kind::Tx, Kind::Blk] {
        for &tip in &xs {
            for &sec in &[0u64, 1, u64::MAX] {
                for &step in &[0u64, 1, 15, 1 << 63, u64::MAX - 16, u64::MAX - 15, u64::MAX - 14, u64::MAX] {
                    match direct(kind, tip, sec, step) {
                        Ok(_) => mon.count("diag:extreme_values_ok"),
                        Err(_) => mon.count(&format!("diag:extreme_values_panic_{}", kind.short())),
                    }
                }
            }
        }
    }
}

// ---------------------------------------------------------------------------------------------
// 3. purity / agreement through time_point_to_signed_entity

fn opt_cfg(rng: &mut ChaCha20Rng) -> Option<(u64, u64)> {
    if rnd::chance(rng, 1, 7) {
        None
    } else {
        Some((mix(rng, PARAM_CAP), mix(rng, PARAM_CAP)))
    }
}

fn build_direct(allowed: &[SignedEntityTypeDiscriminants], tx: Option<(u64, u64)>, blk: Option<(u64, u64)>) -> SignedEntityConfig {
    SignedEntityConfig {
        allowed_discriminants: allowed.iter().copied().collect(),
        cardano_transactions_signing_config: tx
            .map(|(s, p)| CardanoTransactionsSigningConfig { security_parameter: BlockNumberOffset(s), step: BlockNumber(p) }),
        cardano_blocks_transactions_signing_config: blk
            .map(|(s, p)| CardanoBlocksTransactionsSigningConfig { security_parameter: BlockNumberOffset(s), step: BlockNumber(p) }),
    }
}

/// the same configuration built another way: what a signer gets from the aggregator (JSON wire form of
/// the signing configurations), discriminants inserted in reverse order and with duplicates
fn build_from_wire(allowed: &[SignedEntityTypeDiscriminants], tx: Option<(u64, u64)>, blk: Option<(u64, u64)>) -> Option<SignedEntityConfig> {
    let mut set = BTreeSet::new();
    for d in allowed.iter().rev().chain(allowed.iter()) {
        set.insert(*d);
    }
    let txc = match tx {
        None => None,
        Some((s, p)) => Some(serde_json::from_value::<CardanoTransactionsSigningConfig>(json!({"security_parameter": s, "step": p})).ok()?),
    };
    let blkc = match blk {
        None => None,
        Some((s, p)) => Some(serde_json::from_value::<CardanoBlocksTransactionsSigningConfig>(json!({"security_parameter": s, "step": p})).ok()?),
    };
    Some(SignedEntityConfig { allowed_discriminants: set, cardano_transactions_signing_config: txc, cardano_blocks_transactions_signing_config: blkc })
}

fn pick_epoch(rng: &mut ChaCha20Rng) -> u64 {
    match rnd::below(rng, 6) {
        0 => 0,
        1 => 1,
        2 => 2,
        3 => rnd::below(rng, 1000),
        _ => mix(rng, 1 << 40),
    }
}

fn tp_json(tp: &TimePoint) -> Value {
    json!({"epoch": *tp.epoch, "immutable_file_number": tp.immutable_file_number, "slot_number": *tp.chain_point.slot_number,
           "block_number": *tp.chain_point.block_number, "block_hash": tp.chain_point.block_hash})
}

fn agreement_shard(shard: u64, mon: &mut Monitor, cases: u64, keep_distinct: u64) {
    let mut rng = mon.rng("agreement", shard);
    let mut kept = 0u64;
    let all: Vec<SignedEntityTypeDiscriminants> = SignedEntityTypeDiscriminants::all().into_iter().collect();
    for case in 0..cases {
        let mut allowed: Vec<SignedEntityTypeDiscriminants> = all.iter().copied().filter(|_| rnd::chance(&mut rng, 1, 2)).collect();
        rnd::shuffle(&mut rng, &mut allowed);
        let tx = opt_cfg(&mut rng);
        let blk = opt_cfg(&mut rng);
        let a = build_direct(&allowed, tx, blk);
        let Some(b) = build_from_wire(&allowed, tx, blk) else {
            mon.inconclusive("cannot rebuild a signing configuration from its JSON wire form");
            continue;
        };
        let cfg_json = json!({"allowed": allowed.iter().map(|d| d.to_string()).collect::<Vec<_>>(), "transactions": tx, "blocks": blk});
        if a != b {
            mon.violation(
                "C17 two builds of the same signed entity configuration are not equal",
                "a configuration built directly and the same one rebuilt from its JSON wire form compare different",
                json!({"config": cfg_json}),
            );
        }
        // a run of successive time points
        let ref_cfg = tx.or(blk).unwrap_or((0, 15));
        let tips = tips_for(&mut rng, ref_cfg.0, ref_cfg.1, 4);
        let epoch0 = pick_epoch(&mut rng);
        let mut sweeps = [tx.map(|(s, p)| Sweep::new(Kind::Tx, s, p, "time_point")), blk.map(|(s, p)| Sweep::new(Kind::Blk, s, p, "time_point"))];
        let hash = vcore::hex(&rnd::bytes(&mut rng, 8));
        for (n, &tip) in tips.iter().enumerate() {
            let epoch = epoch0 + n as u64 / 2;
            let ifn = match rnd::below(&mut rng, 4) {
                0 => 0,
                1 => rnd::below(&mut rng, 10_000),
                2 => u64::MAX,
                _ => rng.next_u64(),
            };
            let slot = tip.saturating_mul(20).saturating_add(rnd::below(&mut rng, 20));
            let tp = time_point(epoch, ifn, tip, slot, &hash);
            let tp_twin = time_point(epoch, ifn, tip, slot, &hash.clone());
            let other = time_point(epoch + 1, ifn ^ 1, tip / 2 + 7, slot / 2, "other");
            for &d in &all {
                mon.eval();
                let ra = tpse(&a, d, &tp);
                // interleave unrelated conversions, then repeat: a pure function has no memory
                let _ = tpse(&a, d, &other);
                let _ = tpse(&b, d, &other);
                let rb = tpse(&b, d, &tp_twin);
                let ra2 = tpse(&a, d, &tp);
                let replay = || json!({"config": cfg_json, "time_point": tp_json(&tp), "discriminant": d.to_string(), "source": "agreement", "shard": shard, "case": case});
                if let Tpse::Panic(p) = &ra {
                    mon.violation("C17 time_point_to_signed_entity panics", &format!("{d} at {}: {p}", tp), replay());
                    continue;
                }
                if ra != rb {
                    mon.violation(
                        "C17 two equal configurations derive different signed entities from the same time point",
                        &format!("{d} at {}: {ra:?} vs {rb:?}", tp),
                        replay(),
                    );
                }
                if ra != ra2 {
                    mon.violation(
                        "C17 time_point_to_signed_entity is not repeatable on the same configuration",
                        &format!("{d} at {}: {ra:?} then {ra2:?}", tp),
                        replay(),
                    );
                }
                if kept < keep_distinct {
                    kept += 1;
                    mon.nontrivial_str(&format!("agree|{}|{}|{}", cfg_json, tp_json(&tp), d));
                } else {
                    mon.count("agreement:nontrivial_not_deduplicated");
                }
                let kind = match d {
                    SignedEntityTypeDiscriminants::CardanoTransactions => Some(0usize),
                    SignedEntityTypeDiscriminants::CardanoBlocksTransactions => Some(1usize),
                    _ => None,
                };
                match (&ra, kind) {
                    (Tpse::Ok(e), Some(k)) => {
                        mon.count(&format!("agreement:ok:{d}"));
                        let Some(sel) = block_number_of(e) else {
                            mon.violation(
                                "C17 time_point_to_signed_entity returns an entity of another type",
                                &format!("{d} at {}: {e:?}", tp),
                                replay(),
                            );
                            continue;
                        };
                        if let Some(sw) = sweeps[k].as_mut() {
                            match direct(sw.kind, tip, sw.sec, sw.step) {
                                Ok(ds) if ds != sel => mon.violation(
                                    &format!("C17 time_point_to_signed_entity and compute_block_number_to_be_signed disagree ({})", sw.kind.name()),
                                    &format!("{d} at {}: entity {e:?} vs direct {ds}", tp),
                                    replay(),
                                ),
                                _ => {}
                            }
                            sw.observe(tip, sel, mon);
                        } else {
                            mon.violation(
                                "C17 a beacon is selected without a signing configuration",
                                &format!("{d} at {}: {e:?} although the configuration has no signing parameters for it", tp),
                                replay(),
                            );
                        }
                        if e.get_epoch() != tp.epoch {
                            mon.count("diag:entity_epoch_differs_from_time_point_epoch");
                        }
                    }
                    (Tpse::Ok(e), None) => {
                        mon.count(&format!("agreement:ok:{d}"));
                        if SignedEntityTypeDiscriminants::from(e) != d {
                            mon.violation(
                                "C17 time_point_to_signed_entity returns an entity of another type",
                                &format!("{d} at {}: {e:?}", tp),
                                replay(),
                            );
                        }
                    }
                    (Tpse::Err(msg), Some(k)) => {
                        let has_cfg = if k == 0 { tx.is_some() } else { blk.is_some() };
                        if has_cfg {
                            mon.violation(
                                &format!("C17 no beacon selected although the signing configuration is present ({})", if k == 0 { Kind::Tx.name() } else { Kind::Blk.name() }),
                                &format!("{d} at {}: {msg}", tp),
                                replay(),
                            );
                        } else {
                            mon.count("agreement:expected_error:missing_signing_configuration");
                        }
                    }
                    (Tpse::Err(msg), None) => {
                        if d == SignedEntityTypeDiscriminants::CardanoStakeDistribution && epoch == 0 {
                            mon.count("agreement:expected_error:cardano_stake_distribution_at_epoch_0");
                        } else {
                            mon.violation(
                                "C17 no signed entity derived for an entity type that needs no signing configuration",
                                &format!("{d} at {}: {msg}", tp),
                                replay(),
                            );
                        }
                    }
                    (Tpse::Panic(_), _) => unreachable!(),
                }
            }
            // the list is the per-discriminant conversion of (allowed + default), in discriminant order
            mon.eval();
            let list = catch(|| a.list_allowed_signed_entity_types(&tp));
            let mut expect: Vec<Tpse> = vec![];
            let mut set: BTreeSet<SignedEntityTypeDiscriminants> = allowed.iter().copied().collect();
            set.insert(SignedEntityTypeDiscriminants::MithrilStakeDistribution);
            for d in &set {
                expect.push(tpse(&a, *d, &tp));
            }
            let all_ok: Option<Vec<SignedEntityType>> = expect
                .iter()
                .map(|t| match t {
                    Tpse::Ok(e) => Some(e.clone()),
                    _ => None,
                })
                .collect();
            let replay = json!({"config": cfg_json, "time_point": tp_json(&tp), "source": "agreement-list", "shard": shard, "case": case});
            match (list, all_ok) {
                (Ok(Ok(l)), Some(e)) => {
                    mon.count("agreement:list_ok");
                    if l != e {
                        mon.violation(
                            "C17 list_allowed_signed_entity_types disagrees with time_point_to_signed_entity",
                            &format!("at {}: list {l:?} vs per-discriminant {e:?}", tp),
                            replay,
                        );
                    }
                }
                (Ok(Err(_)), None) => mon.count("agreement:list_error_as_per_discriminant"),
                (Ok(Ok(l)), None) => mon.violation(
                    "C17 list_allowed_signed_entity_types disagrees with time_point_to_signed_entity",
                    &format!("at {}: list {l:?} although a per-discriminant conversion fails", tp),
                    replay,
                ),
                (Ok(Err(e)), Some(_)) => mon.violation(
                    "C17 list_allowed_signed_entity_types disagrees with time_point_to_signed_entity",
                    &format!("at {}: list fails ({e:#}) although every per-discriminant conversion succeeds", tp),
                    replay,
                ),
                (Err(p), _) => mon.violation("C17 list_allowed_signed_entity_types panics", &format!("at {}: {p}", tp), replay),
            }
            if shard == 1 && case == 0 && n == 0 && mon.wants_sample() {
                mon.sample(json!({"space": "agreement", "config": cfg_json, "time_point": tp_json(&tp),
                    "entities": all.iter().map(|d| format!("{:?}", tpse(&a, *d, &tp))).collect::<Vec<_>>()}));
            }
        }
        for sw in sweeps.iter().flatten() {
            sw.close(mon);
        }
        mon.count("agreement:configurations");
    }
}

// ---------------------------------------------------------------------------------------------

fn replay_file(path: &std::path::Path, mon: &mut Monitor) {
    let Ok(txt) = std::fs::read_to_string(path) else {
        mon.inconclusive("cannot read replay file");
        return;
    };
    let Ok(doc) = serde_json::from_str::<Value>(&txt) else {
        mon.inconclusive("cannot parse replay file");
        return;
    };
    let r = &doc["replay"];
    let (Some(kind), Some(tip), Some(sec), Some(step)) =
        (r["kind"].as_str(), r["tip"].as_u64(), r["security_parameter"].as_u64(), r["step"].as_u64())
    else {
        mon.inconclusive("replay file does not describe a (kind, tip, security_parameter, step) selection case");
        return;
    };
    let kind = if kind == "tx" { Kind::Tx } else { Kind::Blk };
    let mut sweep = Sweep::new(kind, sec, step, "replay");
    let mut tips = vec![];
    if let Some(p) = r["previous_observation"]["tip"].as_u64() {
        tips.push(p);
    }
    tips.push(tip);
    for t in tips {
        mon.eval();
        match direct(kind, t, sec, step) {
            Ok(sel) => {
                println!("replay: kind={} tip={t} security_parameter={sec} step={step} -> selected {sel}", kind.short());
                if sweep.observe(t, sel, mon) {
                    mon.nontrivial(&nontrivial_key(kind, t, sec, step));
                }
            }
            Err(p) => report_panic(mon, kind, t, sec, step, &p, "replay"),
        }
    }
}

fn main() {
    let args = vcore::parse_args();
    vcore::install_panic_hook();
    let mut mon = Monitor::new(&args);
    if args.prop != "C17" {
        eprintln!("mon-beacon: unknown property {}", args.prop);
        std::process::exit(2);
    }
    if let Some(p) = &args.replay {
        replay_file(p, &mut mon);
        mon.finish("replay of one stored selection case", &[], 0);
    }
    let threads = vcore::default_threads();

    // 1. grid: one shard per (sec, step)
    let n_cfg = (GRID_SEC.len() * GRID_STEP.len()) as u64;
    vcore::run_shards(&mut mon, n_cfg, threads, |s, m| {
        let sec = GRID_SEC[(s as usize) / GRID_STEP.len()];
        let step = GRID_STEP[(s as usize) % GRID_STEP.len()];
        grid_config(sec, step, m);
    });
    let grid_evals = mon.evaluations;
    mon.extra.insert("exhaustive".into(), json!(true));
    mon.extra.insert(
        "exhaustive_scope".into(),
        json!(format!(
            "only the grid sub-space: every tip 0..={GRID_TIP_MAX} (hence every pair of successive tips) x security_parameter in {GRID_SEC:?} x step in {GRID_STEP:?} x {{transactions, blocks}} entity = {grid_evals} evaluations; the random and agreement sub-spaces are sampled"
        )),
    );

    // 2. random 64-bit samples
    let (shards, configs, keep) = match args.tier {
        Tier::Quick => (16u64, 30_000u64, 70_000u64),
        Tier::Thorough => (64, 20_000_000 / (64 * 16), 20_000),
    };
    vcore::run_shards(&mut mon, shards, threads, |s, m| random_shard(s, m, configs, keep));
    extremes(&mut mon);

    // 3. purity / agreement
    let (shards, cases, keep) = match args.tier {
        Tier::Quick => (16u64, 400u64, 1_000_000u64),
        Tier::Thorough => (64, 6_000, 20_000),
    };
    vcore::run_shards(&mut mon, shards, threads, |s, m| agreement_shard(s, m, cases, keep));

    mon.finish(
        "EXHAUSTIVE only on the grid sub-space (tip 0..=700 x 14 security parameters x 15 steps x both entity kinds, all successive-tip pairs, each point observed at compute_block_number_to_be_signed and through time_point_to_signed_entity); SAMPLED elsewhere: seeded random configurations (security parameter, step <= 2^40 - one configuration in eight with a security parameter above 2^40 up to u64::MAX - from a mixture of small values, neighbours of multiples of 15, neighbours of powers of two, uniform) each with a run of 8 non-decreasing tips <= 2^62 placed around sec, sec+step, multiples of the step or uniform; and seeded purity/agreement cases (random allowed-discriminant subsets, present/absent signing configurations, epochs incl. 0, runs of 4 successive time points, all 5 discriminants; configuration built directly vs rebuilt from its JSON wire form; repeated and interleaved calls; list_allowed_signed_entity_types vs per-discriminant conversion). Oracle in i128: sel <= max(tip-sec,0); sel non-decreasing in the tip; blocks entity sel = n*max(step,1); transactions entity (sel+1) multiple of 15 once the first step is behind the margin and all selections of a configuration explained by one range-aligned step (configured step rounded down or up to 15, at least 15). Non-trivial = tip beyond the security margin (selection not forced to 0), or an agreement comparison; distinct = distinct (kind, tip, sec, step) / (config, time point, discriminant); to bound memory, random and agreement non-trivial cases are entered into the distinct set only for the first 70k (quick) / 20k (thorough) per shard, the rest is counted in random:nontrivial_not_deduplicated / agreement:nontrivial_not_deduplicated.",
        &[
            "an error (not a panic) of the Cardano stake distribution conversion at epoch 0 and of the transactions/blocks conversions without signing configuration is legitimate",
            "the direction in which the configured step is rounded to the block-range length is not fixed by the statement: either rounding is accepted if it explains every selection of a configuration",
            "values within 16 of u64::MAX and epochs >= 2^40 are outside the sampled space (extreme values are only counted under diag:extreme_values_*)",
            "signer-side provider and aggregator epoch service are not linked: agreement is checked on SignedEntityConfig, which both call",
        ],
        args.tier.pick(100_000, 500_000),
    );
}
