//! C17 oracle, written from the property statement in i128 arithmetic (no u64 wrap / saturation can
//! hide anything).  It never recomputes "the" expected value with the formula of the code under
//! test; it checks the relations the statement promises:
//!
//!  (U) sel <= max(tip - sec, 0)
//!  (M) tip1 <= tip2  =>  sel1 <= sel2                       (same entity kind, same configuration)
//!  (W) whole steps:
//!        blocks entity:        sel = n * max(step, 1)
//!        transactions entity:  there is ONE range-aligned step c (a multiple of 15, at least 15,
//!                              obtained by rounding the configured step down or up to the range
//!                              length) such that every selection observed under the configuration
//!                              is either "nothing yet" (0, only while tip - sec < c ... or the
//!                              first complete step c - 1) or n * c - 1 with n >= 1
//!  (B) transactions entity, once the first step lies behind the margin (tip - sec >= c):
//!        (sel + 1) % 15 == 0   (ends exactly on a complete block range; implied by (W) because c is
//!        a multiple of 15, but reported under its own signature)
//!
//! The statement does not say in which direction the configured step is rounded to the range length,
//! so both roundings are admissible *as long as one of them explains every observation of a
//! configuration* (`Sweep::cands`).  When the configured step is already a multiple of 15, or is
//! below 15, both candidates coincide and the check is exact.
use serde_json::{json, Value};
use vcore::Monitor;

pub const RANGE: i128 = 15;

#[derive(Clone, Copy, PartialEq, Eq, Debug)]
pub enum Kind {
    /// CardanoTransactions (range-aligned step, final -1)
    Tx,
    /// CardanoBlocksTransactions (plain multiple of the step)
    Blk,
}

impl Kind {
    pub fn name(&self) -> &'static str {
        match self {
            Kind::Tx => "transactions entity",
            Kind::Blk => "blocks entity",
        }
    }
    pub fn short(&self) -> &'static str {
        match self {
            Kind::Tx => "tx",
            Kind::Blk => "blk",
        }
    }
}

/// the admissible range-aligned steps for a configured step (rounded down / rounded up, at least 15)
pub fn aligned_candidates(step: u64) -> Vec<i128> {
    let s = step as i128;
    let down = ((s / RANGE) * RANGE).max(RANGE);
    let up = (((s + RANGE - 1) / RANGE) * RANGE).max(RANGE);
    if down == up {
        vec![down]
    } else {
        vec![down, up]
    }
}

/// All observations of one (entity kind, security parameter, step) configuration, fed with
/// non-decreasing tips.
pub struct Sweep {
    pub kind: Kind,
    pub sec: u64,
    pub step: u64,
    cands: Vec<(i128, bool)>,
    whole_step_reported: bool,
    prev: Option<(u64, u64)>,
    /// where the observations come from (for the replay file)
    pub source: &'static str,
}

impl Sweep {
    pub fn new(kind: Kind, sec: u64, step: u64, source: &'static str) -> Self {
        let cands = match kind {
            Kind::Tx => aligned_candidates(step).into_iter().map(|c| (c, true)).collect(),
            Kind::Blk => vec![((step as i128).max(1), true)],
        };
        Sweep { kind, sec, step, cands, whole_step_reported: false, prev: None, source }
    }

    fn replay(&self, tip: u64, sel: u64) -> Value {
        json!({"kind": self.kind.short(), "tip": tip, "security_parameter": self.sec, "step": self.step,
               "selected": sel, "previous_observation": self.prev.map(|(t, s)| json!({"tip": t, "selected": s})),
               "source": self.source})
    }

    /// number of candidates still explaining every observation (transactions entity)
    pub fn alive(&self) -> usize {
        self.cands.iter().filter(|c| c.1).count()
    }

    /// Judge one observation.  Returns true when the case was non-trivial (tip beyond the margin).
    pub fn observe(&mut self, tip: u64, sel: u64, mon: &mut Monitor) -> bool {
        let k = self.kind;
        let bound = (tip as i128 - self.sec as i128).max(0);
        let s = sel as i128;
        // (U)
        if s > bound {
            mon.violation(
                &format!("C17 selected block number is above tip minus security parameter ({})", k.name()),
                &format!("tip={tip} security_parameter={} step={}: selected {sel} > max(tip-sec,0)={bound}", self.sec, self.step),
                self.replay(tip, sel),
            );
        }
        // (M)
        if let Some((ptip, psel)) = self.prev {
            debug_assert!(ptip <= tip);
            mon.count("pairs_of_successive_tips");
            if sel < psel {
                mon.violation(
                    &format!("C17 selected block number decreases as the tip advances ({})", k.name()),
                    &format!("security_parameter={} step={}: tip {ptip} -> {psel} but tip {tip} -> {sel}", self.sec, self.step),
                    self.replay(tip, sel),
                );
            } else if sel > psel {
                mon.count(&format!("{}:selection_advanced", k.short()));
            }
        }
        // (W), (B)
        match k {
            Kind::Blk => {
                let c = self.cands[0].0;
                if s % c != 0 {
                    mon.violation(
                        "C17 selection is not a whole number of signing steps (blocks entity)",
                        &format!("tip={tip} security_parameter={} step={}: selected {sel} is not a multiple of {c}", self.sec, self.step),
                        self.replay(tip, sel),
                    );
                }
                if s == 0 {
                    mon.count("blk:selected_zero");
                } else {
                    mon.count("blk:selected_positive_multiple");
                }
                if bound - s >= c {
                    mon.count("diag:blk_selection_lags_more_than_one_step");
                }
            }
            Kind::Tx => {
                let largest = self.cands.iter().map(|c| c.0).max().unwrap();
                if bound >= largest && (s + 1) % RANGE != 0 {
                    mon.violation(
                        "C17 selection does not end on a complete block-range boundary (transactions entity)",
                        &format!(
                            "tip={tip} security_parameter={} step={}: first step ({largest}) is behind the margin (tip-sec={bound}) but selected+1={} is not a multiple of 15",
                            self.sec, self.step, s + 1
                        ),
                        self.replay(tip, sel),
                    );
                }
                for cand in self.cands.iter_mut() {
                    let c = cand.0;
                    let ok = if bound >= c { (s + 1) % c == 0 } else { s == 0 || s == c - 1 };
                    if !ok {
                        cand.1 = false;
                    }
                }
                if self.alive() == 0 && !self.whole_step_reported {
                    self.whole_step_reported = true;
                    let cs: Vec<String> = self.cands.iter().map(|c| c.0.to_string()).collect();
                    mon.violation(
                        "C17 selections are not whole range-aligned signing steps (transactions entity)",
                        &format!(
                            "security_parameter={} step={}: no range-aligned step in {{{}}} explains the selections observed up to tip={tip} -> {sel} (tip-sec={bound})",
                            self.sec, self.step, cs.join(",")
                        ),
                        self.replay(tip, sel),
                    );
                }
                let c0 = self.cands[0].0;
                if bound < c0 {
                    mon.count("tx:before_first_step");
                } else {
                    mon.count("tx:first_step_behind_margin");
                    if bound - (s + 1) >= largest {
                        mon.count("diag:tx_selection_lags_more_than_one_step");
                    }
                }
            }
        }
        self.prev = Some((tip, sel));
        bound > 0
    }

    /// bookkeeping at the end of a sweep
    pub fn close(&self, mon: &mut Monitor) {
        if self.kind == Kind::Tx && self.cands.len() == 2 {
            let which = match (self.cands[0].1, self.cands[1].1) {
                (true, true) => "tx:sweeps_explained_by_both_roundings",
                (true, false) => "tx:sweeps_explained_only_by_step_rounded_down",
                (false, true) => "tx:sweeps_explained_only_by_step_rounded_up",
                (false, false) => "tx:sweeps_explained_by_no_rounding",
            };
            mon.count(which);
        }
    }
}
