//! C03 monitor: `accept => Reference accepts` for (i) the common chain verifier and (ii) the client's
//! verify_chain (cold / empty cache / cache warmed by an honest run / same provider twice / targeted
//! cache histories); completeness on untouched honest chains.
use crate::chain::{self, Family};
use crate::drive::{self, Outcome};
use crate::refval::{Reference, Reject, Verdict};
use crate::tamper::{self, Ctx, Desc, Scenario, Table};
use crate::world::Adversary;
use mithril_common::crypto_helper::GenesisEd25519VerificationKey;
use mithril_common::entities::Certificate;
use mithril_common::messages::CertificateMessage;
use rand_chacha::ChaCha20Rng;
use serde_json::{json, Value};
use sha2::{Digest, Sha256};
use std::collections::BTreeMap;
use std::sync::Arc;
use vcore::{rnd, Monitor};

pub const FOLLOWING_EPOCH_SIGNATURE: &str = "C03 link to a certificate of the following epoch accepted";

pub fn common_signature(class: &str) -> String {
    if class == "link-to-following-epoch" {
        FOLLOWING_EPOCH_SIGNATURE.to_string()
    } else {
        format!("C03 accepted-but-reference-rejects: {class}")
    }
}

pub struct Sizes {
    pub builder_families: usize,
    pub harness_families: usize,
    pub starts_per_family: usize,
    pub tamperings_per_start: usize,
}

#[derive(Clone, Copy, Debug, PartialEq)]
enum Mode {
    Cold,
    EmptyCache,
    WarmHonest,
    SameProviderTwice,
}
impl Mode {
    fn name(&self) -> &'static str {
        match self {
            Mode::Cold => "no_cache",
            Mode::EmptyCache => "empty_cache",
            Mode::WarmHonest => "cache_warmed_by_honest_run",
            Mode::SameProviderTwice => "same_provider_twice",
        }
    }
}

fn resolve_one(table: &Table) -> impl Fn(&str) -> Vec<Arc<Certificate>> + '_ {
    move |h: &str| table.get(h).cloned().into_iter().collect()
}

fn verdict_json(v: &Verdict) -> Value {
    match v {
        Ok(n) => json!({"accepts": true, "certificates_walked": n}),
        Err(Reject { class, step, why }) => json!({"accepts": false, "class": class, "step": step, "why": why}),
    }
}

fn cert_json(c: &Certificate) -> Value {
    match CertificateMessage::try_from(c.clone()) {
        Ok(m) => serde_json::to_value(&m).unwrap_or(Value::Null),
        Err(e) => json!({"unencodable": format!("{e:#}"), "hash": c.hash}),
    }
}

/// the answers a run actually used (+ the queried one): enough to replay it
fn answers_json(table: &Table, requested: &[String], query: &str) -> Value {
    let mut seen = std::collections::BTreeSet::new();
    let mut out = vec![];
    for h in std::iter::once(query.to_string()).chain(requested.iter().cloned()) {
        if seen.insert(h.clone()) {
            match table.get(&h) {
                Some(c) => out.push(json!({"request": h, "certificate": cert_json(c)})),
                None => out.push(json!({"request": h, "certificate": null})),
            }
        }
    }
    Value::Array(out)
}

fn short(h: &str) -> String {
    h.chars().take(10).collect()
}

/// fingerprint of a scenario = what differs from the honest table + query + configured key
fn fingerprint(s: &Scenario, base: &Table, fam_id: &str) -> Vec<u8> {
    let mut items: Vec<String> = vec![];
    for (k, v) in &s.table {
        let same = base.get(k).map(|b| Arc::ptr_eq(b, v)).unwrap_or(false);
        if !same {
            let ch = v.try_compute_hash().unwrap_or_else(|_| "ERR".into());
            items.push(format!("{k}>{}:{}:{}", v.hash, ch, v.metadata.protocol_parameters.phi_f.to_bits()));
        }
    }
    for k in base.keys() {
        if !s.table.contains_key(k) {
            items.push(format!("{k}>-"));
        }
    }
    items.sort();
    let mut h = Sha256::new();
    h.update(fam_id.as_bytes());
    h.update(s.query.as_bytes());
    h.update(s.genesis_vk.to_bytes());
    h.update(s.pre_runs.len().to_le_bytes());
    for i in items {
        h.update(i.as_bytes());
        h.update([0]);
    }
    h.finalize().to_vec()
}

struct Shard<'a> {
    mon: &'a mut Monitor,
    rt: tokio::runtime::Runtime,
    reference: Reference,
    counter: u64,
    shard: u64,
}

impl<'a> Shard<'a> {
    fn judge(&mut self, s: &Scenario, ctx: &Ctx, fam_id: &str) {
        self.counter += 1;
        let mon = &mut *self.mon;
        mon.eval();
        mon.count(&format!("class:{}", s.class));
        mon.count(&format!("serve:{}", s.serve));
        let table = Arc::new(s.table.clone());
        let bound = table.len() + 1;
        let start = table.get(&s.query).cloned();
        let fp = fingerprint(s, &ctx.base, fam_id);

        // ---------------- (i) common verifier
        let mut common_outcome: Option<Outcome> = None;
        let mut ref_i: Option<Verdict> = None;
        if let Some(start) = &start {
            let verdict = self.reference.walk(start, &resolve_one(&table), bound, &s.genesis_vk);
            let (o, requested) = drive::run_common(&self.rt, &table, start, &s.genesis_vk);
            mon.count(&format!(
                "outcome:{}:verifier_{}/reference_{}",
                s.class,
                o.short(),
                if verdict.is_ok() { "accept" } else { "reject" }
            ));
            match &o {
                Outcome::Reject(k) => mon.count(&format!("verifier_error:{k}")),
                Outcome::Panic(l) => mon.count(&format!("verifier_panic@{l}")),
                Outcome::Budget => mon.count("observation:verifier_did_not_terminate_within_request_budget(provider-driven loop)"),
                Outcome::Accept => {}
            }
            if let Err(r) = &verdict {
                mon.count(&format!("reference_reject:{}", r.class));
                let mut key = b"common|".to_vec();
                key.extend_from_slice(s.class.as_bytes());
                key.extend_from_slice(&fp);
                mon.nontrivial(&key);
            }
            let replay = |extra: Value| {
                json!({"entry": "mithril_common::MithrilCertificateVerifier::verify_certificate_chain",
                       "class": s.class, "hashes": s.serve, "detail": s.detail, "family": ctx.fam.desc,
                       "genesis_verification_key": String::try_from(s.genesis_vk).unwrap_or_default(),
                       "history": [{"query": s.query, "answers": answers_json(&table, &requested, &s.query)}],
                       "walk_requested": requested, "verifier": format!("{o:?}"), "reference": verdict_json(&verdict), "extra": extra})
            };
            if o == Outcome::Accept {
                if let Err(r) = &verdict {
                    mon.violation(
                        &common_signature(r.class),
                        &format!(
                            "verify_certificate_chain ACCEPTED start '{}' (tampering {} / {}), reference rejects at step {}: {}",
                            short(&start.hash),
                            s.class,
                            s.serve,
                            r.step,
                            r.why
                        ),
                        replay(json!({})),
                    );
                }
            }
            if s.honest {
                if o != Outcome::Accept {
                    mon.violation(
                        "C03 honest chain rejected",
                        &format!("verify_certificate_chain rejected an untouched honest chain ({}): {o:?}", s.class),
                        replay(json!({})),
                    );
                }
                if let Err(r) = &verdict {
                    mon.inconclusive(&format!("reference rejects an honest chain ({}; {}): {} (oracle or workload bug)", s.class, r.class, r.why));
                }
            }
            if matches!(o, Outcome::Accept) && verdict.is_ok() {
                // statement-conformant, but every standard certificate of the accepted chain is signed by the
                // adversary: possible because the genesis signature does not cover the genesis certificate's own
                // aggregate_verification_key / protocol_parameters fields, which same-epoch links trust
                let unsigned_genesis_avk = s.class == "adv_whole_chain:GenesisEpochUnsignedAvk"
                    || (s.class.starts_with("adv_suffix:") && s.class.ends_with("commitrehash:junction_genesis"));
                if unsigned_genesis_avk && s.genesis_vk.to_bytes() == ctx.fam.genesis_vk.to_bytes() {
                    mon.count("observation:adversarially_signed_chain_accepted_through_unsigned_avk_field_of_genuine_genesis(statement-conformant)");
                }
            }
            if mon.wants_sample() && self.shard == 0 && (self.counter % 7 == 3) {
                mon.sample(json!({"family": ctx.fam.desc, "start": short(&start.hash), "path_length": ctx.path.len(),
                                  "class": s.class, "hashes": s.serve, "detail": s.detail,
                                  "verifier": format!("{o:?}"), "certificates_requested": requested.len(),
                                  "reference": verdict_json(&verdict)}));
            }
            common_outcome = Some(o);
            ref_i = Some(verdict);
        } else {
            mon.count("query_unanswered");
        }

        // ---------------- (ii) client
        let explicit = !s.pre_runs.is_empty();
        let modes: Vec<Mode> = if explicit {
            vec![Mode::Cold, Mode::EmptyCache]
        } else {
            vec![[Mode::Cold, Mode::EmptyCache, Mode::WarmHonest, Mode::SameProviderTwice][(self.counter % 4) as usize]]
        };
        for mode in modes {
            let mut history: Vec<(Arc<Table>, String)> = s.pre_runs.iter().map(|(t, q)| (Arc::new(t.clone()), q.clone())).collect();
            match mode {
                Mode::WarmHonest => {
                    // configured key is the scenario's: warm with the honest chain only when it is the honest key
                    history.push((Arc::new(ctx.base.clone()), ctx.path[0].hash.clone()));
                }
                Mode::SameProviderTwice => history.push((table.clone(), s.query.clone())),
                _ => {}
            }
            history.push((table.clone(), s.query.clone()));
            let with_cache = mode != Mode::Cold;
            let mode_name = if explicit { format!("{}+{}", if with_cache { "cache" } else { "no_cache" }, "explicit_history") } else { mode.name().to_string() };
            let runs = match drive::run_client(&self.rt, &history, &s.genesis_vk, with_cache) {
                Ok(r) => r,
                Err(e) => {
                    mon.inconclusive(&format!("client harness error: {e}"));
                    return;
                }
            };
            mon.eval();
            mon.count(&format!("client_mode:{mode_name}"));
            let last = runs.len() - 1;
            let mut earlier_rejected = false;
            for (r, run) in runs.iter().enumerate() {
                mon.count_n("client:certificates_validated", run.validated);
                mon.count_n("client:certificates_skipped_by_cache", run.from_cache);
                let is_last = r == last;
                if is_last {
                    mon.count(&format!("client_outcome:{mode_name}:{}", run.outcome.short()));
                    if let Outcome::Panic(l) = &run.outcome {
                        mon.count(&format!("client_panic@{l}"));
                    }
                    if run.outcome == Outcome::Budget {
                        mon.count("observation:client_verify_chain_did_not_terminate_within_request_budget(provider-driven loop)");
                        if std::env::var("VERIF_DEBUG").is_ok() {
                            eprintln!("BUDGET mode={mode_name} class={} serve={} detail={} requested={:?} table={}", s.class, s.serve, s.detail, run.requested.iter().map(|h| short(h)).collect::<Vec<_>>(), table.len());
                        }
                    }
                }
                if run.outcome == Outcome::Accept {
                    let returned = run.returned.as_ref().unwrap();
                    if returned.hash != history[r].1 {
                        mon.count("observation:client_returned_certificate_whose_hash_differs_from_queried_hash");
                    }
                    // reference over everything the provider has answered so far, keyed by request
                    let tables: Vec<&Arc<Table>> = history[..=r].iter().map(|(t, _)| t).collect();
                    let resolve = |h: &str| -> Vec<Arc<Certificate>> {
                        let mut v: Vec<Arc<Certificate>> = vec![];
                        for t in tables.iter().rev() {
                            if let Some(c) = t.get(h) {
                                if !v.iter().any(|x| Arc::ptr_eq(x, c)) {
                                    v.push(c.clone());
                                }
                            }
                        }
                        v
                    };
                    let bound_h: usize = tables.iter().map(|t| t.len()).sum::<usize>() + 1;
                    let verdict = self.reference.walk(returned, &resolve, bound_h, &s.genesis_vk);
                    if let Err(rej) = &verdict {
                        // is it the common verifier's doing (same case accepted without any cache)?
                        let (t_r, q_r) = &history[r];
                        let common_accepts = if is_last && common_outcome.is_some() {
                            common_outcome == Some(Outcome::Accept)
                        } else {
                            t_r.get(q_r).map(|st| drive::run_common(&self.rt, t_r, st, &s.genesis_vk).0 == Outcome::Accept).unwrap_or(false)
                        };
                        let signature = if common_accepts {
                            common_signature(rej.class)
                        } else if with_cache {
                            let kind = if r == 0 {
                                "filled within the same run"
                            } else if earlier_rejected {
                                "holding links stored by an earlier REJECTED run"
                            } else {
                                "warmed by an earlier accepted run"
                            };
                            format!("C03 client verify_chain with verifier cache ({kind}) accepts a chain that is rejected without cache")
                        } else {
                            format!("C03 client verify_chain (no cache) accepted-but-reference-rejects: {}", rej.class)
                        };
                        let hist_json: Vec<Value> = history[..=r]
                            .iter()
                            .zip(runs.iter())
                            .map(|((t, q), rn)| json!({"query": q, "client_outcome": format!("{:?}", rn.outcome),
                                                       "certificates_validated": rn.validated, "skipped_by_cache": rn.from_cache,
                                                       "requested": rn.requested, "answers": answers_json(t, &rn.requested, q)}))
                            .collect();
                        mon.violation(
                            &signature,
                            &format!(
                                "client verify_chain ACCEPTED '{}' in run {} of {} (mode {mode_name}, tampering {} / {}); reference rejects at step {}: {}",
                                short(&returned.hash),
                                r + 1,
                                history.len(),
                                s.class,
                                s.serve,
                                rej.step,
                                rej.why
                            ),
                            json!({"entry": "mithril_client::certificate_client::CertificateClient::verify_chain",
                                   "cache": with_cache, "mode": mode_name, "class": s.class, "hashes": s.serve, "detail": s.detail,
                                   "family": ctx.fam.desc,
                                   "genesis_verification_key": String::try_from(s.genesis_vk).unwrap_or_default(),
                                   "history": hist_json, "reference": verdict_json(&verdict)}),
                        );
                    }
                    if is_last {
                        mon.count(&format!(
                            "client_outcome_vs_reference:{mode_name}:accept/reference_{}",
                            if verdict.is_ok() { "accept" } else { "reject" }
                        ));
                    }
                } else {
                    earlier_rejected = true;
                }
            }
            let lastrun = &runs[last];
            // non-trivial for the client: the single-run reference rejects the judged run
            if ref_i.as_ref().map(|v| v.is_err()).unwrap_or(false) {
                let mut key = format!("client|{mode_name}|{}", s.class).into_bytes();
                key.extend_from_slice(&fp);
                mon.nontrivial(&key);
            }
            if s.honest && lastrun.outcome != Outcome::Accept {
                mon.violation(
                    "C03 honest chain rejected by client verify_chain",
                    &format!("client verify_chain rejected an untouched honest chain (mode {mode_name}): {:?}", lastrun.outcome),
                    json!({"mode": mode_name, "class": s.class, "family": ctx.fam.desc, "query": s.query,
                           "genesis_verification_key": String::try_from(s.genesis_vk).unwrap_or_default(),
                           "history": [{"query": s.query, "answers": answers_json(&table, &lastrun.requested, &s.query)}]}),
                );
            }
            if mode == Mode::Cold && !explicit {
                if let Some(co) = &common_outcome {
                    if (co == &Outcome::Accept) != (lastrun.outcome == Outcome::Accept) {
                        mon.count("client_no_cache_disagrees_with_common_verifier");
                    }
                }
            }
        }
    }
}

pub fn run_shard(shard: u64, mon: &mut Monitor, sz: &Sizes) {
    let mut rng = mon.rng("c03", shard);
    let rt = tokio::runtime::Builder::new_current_thread().enable_time().build().expect("tokio runtime");
    let adv = Adversary::new(&mut rng);
    let mut sh = Shard { mon, rt, reference: Reference::default(), counter: 0, shard };
    let mut families: Vec<Family> = vec![];
    for _ in 0..sz.builder_families {
        let mut sub = {
            use rand_core::{RngCore, SeedableRng};
            let mut s = [0u8; 32];
            rng.fill_bytes(&mut s);
            ChaCha20Rng::from_seed(s)
        };
        match vcore::catch(|| chain::builder_family(&mut sub)) {
            Ok(f) => {
                sh.mon.count("families:CertificateChainBuilder");
                families.push(f)
            }
            Err(p) => sh.mon.inconclusive(&format!("CertificateChainBuilder panicked: {p}")),
        }
    }
    for _ in 0..sz.harness_families {
        match chain::harness_family(&mut rng) {
            Some(f) => {
                sh.mon.count("families:harness_builder");
                families.push(f)
            }
            None => sh.mon.count("harness_family_build_failed"),
        }
    }
    let builder_genesis: Vec<Arc<Certificate>> = families.iter().filter(|f| f.source == "builder").map(|f| f.certs[0].clone()).collect();
    for (fi, fam) in families.iter().enumerate() {
        sh.mon.count_n("honest_certificates", fam.certs.len() as u64);
        let epochs: std::collections::BTreeSet<u64> = fam.certs.iter().map(|c| c.epoch.0).collect();
        sh.mon.count(&format!("family_epochs:{}", epochs.len()));
        let fam_id = format!("{}|{}", fam.certs[0].hash, fam.certs.last().unwrap().hash);
        let other_genesis = if fam.source == "builder" {
            builder_genesis.iter().find(|g| g.hash != fam.certs[0].hash).cloned()
        } else {
            None
        };
        // starts: the latest certificate always, then random others
        let mut starts = vec![fam.certs.len() - 1];
        while starts.len() < sz.starts_per_family.min(fam.certs.len()) {
            let s = rnd::usize_below(&mut rng, fam.certs.len());
            if !starts.contains(&s) {
                starts.push(s);
            }
        }
        for (si, start) in starts.iter().enumerate() {
            let ctx = Ctx::new(fam, *start, &adv, other_genesis.clone());
            sh.mon.count(&format!("path_length:{:02}", ctx.path.len()));
            let descs = tamper::descriptors(&ctx);
            sh.mon.count_n("tampering_descriptors_available", descs.len() as u64);
            // stratified by class: round-robin over the classes, random member of each
            let mut groups: BTreeMap<String, Vec<Desc>> = BTreeMap::new();
            for d in descs {
                groups.entry(d.class(&ctx)).or_default().push(d);
            }
            let mut names: Vec<String> = groups.keys().cloned().collect();
            rnd::shuffle(&mut rng, &mut names);
            // controls and the rare whole-chain / history classes first
            names.sort_by_key(|n| {
                if n.starts_with("control:identity") {
                    0
                } else if n.starts_with("cache_history") || n.starts_with("adv_whole") || n.starts_with("relink:following") {
                    1
                } else {
                    2
                }
            });
            let budget = if si == 0 { sz.tamperings_per_start } else { sz.tamperings_per_start / 2 };
            let mut done = 0;
            let mut round = 0;
            'outer: while done < budget {
                let mut any = false;
                for name in &names {
                    let g = groups.get_mut(name).unwrap();
                    if g.is_empty() {
                        continue;
                    }
                    any = true;
                    let i = rnd::usize_below(&mut rng, g.len());
                    let d = g.swap_remove(i);
                    match tamper::materialize(&d, &ctx, &mut rng) {
                        Some(s) => {
                            sh.judge(&s, &ctx, &fam_id);
                            done += 1;
                        }
                        None => sh.mon.count("tampering_not_applicable"),
                    }
                    if done >= budget {
                        break 'outer;
                    }
                }
                round += 1;
                if !any || round > 10_000 {
                    break;
                }
            }
            let _ = fi;
        }
    }
    let n = *sh.reference.multisig_verifications.borrow();
    sh.mon.count_n("reference:multisig_verifications(memoised)", n);
    let n = *sh.reference.params_equal_only_as_committed.borrow();
    sh.mon.count_n("reference:parameters_equal_only_as_committed(fixed-point phi_f)", n);
}

// ------------------------------------------------------------------------------------- replay

pub fn replay(path: &std::path::Path) -> i32 {
    let Ok(txt) = std::fs::read_to_string(path) else {
        eprintln!("cannot read {}", path.display());
        return 2;
    };
    let Ok(doc) = serde_json::from_str::<Value>(&txt) else {
        eprintln!("cannot parse {}", path.display());
        return 2;
    };
    let r = if doc.get("replay").is_some() { &doc["replay"] } else { &doc };
    let Ok(vk) = GenesisEd25519VerificationKey::try_from(r["genesis_verification_key"].as_str().unwrap_or("")) else {
        eprintln!("replay file has no genesis_verification_key");
        return 2;
    };
    let mut history: Vec<(Arc<Table>, String)> = vec![];
    for run in r["history"].as_array().cloned().unwrap_or_default() {
        let mut t = Table::new();
        for a in run["answers"].as_array().cloned().unwrap_or_default() {
            if a["certificate"].is_null() {
                continue;
            }
            let m: CertificateMessage = match serde_json::from_value(a["certificate"].clone()) {
                Ok(m) => m,
                Err(e) => {
                    eprintln!("answer not decodable: {e}");
                    return 2;
                }
            };
            match Certificate::try_from(m) {
                Ok(c) => {
                    t.insert(a["request"].as_str().unwrap_or("").to_string(), Arc::new(c));
                }
                Err(e) => {
                    eprintln!("answer not convertible: {e:#}");
                    return 2;
                }
            }
        }
        history.push((Arc::new(t), run["query"].as_str().unwrap_or("").to_string()));
    }
    if history.is_empty() {
        eprintln!("replay file has no history");
        return 2;
    }
    let rt = tokio::runtime::Builder::new_current_thread().enable_time().build().expect("tokio runtime");
    let reference = Reference::default();
    let (table, query) = history.last().unwrap().clone();
    let mut violated = false;
    if let Some(start) = table.get(&query) {
        let verdict = reference.walk(start, &resolve_one(&table), table.len() + 1, &vk);
        let (o, req) = drive::run_common(&rt, &table, start, &vk);
        println!("common verify_certificate_chain: {o:?}; requested {} certificate(s)", req.len());
        println!("reference (last run only): {}", verdict_json(&verdict));
        if o == Outcome::Accept && verdict.is_err() {
            violated = true;
        }
    }
    let with_cache = r["cache"].as_bool().unwrap_or(false);
    if r["entry"].as_str().unwrap_or("").contains("mithril_client") {
        match drive::run_client(&rt, &history, &vk, with_cache) {
            Ok(runs) => {
                for (i, run) in runs.iter().enumerate() {
                    println!(
                        "client run {} (cache {}): {:?}; validated {}, skipped by cache {}",
                        i + 1,
                        with_cache,
                        run.outcome,
                        run.validated,
                        run.from_cache
                    );
                    if let (Outcome::Accept, Some(ret)) = (&run.outcome, &run.returned) {
                        let tables: Vec<&Arc<Table>> = history[..=i].iter().map(|(t, _)| t).collect();
                        let resolve = |h: &str| -> Vec<Arc<Certificate>> { tables.iter().rev().filter_map(|t| t.get(h).cloned()).collect() };
                        let v = reference.walk(ret, &resolve, tables.iter().map(|t| t.len()).sum::<usize>() + 1, &vk);
                        println!("  reference over the history so far: {}", verdict_json(&v));
                        if v.is_err() {
                            violated = true;
                        }
                    }
                }
            }
            Err(e) => {
                eprintln!("client harness error: {e}");
                return 2;
            }
        }
    }
    if violated {
        println!("REPLAY: witness reproduced (accepted although the reference rejects)");
        1
    } else {
        println!("REPLAY: witness NOT reproduced on this tree");
        0
    }
}
