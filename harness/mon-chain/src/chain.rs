//! Honest certificate chains ("families"): all certificates an honest aggregator would serve.
//!
//! Two sources:
//!  * `builder_family`: the project's own `CertificateChainBuilder` (fixture keys, one parameter set,
//!    signer count per epoch / chaining method / length varied through its `with_*` hooks, signed
//!    entity types varied through the standard-certificate processor);
//!  * `harness_family`: chains assembled here from raw STM key material with per-epoch signer sets
//!    AND per-epoch protocol parameters, a random genesis key, any start epoch, optional standard
//!    certificates inside the genesis epoch, and three linking disciplines (to the epoch's first
//!    certificate, sequential, random legal link).
use crate::world::{self, EpochWorld};
use chrono::{DateTime, TimeZone, Utc};
use mithril_common::certificate_chain::CertificateGenesisProducer;
use mithril_common::crypto_helper::{
    GenesisEd25519Signer, GenesisEd25519VerificationKey, GenesisSigner, ProtocolParameters as StmParams,
};
use mithril_common::entities::{
    BlockNumber, BlockNumberOffset, CardanoDbBeacon, Certificate, CertificateMetadata, CertificateSignature, Epoch,
    ProtocolMessage, ProtocolMessagePartKey, ProtocolParameters, SignedEntityType, SupportedEra,
};
use mithril_common::test::builder::{CertificateChainBuilder, CertificateChainingMethod};
use rand_chacha::ChaCha20Rng;
use rand_core::RngCore;
use serde_json::{json, Value};
use std::collections::BTreeMap;
use std::sync::Arc;
use vcore::rnd;

pub struct Family {
    pub source: &'static str,
    /// every certificate of the chain, creation order (index 0 = genesis)
    pub certs: Vec<Arc<Certificate>>,
    pub genesis_vk: GenesisEd25519VerificationKey,
    pub desc: Value,
}

pub fn fixed_time(n: u64) -> DateTime<Utc> {
    Utc.timestamp_opt(1_700_000_000 + (n % 100_000_000) as i64, 0).unwrap()
}

pub fn random_entity(epoch: Epoch, rng: &mut ChaCha20Rng) -> SignedEntityType {
    entity_from(epoch, rng.next_u64())
}

pub fn entity_from(epoch: Epoch, x: u64) -> SignedEntityType {
    let n = (x >> 8) % 100_000;
    match x % 5 {
        0 => SignedEntityType::MithrilStakeDistribution(epoch),
        1 => SignedEntityType::CardanoStakeDistribution(Epoch(epoch.0.saturating_sub(1))),
        2 => SignedEntityType::CardanoDatabase(CardanoDbBeacon::new(*epoch, n)),
        3 => SignedEntityType::CardanoTransactions(epoch, BlockNumber(n)),
        _ => SignedEntityType::CardanoBlocksTransactions(epoch, BlockNumber(n), BlockNumberOffset(15)),
    }
}

/// payload parts an aggregator would put in the message for that entity type (free-form values:
/// chain verification does not interpret them)
pub fn payload_parts(pm: &mut ProtocolMessage, entity: &SignedEntityType, nonce: u64) {
    use ProtocolMessagePartKey as K;
    let h = |s: &str| hex::encode(<sha2::Sha256 as sha2::Digest>::digest(format!("{s}-{nonce}").as_bytes()));
    match entity {
        SignedEntityType::MithrilStakeDistribution(_) => {}
        SignedEntityType::CardanoStakeDistribution(e) => {
            pm.set_message_part(K::CardanoStakeDistributionEpoch, e.to_string());
            pm.set_message_part(K::CardanoStakeDistributionMerkleRoot, h("csd"));
        }
        SignedEntityType::CardanoDatabase(_) => {
            pm.set_message_part(K::SnapshotDigest, h("digest"));
            pm.set_message_part(K::CardanoDatabaseMerkleRoot, h("cdb"));
        }
        SignedEntityType::CardanoTransactions(_, b) => {
            pm.set_message_part(K::CardanoTransactionsMerkleRoot, h("ctx"));
            pm.set_message_part(K::LatestBlockNumber, b.to_string());
        }
        SignedEntityType::CardanoBlocksTransactions(_, b, o) => {
            pm.set_message_part(K::CardanoBlocksTransactionsMerkleRoot, h("cbtx"));
            pm.set_message_part(K::LatestBlockNumber, b.to_string());
            pm.set_message_part(K::CardanoBlocksTransactionsBlockNumberOffset, o.to_string());
        }
    }
}

/// A standard certificate of `epoch`, signed by `w`, committing to `next` for the following epoch.
/// Retries with another payload nonce when the lottery does not give a quorum.
pub fn standard_certificate(
    epoch: Epoch,
    w: &EpochWorld,
    next_avk_encoded: &str,
    next_params: &ProtocolParameters,
    entity: SignedEntityType,
    previous_hash: &str,
    network: &str,
    nonce: u64,
) -> Option<Certificate> {
    for attempt in 0..40u64 {
        let mut pm = ProtocolMessage::new();
        pm.set_message_part(ProtocolMessagePartKey::NextAggregateVerificationKey, next_avk_encoded.to_string());
        pm.set_message_part(ProtocolMessagePartKey::NextProtocolParameters, next_params.compute_hash());
        pm.set_message_part(ProtocolMessagePartKey::CurrentEpoch, epoch.to_string());
        payload_parts(&mut pm, &entity, nonce.wrapping_mul(64).wrapping_add(attempt));
        if attempt > 0 && matches!(entity, SignedEntityType::MithrilStakeDistribution(_)) {
            // no payload part to vary for this type: not reachable through another nonce
            pm.set_message_part(ProtocolMessagePartKey::SnapshotDigest, format!("retry-{attempt}"));
        }
        let signed_message = pm.compute_hash();
        let Some(ms) = w.sign(signed_message.as_bytes()) else { continue };
        let metadata = CertificateMetadata::new(
            network,
            "0.1.0",
            w.params.clone(),
            fixed_time(nonce),
            fixed_time(nonce + 7),
            w.parties.clone(),
        );
        return Certificate::try_new(
            previous_hash,
            epoch,
            metadata,
            pm,
            w.avk.clone(),
            CertificateSignature::MultiSignature(entity, ms),
            None,
            None,
        )
        .ok();
    }
    None
}

/// Genesis certificate made by the project's producer, signed by `signer`; timestamps normalised
/// (the producer uses the wall clock; the hash is not covered by the Ed25519 signature).
pub fn genesis_certificate(
    epoch: Epoch,
    next: &EpochWorld,
    signer: &GenesisEd25519Signer,
    network: &str,
    nonce: u64,
) -> Option<Certificate> {
    let producer = CertificateGenesisProducer::new();
    let stm_params: StmParams = next.params.clone().into();
    let _ = stm_params;
    let pm = producer
        .create_genesis_protocol_message(&next.params, &next.avk, &epoch, SupportedEra::Pythagoras)
        .ok()?;
    let gs = GenesisSigner::from_ed25519(signer.clone());
    let sig = gs.sign(&pm, SupportedEra::Pythagoras, &mut rand_chacha::ChaCha20Rng::from_seed([0u8; 32])).ok()?;
    let CertificateSignature::GenesisSignature(sig) = sig else { return None };
    let mut c = producer
        .create_legacy_genesis_certificate(next.params.clone(), network, epoch, next.avk.clone(), sig, SupportedEra::Pythagoras)
        .ok()?;
    c.metadata.initiated_at = fixed_time(nonce);
    c.metadata.sealed_at = fixed_time(nonce);
    c.hash = c.try_compute_hash().ok()?;
    Some(c)
}
use rand_core::SeedableRng;

#[derive(Clone, Copy, Debug, PartialEq)]
pub enum Linking {
    ToMaster,
    Sequential,
    RandomLegal,
}

pub fn harness_family(rng: &mut ChaCha20Rng) -> Option<Family> {
    let n_epochs = 2 + rnd::usize_below(rng, 7); // 2..=8 epochs, the first one is the genesis epoch
    let g = match rnd::below(rng, 4) {
        0 => 1,
        1 => 1 + rnd::below(rng, 10),
        2 => 100 + rnd::below(rng, 900),
        _ => 1 + rnd::below(rng, 1 << 40),
    };
    let linking = *rnd::pick(rng, &[Linking::ToMaster, Linking::Sequential, Linking::RandomLegal]);
    let genesis_epoch_certs = if rnd::chance(rng, 1, 3) { 1 + rnd::usize_below(rng, 2) } else { 0 };
    // signer-set pattern over the epochs g .. g+n_epochs (one more for the last "next")
    let n_worlds = 1 + rnd::usize_below(rng, 3);
    let worlds: Vec<Arc<EpochWorld>> = (0..n_worlds).map(|i| Arc::new(world::random_world(&format!("hon{i}"), rng))).collect();
    let pattern = rnd::below(rng, 4);
    let mut assign: Vec<usize> = (0..=n_epochs + 1)
        .map(|i| match pattern {
            0 => 0,                               // constant signer set
            1 => i % n_worlds,                    // rotating (AVK(e) == AVK(e+n_worlds))
            2 => (i / 3) % n_worlds,              // stable for three epochs, then a change
            _ => rnd::usize_below(rng, n_worlds), // random
        })
        .collect();
    if genesis_epoch_certs > 0 {
        // the producer gives the genesis certificate the AVK / parameters of the NEXT epoch, so standard
        // certificates of the genesis epoch must be signed by that same set
        assign[0] = assign[1];
    }
    let network = "harness";
    let signer = GenesisEd25519Signer::create_test_signer(&mut *rng);
    let genesis_vk = signer.verification_key();
    let mut certs: Vec<Arc<Certificate>> = vec![];
    let genesis = genesis_certificate(Epoch(g), &worlds[assign[1]], &signer, network, rng.next_u64())?;
    certs.push(Arc::new(genesis));
    let mut layout = vec![];
    let mut per_epoch: BTreeMap<u64, Vec<usize>> = BTreeMap::new();
    per_epoch.entry(g).or_default().push(0);
    for i in 0..n_epochs {
        let epoch = g + i as u64;
        let count = if i == 0 { genesis_epoch_certs } else { 1 + rnd::usize_below(rng, 4) };
        let w = &worlds[assign[i]];
        let next = &worlds[assign[i + 1]];
        layout.push(json!({"epoch": epoch, "certificates": count + usize::from(i == 0), "signer_set": assign[i],
                           "k": w.params.k, "m": w.params.m, "phi_f": w.params.phi_f, "signers": w.signers.len()}));
        for _ in 0..count {
            let same: Vec<usize> = per_epoch.get(&epoch).cloned().unwrap_or_default();
            let prev: Vec<usize> = if epoch > g { per_epoch.get(&(epoch - 1)).cloned().unwrap_or_default() } else { vec![] };
            let target = if same.is_empty() {
                match linking {
                    Linking::ToMaster => prev[0],
                    Linking::Sequential => *prev.last().unwrap(),
                    Linking::RandomLegal => *rnd::pick(rng, &prev),
                }
            } else {
                match linking {
                    Linking::ToMaster => same[0],
                    Linking::Sequential => *same.last().unwrap(),
                    Linking::RandomLegal => {
                        if !prev.is_empty() && rnd::chance(rng, 1, 3) {
                            *rnd::pick(rng, &prev)
                        } else {
                            *rnd::pick(rng, &same)
                        }
                    }
                }
            };
            let entity = random_entity(Epoch(epoch), rng);
            let c = standard_certificate(
                Epoch(epoch),
                w,
                &next.avk_encoded(),
                &next.params,
                entity,
                &certs[target].hash,
                network,
                rng.next_u64() >> 8,
            )?;
            per_epoch.entry(epoch).or_default().push(certs.len());
            certs.push(Arc::new(c));
        }
    }
    let desc = json!({"source": "harness", "genesis_epoch": g, "linking": format!("{linking:?}"), "signer_sets": n_worlds,
                      "signer_set_pattern": (["constant", "rotating", "stable-3-epochs", "random"][pattern as usize]),
                      "epochs": layout, "certificates": certs.len()});
    Some(Family { source: "harness", certs, genesis_vk, desc })
}

/// Chain from the project's own builder. NB: the fixture builder writes KES material below the temp
/// directory on first use; `warm_up_fixtures` must have run (single-threaded) before.
pub fn builder_family(rng: &mut ChaCha20Rng) -> Family {
    let per_epoch = 1 + rnd::below(rng, 4);
    let epochs = 2 + rnd::below(rng, 7);
    let total = (1 + (epochs - 1) * per_epoch).max(per_epoch);
    let chaining = if rnd::chance(rng, 1, 2) { CertificateChainingMethod::ToMasterCertificate } else { CertificateChainingMethod::Sequential };
    let params = *rnd::pick(
        rng,
        &[
            StmParams { m: 100, k: 5, phi_f: 0.65 },
            StmParams { m: 60, k: 3, phi_f: 0.8 },
            StmParams { m: 150, k: 8, phi_f: 0.5 },
        ],
    );
    let pattern = rnd::below(rng, 4);
    let a = 1 + rnd::usize_below(rng, 6);
    let b = 1 + rnd::usize_below(rng, 6);
    let signers = move |e: Epoch| -> usize {
        match pattern {
            0 => std::cmp::min(2 + *e as usize, 5), // the builder's default
            1 => a,                                 // constant
            2 => if *e % 2 == 0 { a } else { b },   // alternating
            _ => std::cmp::min(1 + *e as usize, 10), // growing
        }
    };
    let seed = rng.next_u64();
    let standard = move |mut c: Certificate, ctx: &mithril_common::test::builder::CertificateChainBuilderContext| -> Certificate {
        // vary the signed entity type (covered by the certificate hash only, which is computed afterwards)
        if let CertificateSignature::MultiSignature(_, ms) = &c.signature {
            let x = seed.wrapping_add(ctx.index_certificate as u64).wrapping_mul(0x9E37_79B9_7F4A_7C15);
            c.signature = CertificateSignature::MultiSignature(entity_from(c.epoch, x >> 7), ms.clone());
        }
        c
    };
    let genesis = |mut c: Certificate, _: &mithril_common::test::builder::CertificateChainBuilderContext, _: &GenesisSigner| -> Certificate {
        c.metadata.initiated_at = fixed_time(1);
        c.metadata.sealed_at = fixed_time(1);
        c
    };
    let fx = CertificateChainBuilder::new()
        .with_total_certificates(total)
        .with_certificates_per_epoch(per_epoch)
        .with_protocol_parameters(params)
        .with_certificate_chaining_method(chaining)
        .with_total_signers_per_epoch_processor(&signers)
        .with_standard_certificate_processor(&standard)
        .with_genesis_certificate_processor(&genesis)
        .build();
    let genesis_vk = fx.genesis_verifier.to_ed25519_verification_key();
    let certs: Vec<Arc<Certificate>> = fx.certificates_chained.iter().rev().cloned().map(Arc::new).collect();
    let desc = json!({"source": "CertificateChainBuilder", "total_certificates": total, "certificates_per_epoch": per_epoch,
                      "chaining": format!("{chaining:?}"), "k": params.k, "m": params.m, "phi_f": params.phi_f,
                      "signers_per_epoch": (["min(2+e,5)", "constant", "alternating", "min(1+e,10)"][pattern as usize]),
                      "a": a, "b": b});
    Family { source: "builder", certs, genesis_vk, desc }
}

pub fn warm_up_fixtures() {
    use mithril_common::test::builder::MithrilFixtureBuilder;
    let _ = MithrilFixtureBuilder::default().with_signers(10).build();
}
