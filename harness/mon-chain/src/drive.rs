//! Drivers of the code under test:
//!  (i)  mithril-common `MithrilCertificateVerifier::verify_certificate_chain` over a harness
//!       `CertificateRetriever` backed by the answer table;
//!  (ii) mithril-client `CertificateClient::verify_chain` (its `MithrilCertificateVerifier`, feature
//!       `unstable` = verifier cache) over a harness `CertificateAggregatorRequest` double.
//! Both doubles log every request and stop answering after a budget (loop watchdog).
use crate::tamper::Table;
use async_trait::async_trait;
use mithril_client::certificate_client::{
    CertificateAggregatorRequest, CertificateClient, CertificateVerifierCache, MemoryCertificateVerifierCache,
    MithrilCertificateVerifier as ClientVerifier,
};
use mithril_client::feedback::{FeedbackReceiver, FeedbackSender, MithrilEvent};
use mithril_client::{MithrilCertificate, MithrilCertificateListItem, MithrilResult};
use mithril_common::certificate_chain::{
    CertificateRetriever, CertificateRetrieverError, CertificateVerifier, CertificateVerifierError, MithrilCertificateVerifier,
};
use mithril_common::crypto_helper::{GenesisEd25519VerificationKey, GenesisVerifier};
use mithril_common::entities::Certificate;
use std::sync::atomic::{AtomicU64, Ordering};
use std::sync::{Arc, Mutex};

#[derive(Clone, Debug, PartialEq)]
pub enum Outcome {
    Accept,
    Reject(String),
    Panic(String),
    /// the provider double stopped answering: the verifier asked for more certificates than any
    /// terminating walk over this table can need
    Budget,
}
impl Outcome {
    pub fn short(&self) -> &'static str {
        match self {
            Outcome::Accept => "accept",
            Outcome::Reject(_) => "reject",
            Outcome::Panic(_) => "panic",
            Outcome::Budget => "loop_budget",
        }
    }
}

pub fn logger() -> slog::Logger {
    slog::Logger::root(slog::Discard, slog::o!())
}

const BUDGET_MARK: &str = "VERIF-REQUEST-BUDGET-EXCEEDED";

fn error_kind(e: &anyhow::Error) -> Outcome {
    let full = format!("{e:#}");
    if full.contains(BUDGET_MARK) {
        return Outcome::Budget;
    }
    for cause in e.chain() {
        if let Some(v) = cause.downcast_ref::<CertificateVerifierError>() {
            use CertificateVerifierError as E;
            let k = match v {
                E::VerifyMultiSignature(_) => "VerifyMultiSignature",
                E::CertificateGenesis(_) => "CertificateGenesis",
                E::CertificateHashUnmatch => "CertificateHashUnmatch",
                E::CertificateChainPreviousHashUnmatch => "CertificateChainPreviousHashUnmatch",
                E::CertificateProtocolMessageUnmatch => "CertificateProtocolMessageUnmatch",
                E::CertificateChainAVKUnmatch => "CertificateChainAVKUnmatch",
                E::CertificateChainProtocolParametersUnmatch => "CertificateChainProtocolParametersUnmatch",
                E::CertificateEpochUnmatch => "CertificateEpochUnmatch",
                E::CertificateChainMissingEpoch => "CertificateChainMissingEpoch",
                E::CertificateChainInfiniteLoop => "CertificateChainInfiniteLoop",
                E::InvalidGenesisCertificateProvided => "InvalidGenesisCertificateProvided",
                E::InvalidStandardCertificateProvided => "InvalidStandardCertificateProvided",
            };
            return Outcome::Reject(k.to_string());
        }
    }
    if full.contains("verifying a genesis certificate") {
        return Outcome::Reject("GenesisSignatureInvalid".into());
    }
    if full.contains("Can not retrieve previous certificate") || full.contains("Certificate does not exist") {
        return Outcome::Reject("PreviousCertificateNotRetrieved".into());
    }
    if full.contains("No certificate exist for hash") {
        return Outcome::Reject("QueriedCertificateNotFound".into());
    }
    if full.contains("Can not convert message to certificate") {
        return Outcome::Reject("MessageConversion".into());
    }
    Outcome::Reject("other".into())
}

// ------------------------------------------------------------------------------------------ (i)

pub struct TableRetriever {
    table: Arc<Table>,
    pub log: Mutex<Vec<String>>,
    budget: usize,
}

#[async_trait]
impl CertificateRetriever for TableRetriever {
    async fn get_certificate_details(&self, certificate_hash: &str) -> Result<Certificate, CertificateRetrieverError> {
        let mut log = self.log.lock().unwrap();
        log.push(certificate_hash.to_string());
        if log.len() > self.budget {
            return Err(CertificateRetrieverError(anyhow::anyhow!(BUDGET_MARK)));
        }
        match self.table.get(certificate_hash) {
            Some(c) => Ok((**c).clone()),
            None => Err(CertificateRetrieverError(anyhow::anyhow!("Certificate does not exist: '{certificate_hash}'"))),
        }
    }
}

pub fn budget_for(table: &Table) -> usize {
    4 * table.len() + 16
}

/// `verify_certificate_chain(start)`; returns the outcome and the list of requested hashes
pub fn run_common(
    rt: &tokio::runtime::Runtime,
    table: &Arc<Table>,
    start: &Certificate,
    vk: &GenesisEd25519VerificationKey,
) -> (Outcome, Vec<String>) {
    let retriever = Arc::new(TableRetriever { table: table.clone(), log: Mutex::new(vec![]), budget: budget_for(table) });
    let verifier = MithrilCertificateVerifier::new(logger(), retriever.clone(), Arc::new(GenesisVerifier::from_ed25519(*vk)));
    let r = vcore::catch(|| rt.block_on(verifier.verify_certificate_chain(start.clone())));
    let o = match r {
        Ok(Ok(())) => Outcome::Accept,
        Ok(Err(e)) => error_kind(&e),
        Err(p) => Outcome::Panic(vcore::panic_location(&p)),
    };
    let log = retriever.log.lock().unwrap().clone();
    (o, log)
}

// ----------------------------------------------------------------------------------------- (ii)

pub struct Aggregator {
    table: Mutex<Arc<Table>>,
    pub log: Mutex<Vec<String>>,
    budget: Mutex<usize>,
}

impl Aggregator {
    fn set(&self, t: &Arc<Table>) {
        *self.table.lock().unwrap() = t.clone();
        *self.budget.lock().unwrap() = budget_for(t);
        self.log.lock().unwrap().clear();
    }
}

#[async_trait]
impl CertificateAggregatorRequest for Aggregator {
    async fn list_latest(&self) -> MithrilResult<Vec<MithrilCertificateListItem>> {
        Ok(vec![])
    }
    async fn get_by_hash(&self, hash: &str) -> MithrilResult<Option<MithrilCertificate>> {
        {
            let mut log = self.log.lock().unwrap();
            log.push(hash.to_string());
            if log.len() > *self.budget.lock().unwrap() {
                return Err(anyhow::anyhow!(BUDGET_MARK));
            }
        }
        let c = self.table.lock().unwrap().get(hash).cloned();
        match c {
            Some(c) => Ok(Some(MithrilCertificate::try_from((*c).clone())?)),
            None => Ok(None),
        }
    }
}

/// the crate's in-memory cache behind a lookup budget (a cyclic cache would otherwise spin forever
/// without ever touching the provider)
pub struct BudgetCache {
    inner: MemoryCertificateVerifierCache,
    gets: AtomicU64,
    budget: AtomicU64,
    pub stores: AtomicU64,
    pub hits: AtomicU64,
}

#[async_trait]
impl CertificateVerifierCache for BudgetCache {
    async fn store_validated_certificate(&self, certificate_hash: &str, previous_certificate_hash: &str) -> MithrilResult<()> {
        self.stores.fetch_add(1, Ordering::SeqCst);
        self.inner.store_validated_certificate(certificate_hash, previous_certificate_hash).await
    }
    async fn get_previous_hash(&self, certificate_hash: &str) -> MithrilResult<Option<String>> {
        if self.gets.fetch_add(1, Ordering::SeqCst) > self.budget.load(Ordering::SeqCst) {
            return Err(anyhow::anyhow!(BUDGET_MARK));
        }
        let r = self.inner.get_previous_hash(certificate_hash).await?;
        if r.is_some() {
            self.hits.fetch_add(1, Ordering::SeqCst);
        }
        Ok(r)
    }
    async fn reset(&self) -> MithrilResult<()> {
        self.inner.reset().await
    }
}

#[derive(Default)]
pub struct Events {
    pub validated: AtomicU64,
    pub from_cache: AtomicU64,
}

#[async_trait]
impl FeedbackReceiver for Events {
    async fn handle_event(&self, event: MithrilEvent) {
        match event {
            MithrilEvent::CertificateValidated { .. } => {
                self.validated.fetch_add(1, Ordering::SeqCst);
            }
            MithrilEvent::CertificateFetchedFromCache { .. } => {
                self.from_cache.fetch_add(1, Ordering::SeqCst);
            }
            _ => {}
        }
    }
}

pub struct ClientRun {
    pub outcome: Outcome,
    /// the certificate `verify_chain` returned (what the client accepted)
    pub returned: Option<Certificate>,
    pub requested: Vec<String>,
    pub validated: u64,
    pub from_cache: u64,
}

/// Run a history of `verify_chain(query)` calls against successive answer tables with ONE client
/// (one cache when `with_cache`).
pub fn run_client(
    rt: &tokio::runtime::Runtime,
    history: &[(Arc<Table>, String)],
    vk: &GenesisEd25519VerificationKey,
    with_cache: bool,
) -> Result<Vec<ClientRun>, String> {
    let agg = Arc::new(Aggregator { table: Mutex::new(Arc::new(Table::new())), log: Mutex::new(vec![]), budget: Mutex::new(0) });
    let events = Arc::new(Events::default());
    let cache = if with_cache {
        Some(Arc::new(BudgetCache {
            inner: MemoryCertificateVerifierCache::new(chrono::TimeDelta::hours(12)),
            gets: AtomicU64::new(0),
            budget: AtomicU64::new(0),
            stores: AtomicU64::new(0),
            hits: AtomicU64::new(0),
        }))
    } else {
        None
    };
    let vk_hex: String = (*vk).try_into().map_err(|e: anyhow::Error| format!("genesis key encoding: {e}"))?;
    let receivers: Vec<Arc<dyn FeedbackReceiver>> = vec![events.clone()];
    let verifier = ClientVerifier::new(
        agg.clone(),
        &vk_hex,
        FeedbackSender::new(&receivers),
        cache.clone().map(|c| c as Arc<dyn CertificateVerifierCache>),
        logger(),
    )
    .map_err(|e| format!("client verifier construction: {e:#}"))?;
    let client = CertificateClient::new(agg.clone(), Arc::new(verifier), logger());
    let mut runs = vec![];
    for (table, query) in history {
        agg.set(table);
        if let Some(c) = &cache {
            c.gets.store(0, Ordering::SeqCst);
            c.budget.store(budget_for(table) as u64, Ordering::SeqCst);
        }
        let (v0, c0) = (events.validated.load(Ordering::SeqCst), events.from_cache.load(Ordering::SeqCst));
        let r = vcore::catch(|| rt.block_on(client.verify_chain(query)));
        let (outcome, returned) = match r {
            Ok(Ok(m)) => match Certificate::try_from(m) {
                Ok(c) => (Outcome::Accept, Some(c)),
                Err(_) => (Outcome::Reject("ReturnedMessageConversion".into()), None),
            },
            Ok(Err(e)) => (error_kind(&e), None),
            Err(p) => (Outcome::Panic(vcore::panic_location(&p)), None),
        };
        runs.push(ClientRun {
            outcome,
            returned,
            requested: agg.log.lock().unwrap().clone(),
            validated: events.validated.load(Ordering::SeqCst) - v0,
            from_cache: events.from_cache.load(Ordering::SeqCst) - c0,
        });
    }
    Ok(runs)
}
