mod c03;
mod chain;
mod drive;
mod refval;
mod tamper;
mod world;

use vcore::{Monitor, Tier};

fn main() {
    let args = vcore::parse_args();
    vcore::install_panic_hook();
    if args.prop != "C03" {
        eprintln!("mon-chain: unknown property {}", args.prop);
        std::process::exit(2);
    }
    if let Some(f) = &args.replay {
        std::process::exit(c03::replay(f));
    }
    let mut mon = Monitor::new(&args);
    let threads = vcore::default_threads();
    // the project's fixture builder writes KES material below the temp directory on first use:
    // do that once, single-threaded, before the shards start building chains concurrently
    if let Err(p) = vcore::catch(chain::warm_up_fixtures) {
        mon.inconclusive(&format!("fixture warm-up panicked: {p}"));
    }
    {
        let mut rng = mon.rng("params-commitment-self-check", 0);
        if let Err(e) = refval::self_check_params_commitment(&mut rng) {
            mon.inconclusive(&e);
        }
    }
    let (shards, sizes) = match args.tier {
        Tier::Quick => (16, c03::Sizes { builder_families: 1, harness_families: 2, starts_per_family: 2, tamperings_per_start: 44 }),
        Tier::Thorough => (64, c03::Sizes { builder_families: 2, harness_families: 4, starts_per_family: 3, tamperings_per_start: 140 }),
    };
    vcore::run_shards(&mut mon, shards, threads, |s, m| c03::run_shard(s, m, &sizes));
    mon.finish(
        "honest chains = CertificateChainBuilder families (length, certificates/epoch, chaining method, signers/epoch, parameters, signed entity types varied) + harness-built families (2-8 epochs, 1-4 certificates/epoch, per-epoch signer sets AND parameters, genesis-epoch standard certificates, three linking disciplines, random genesis key); per family several start certificates; per start a class-stratified sample of: every single-field edit of every path certificate (hash untouched / recomputed / recomputed with everything pointing to it), adversary with its own signer sets and genesis key (one certificate re-signed, adversarial suffix with 4 junction patches, whole adversarial chains), previous_hash re-targeted to every other served certificate, drop / wrong answer / swap / self-loop / 2- and 3-cycles / truncation / genesis replacement, and two explicit client-cache histories. Every scenario goes through (i) mithril-common verify_certificate_chain and (ii) mithril-client verify_chain in one of 4 cache modes. A case is non-trivial when the independent reference validator rejects it (an acceptance would be a violation); distinct = (entry point/mode, class, difference to the honest answer table, query).",
        &[
            "certificate hash, protocol-message digest and key decoding of the working tree are used as DEFINITIONS by the reference (C04 judges the hash); the commitment to protocol parameters (k, m, phi_f at fixed-point precision) is computed by the reference itself and self-checked against the working tree's on honest parameters",
            "multi-signature validity = ProtocolMultiSignature::verify of the working tree (C01 judges it); genesis signature = ed25519_dalek permissive verification",
            "'identical parameters' on a same-epoch link = equal k, m and phi_f at the protocol's fixed-point precision (8 integer, 24 fractional bits); a phi_f outside that range equals nothing; the `fixed` crate is built without its debug assertions, as in production (an out-of-range conversion wraps instead of panicking)",
            "hash collisions, BLS / Ed25519 forgeries not attacked",
            "client histories: a link is resolved among the certificates the provider served for that hash in any run of the history",
        ],
        200,
    );
}
