fn main() {
    let _ = mithril_client::certificate_client::MemoryCertificateVerifierCache::new(chrono::TimeDelta::hours(1));
}
