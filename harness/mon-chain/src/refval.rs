//! C03 oracle: independent reference validator of a certificate chain over a provider answer table.
//!
//! `walk(start, resolve, genesis_vk)` follows `previous_hash` through the answers and requires, at
//! every step, exactly the conjuncts of the property statement. It shares no control flow with
//! `MithrilCertificateVerifier`; it calls the project's code only for the *definitions* the statement
//! refers to (certificate hash, protocol-message digest, parameters hash, key decoding) and for the
//! STM multi-signature verifier (judged by C01).
use ed25519_dalek::Verifier;
use mithril_common::crypto_helper::GenesisEd25519VerificationKey;
use mithril_common::entities::{Certificate, CertificateSignature, ProtocolMessagePartKey};
use mithril_stm::{AggregateVerificationKeyForConcatenation, MithrilMembershipDigest};
use sha2::{Digest, Sha256};
use std::cell::RefCell;
use std::collections::HashMap;
use std::sync::Arc;

pub type Avk = AggregateVerificationKeyForConcatenation<MithrilMembershipDigest>;

#[derive(Clone, Debug, PartialEq)]
pub struct Reject {
    /// stable class name (used in witness signatures)
    pub class: &'static str,
    /// step of the walk (0 = the certificate handed to the verifier)
    pub step: usize,
    pub why: String,
}

pub type Verdict = Result<usize, Reject>; // Ok(number of certificates walked)

/// Memo of multi-signature verifications (same certificate content is verified many times).
#[derive(Default)]
pub struct Reference {
    memo: RefCell<HashMap<[u8; 32], bool>>,
    pub multisig_verifications: RefCell<u64>,
    /// f64 phi_f differing while the committed (fixed-point) parameters are equal
    pub params_equal_only_as_committed: RefCell<u64>,
}

fn canonical_avk(k: &Avk) -> Option<String> {
    serde_json::to_string(k).ok()
}

/// "decodes to exactly this AVK": typed decoding of hex(JSON), compared on the canonical re-encoding
fn decode_avk(encoded: &str) -> Option<Avk> {
    let bytes = hex::decode(encoded.trim()).ok()?;
    serde_json::from_slice::<Avk>(&bytes).ok()
}

fn epoch_in_message(c: &Certificate) -> bool {
    match c.protocol_message.get_message_part(&ProtocolMessagePartKey::CurrentEpoch) {
        Some(v) => v.parse::<u64>().map(|e| e == c.epoch.0).unwrap_or(false),
        None => false,
    }
}

/// phi_f at the protocol's fixed-point precision (unsigned, 8 integer and 24 fractional bits,
/// nearest with ties to even) as an exact integer; None when it does not fit (negative, >= 256,
/// not finite). Written out here, independent of the `fixed` crate and of mithril-common.
pub fn phi_fixed_ref(phi: f64) -> Option<u32> {
    if !phi.is_finite() || phi < 0.0 {
        return None;
    }
    let r = (phi * 16_777_216.0).round_ties_even();
    if r >= 4_294_967_296.0 {
        return None;
    }
    Some(r as u32)
}

/// what a protocol message commits to for "next protocol parameters": sha256(k_be || m_be || phi_fixed_be)
pub fn params_commitment_ref(p: &mithril_common::entities::ProtocolParameters) -> Option<String> {
    let f = phi_fixed_ref(p.phi_f)?;
    let mut h = Sha256::new();
    h.update(p.k.to_be_bytes());
    h.update(p.m.to_be_bytes());
    h.update(f.to_be_bytes());
    Some(hex::encode(h.finalize()))
}

/// the independent commitment must agree with the repository's on honest parameters
pub fn self_check_params_commitment(rng: &mut rand_chacha::ChaCha20Rng) -> Result<(), String> {
    use rand_core::RngCore;
    for i in 0..4000u64 {
        let phi = match i % 4 {
            0 => (rng.next_u64() >> 11) as f64 / (1u64 << 53) as f64,
            1 => ((rng.next_u64() % 16_777_216) as f64 + 0.5) / 16_777_216.0,
            2 => (rng.next_u64() % 16_777_217) as f64 / 16_777_216.0,
            _ => *[0.05, 0.2, 0.5, 0.65, 0.8, 0.95, 1.0].get((rng.next_u64() % 7) as usize).unwrap(),
        };
        let p = mithril_common::entities::ProtocolParameters { k: rng.next_u64() % 1000, m: rng.next_u64() % 100_000, phi_f: phi };
        if params_commitment_ref(&p) != Some(p.compute_hash()) {
            return Err(format!("reference parameter commitment disagrees with the repository's for {p:?}"));
        }
    }
    Ok(())
}

impl Reference {
    fn multisig_valid(&self, c: &Certificate) -> bool {
        let CertificateSignature::MultiSignature(_, ms) = &c.signature else { return false };
        let Ok(avk_hex) = c.aggregate_verification_key.to_json_hex() else { return false };
        let Ok(ms_hex) = ms.to_json_hex() else { return false };
        let p = &c.metadata.protocol_parameters;
        let mut h = Sha256::new();
        h.update((c.signed_message.len() as u64).to_le_bytes());
        h.update(c.signed_message.as_bytes());
        h.update((avk_hex.len() as u64).to_le_bytes());
        h.update(avk_hex.as_bytes());
        h.update(p.k.to_le_bytes());
        h.update(p.m.to_le_bytes());
        h.update(p.phi_f.to_bits().to_le_bytes());
        h.update(ms_hex.as_bytes());
        let key: [u8; 32] = h.finalize().into();
        if let Some(v) = self.memo.borrow().get(&key) {
            return *v;
        }
        *self.multisig_verifications.borrow_mut() += 1;
        let avk = c.create_aggregate_verification_key();
        let ok = vcore::catch(|| ms.verify(c.signed_message.as_bytes(), &avk, &p.clone().into(), None, None))
            .map(|r| r.is_ok())
            .unwrap_or(false);
        self.memo.borrow_mut().insert(key, ok);
        ok
    }

    fn params_same(&self, a: &Certificate, b: &Certificate) -> bool {
        let (pa, pb) = (&a.metadata.protocol_parameters, &b.metadata.protocol_parameters);
        // identity of parameters = identity of what a chain commits to: k, m and phi_f at the
        // protocol's fixed-point precision, computed HERE (not with ProtocolParameters::compute_hash
        // / PartialEq, which are part of what is checked); a phi_f outside the fixed-point range is
        // the same as nothing
        let same = pa.k == pb.k && pa.m == pb.m && phi_fixed_ref(pa.phi_f).is_some() && phi_fixed_ref(pa.phi_f) == phi_fixed_ref(pb.phi_f);
        if same && pa.phi_f.to_bits() != pb.phi_f.to_bits() {
            *self.params_equal_only_as_committed.borrow_mut() += 1;
        }
        same
    }

    /// `resolve(h)` = every certificate the provider has served for the request `h` (one for a single
    /// run; several when a history of runs is judged). The chain is valid when SOME answer works.
    pub fn walk(
        &self,
        start: &Certificate,
        resolve: &dyn Fn(&str) -> Vec<Arc<Certificate>>,
        bound: usize,
        genesis_vk: &GenesisEd25519VerificationKey,
    ) -> Verdict {
        self.walk_from(Arc::new(start.clone()), 0, resolve, bound, genesis_vk)
    }

    fn walk_from(
        &self,
        cur: Arc<Certificate>,
        step: usize,
        resolve: &dyn Fn(&str) -> Vec<Arc<Certificate>>,
        bound: usize,
        genesis_vk: &GenesisEd25519VerificationKey,
    ) -> Verdict {
        let rej = |class: &'static str, why: String| Reject { class, step, why };
        if step > bound {
            return Err(rej("loop", format!("no genesis certificate after {bound} links (number of answers + 1)")));
        }
        // --- conjuncts on the certificate itself
        let computed = match vcore::catch(|| cur.try_compute_hash()) {
            Ok(Ok(h)) => h,
            _ => return Err(rej("hash-uncomputable", format!("hash of certificate '{}' cannot be computed", cur.hash))),
        };
        if computed != cur.hash {
            return Err(rej("hash-mismatch", format!("certificate says hash '{}' but its content hashes to '{}'", cur.hash, computed)));
        }
        if cur.signed_message != cur.protocol_message.compute_hash() {
            return Err(rej("signed-message-mismatch", format!("signed_message of '{}' is not the digest of its protocol message", cur.hash)));
        }
        if !epoch_in_message(&cur) {
            return Err(rej(
                "epoch-not-in-message",
                format!(
                    "epoch {} of '{}' is not the current_epoch part of its message ({:?})",
                    cur.epoch,
                    cur.hash,
                    cur.protocol_message.get_message_part(&ProtocolMessagePartKey::CurrentEpoch)
                ),
            ));
        }
        match &cur.signature {
            CertificateSignature::GenesisSignature(sig) => {
                // Ed25519 directly (permissive RFC 8032 verification: a superset of verify_strict)
                let vk: &ed25519_dalek::VerifyingKey = genesis_vk;
                let s: &ed25519_dalek::Signature = sig;
                return if vk.verify(cur.signed_message.as_bytes(), s).is_ok() {
                    Ok(step + 1)
                } else {
                    Err(rej("genesis-signature-invalid", format!("genesis certificate '{}' is not signed by the configured genesis key", cur.hash)))
                };
            }
            CertificateSignature::MultiSignature(..) => {
                if !self.multisig_valid(&cur) {
                    return Err(rej("multisig-invalid", format!("multi-signature of '{}' is not valid for its signed message under its own AVK and parameters", cur.hash)));
                }
            }
        }
        // --- the link
        let h = cur.previous_hash.clone();
        let answers = resolve(&h);
        if answers.is_empty() {
            return Err(rej("link-unanswered", format!("nothing served for previous_hash '{h}' of '{}'", cur.hash)));
        }
        // the served certificate must be the one asked for
        let candidates: Vec<Arc<Certificate>> = answers.iter().filter(|a| a.hash == h).cloned().collect();
        if candidates.is_empty() {
            return Err(rej("served-other-than-requested", format!("asked '{h}', served a certificate that says '{}'", answers[0].hash)));
        }
        let mut deepest: Option<Reject> = None;
        for next in candidates {
            let r = self.link_ok(&cur, &next, step).and_then(|_| self.walk_from(next.clone(), step + 1, resolve, bound, genesis_vk));
            match r {
                Ok(n) => return Ok(n),
                Err(e) => {
                    if deepest.as_ref().map(|d| e.step > d.step).unwrap_or(true) {
                        deepest = Some(e);
                    }
                }
            }
        }
        Err(deepest.unwrap())
    }

    /// the link rule of the statement between `cur` and the certificate `next` its previous_hash names
    fn link_ok(&self, cur: &Certificate, next: &Certificate, step: usize) -> Result<(), Reject> {
        let rej = |class: &'static str, why: String| Reject { class, step, why };
        if next.hash == cur.hash {
            return Err(rej("loop", format!("certificate '{}' links to itself", cur.hash)));
        }
        if next.epoch == cur.epoch {
            let same_avk = canonical_avk(&next.aggregate_verification_key).is_some()
                && canonical_avk(&next.aggregate_verification_key) == canonical_avk(&cur.aggregate_verification_key);
            if !same_avk {
                return Err(rej("link-same-epoch-avk", format!("'{}' and its same-epoch previous '{}' carry different AVKs", cur.hash, next.hash)));
            }
            if !self.params_same(next, cur) {
                return Err(rej("link-same-epoch-parameters", format!("'{}' and its same-epoch previous '{}' carry different parameters", cur.hash, next.hash)));
            }
        } else if next.epoch.0.checked_add(1) == Some(cur.epoch.0) {
            let committed = next
                .protocol_message
                .get_message_part(&ProtocolMessagePartKey::NextAggregateVerificationKey)
                .and_then(|s| decode_avk(s))
                .and_then(|k| canonical_avk(&k));
            if committed.is_none() || committed != canonical_avk(&cur.aggregate_verification_key) {
                return Err(rej("link-previous-epoch-avk", format!("previous '{}' (epoch {}) does not commit to the AVK of '{}'", next.hash, next.epoch, cur.hash)));
            }
            let p = next.protocol_message.get_message_part(&ProtocolMessagePartKey::NextProtocolParameters);
            if p.is_none() || p != params_commitment_ref(&cur.metadata.protocol_parameters).as_ref() {
                return Err(rej("link-previous-epoch-parameters", format!("previous '{}' (epoch {}) does not commit to the parameters of '{}'", next.hash, next.epoch, cur.hash)));
            }
        } else if cur.epoch.0.checked_add(1) == Some(next.epoch.0) {
            return Err(rej(
                "link-to-following-epoch",
                format!("'{}' (epoch {}) links to '{}' of the FOLLOWING epoch {}", cur.hash, cur.epoch, next.hash, next.epoch),
            ));
        } else {
            return Err(rej("link-epoch-gap", format!("'{}' (epoch {}) links to '{}' of epoch {}", cur.hash, cur.epoch, next.hash, next.epoch)));
        }
        Ok(())
    }
}
