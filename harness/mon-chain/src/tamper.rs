//! The untrusted provider: every way of answering that the workload explores.
//!
//! A `Ctx` is an honest family + a start certificate (path start..genesis). `descriptors` lists
//! cheap descriptions of all tamperings applicable to that path; `materialize` turns one into a
//! `Scenario` = answer table (request hash -> certificate served) + queried hash + configured key.
use crate::chain::{self, Family};
use crate::world::{Adversary, EpochWorld};
use mithril_common::crypto_helper::{GenesisEd25519VerificationKey, ProtocolMultiSignature};
use mithril_common::entities::{
    Certificate, CertificateSignature, Epoch, ProtocolMessagePartKey, StakeDistributionParty,
};
use mithril_stm::{AggregateSignature, MithrilMembershipDigest};
use rand_chacha::ChaCha20Rng;
use rand_core::RngCore;
use serde_json::{json, Value};
use std::collections::HashMap;
use std::sync::Arc;
use vcore::rnd;

pub type Table = HashMap<String, Arc<Certificate>>;

pub struct Scenario {
    pub class: String,
    pub serve: &'static str,
    pub table: Table,
    pub query: String,
    pub genesis_vk: GenesisEd25519VerificationKey,
    pub detail: Value,
    /// explicit earlier runs (table, query) of a client history; empty for plain scenarios
    pub pre_runs: Vec<(Table, String)>,
    /// scenario is an untouched honest path (completeness side)
    pub honest: bool,
}

pub struct Ctx<'a> {
    pub fam: &'a Family,
    pub base: Table,
    pub path: Vec<Arc<Certificate>>,
    pub adv: &'a Adversary,
    /// a genesis certificate of ANOTHER honest chain signed with the same genesis key, if any
    pub other_genesis: Option<Arc<Certificate>>,
}

impl<'a> Ctx<'a> {
    pub fn new(fam: &'a Family, start: usize, adv: &'a Adversary, other_genesis: Option<Arc<Certificate>>) -> Ctx<'a> {
        let base: Table = fam.certs.iter().map(|c| (c.hash.clone(), c.clone())).collect();
        let mut path = vec![fam.certs[start].clone()];
        while !path.last().unwrap().is_genesis() {
            let h = &path.last().unwrap().previous_hash;
            let next = base.get(h).expect("honest family is closed under previous_hash").clone();
            path.push(next);
            assert!(path.len() <= fam.certs.len(), "honest family has a loop");
        }
        Ctx { fam, base, path, adv, other_genesis }
    }
    /// index of the genesis certificate in the path
    pub fn n(&self) -> usize {
        self.path.len() - 1
    }
}

#[derive(Clone, Copy, Debug, PartialEq)]
pub enum Serve {
    /// edited certificate served for the old request, its hash field untouched
    NoRecompute,
    /// hash of the edited certificate recomputed, served for the old request (up-chain not updated)
    RecomputeSelf,
    /// hash recomputed, and previous_hash + hash of everything that points to it (up to the start)
    RecomputeUp,
}
impl Serve {
    pub fn name(&self) -> &'static str {
        match self {
            Serve::NoRecompute => "norecompute",
            Serve::RecomputeSelf => "recompute_self",
            Serve::RecomputeUp => "recompute_up",
        }
    }
}

type K = ProtocolMessagePartKey;

#[derive(Clone, Debug, PartialEq)]
pub enum Edit {
    HashRandom,
    HashOfOther,
    PrevRandom,
    PrevEmpty,
    Epoch(i64),
    EpochSet(u64),
    /// epoch, current_epoch part and signed_message changed together
    EpochAndMessage(i64),
    MetaNetwork,
    MetaVersion,
    MetaInitiated,
    MetaSealed,
    MetaSignersDrop,
    MetaSignersStake,
    MetaSignersAdd,
    ParamK(i64),
    ParamM(i64),
    ParamPhi(f64),
    ParamsAdv,
    /// (part, also recompute signed_message)
    PmEdit(K, bool),
    PmRemove(K, bool),
    PmAdd(bool),
    PmNextAvkAdv(bool),
    PmNextAvkGarbage(bool),
    PmNextParamsAdv(bool),
    PmEpochPadded(bool),
    /// part k2 folded into the value of the part before it: same digest, different message
    PmBoundaryShift(K),
    SmRandom,
    SmOfOther,
    AvkAdv,
    AvkOther,
    /// same Merkle commitment, only the total stake (the lottery denominator) altered: a smaller
    /// total keeps every honest index won, so the honest multi-signature still verifies under it
    AvkTotalStake(i64),
    EntityOther,
    MultisigOfOtherSameEpoch,
    MultisigOfOtherEpoch,
    MultisigAdvSameMessage,
    MultisigDropIndex,
    MultisigBitflip,
    ToGenesisAdv,
    ToGenesisCopied,
    GenSigAdv,
    GenSigBitflip,
    GenToMultisig,
}

fn key_name(k: &K) -> String {
    k.to_string()
}

impl Edit {
    pub fn name(&self) -> String {
        let sm = |b: &bool| if *b { "+signed_message" } else { "" };
        match self {
            Edit::HashRandom => "hash_random".into(),
            Edit::HashOfOther => "hash_of_other_certificate".into(),
            Edit::PrevRandom => "previous_hash_random".into(),
            Edit::PrevEmpty => "previous_hash_empty".into(),
            Edit::Epoch(d) => format!("epoch{d:+}"),
            Edit::EpochSet(v) => format!("epoch_set_{}", if *v == u64::MAX { "u64max".to_string() } else { v.to_string() }),
            Edit::EpochAndMessage(d) => format!("epoch{d:+}_with_message"),
            Edit::MetaNetwork => "metadata_network".into(),
            Edit::MetaVersion => "metadata_protocol_version".into(),
            Edit::MetaInitiated => "metadata_initiated_at".into(),
            Edit::MetaSealed => "metadata_sealed_at".into(),
            Edit::MetaSignersDrop => "metadata_signers_drop".into(),
            Edit::MetaSignersStake => "metadata_signers_stake".into(),
            Edit::MetaSignersAdd => "metadata_signers_add".into(),
            Edit::ParamK(d) => format!("parameters_k{d:+}"),
            Edit::ParamM(d) => format!("parameters_m{d:+}"),
            Edit::ParamPhi(d) => format!("parameters_phi_f{}", if d.abs() < 1e-9 { "_below_fixed_precision".to_string() } else if d.abs() >= 256.0 { format!("{d:+}_outside_the_fixed_point_range") } else { format!("{d:+}") }),
            Edit::ParamsAdv => "parameters_adversarial".into(),
            Edit::PmEdit(k, b) => format!("message_part_edit[{}]{}", key_name(k), sm(b)),
            Edit::PmRemove(k, b) => format!("message_part_remove[{}]{}", key_name(k), sm(b)),
            Edit::PmAdd(b) => format!("message_part_add{}", sm(b)),
            Edit::PmNextAvkAdv(b) => format!("message_next_avk_adversarial{}", sm(b)),
            Edit::PmNextAvkGarbage(b) => format!("message_next_avk_garbage{}", sm(b)),
            Edit::PmNextParamsAdv(b) => format!("message_next_parameters_adversarial{}", sm(b)),
            Edit::PmEpochPadded(b) => format!("message_current_epoch_zero_padded{}", sm(b)),
            Edit::PmBoundaryShift(k) => format!("message_boundary_shift[{}]", key_name(k)),
            Edit::SmRandom => "signed_message_random".into(),
            Edit::SmOfOther => "signed_message_of_other_certificate".into(),
            Edit::AvkAdv => "avk_adversarial".into(),
            Edit::AvkOther => "avk_of_other_epoch".into(),
            Edit::AvkTotalStake(d) => format!("avk_same_commitment_total_stake_{}", if *d < 0 { "shrunk" } else { "grown" }),
            Edit::EntityOther => "signed_entity_type_other".into(),
            Edit::MultisigOfOtherSameEpoch => "multisig_of_other_certificate_same_epoch".into(),
            Edit::MultisigOfOtherEpoch => "multisig_of_other_epoch".into(),
            Edit::MultisigAdvSameMessage => "multisig_adversarial_same_message".into(),
            Edit::MultisigDropIndex => "multisig_drop_index".into(),
            Edit::MultisigBitflip => "multisig_sigma_bitflip".into(),
            Edit::ToGenesisAdv => "signature_to_genesis_by_adversary_key".into(),
            Edit::ToGenesisCopied => "signature_to_genesis_copied_from_genesis".into(),
            Edit::GenSigAdv => "genesis_signature_by_adversary_key".into(),
            Edit::GenSigBitflip => "genesis_signature_bitflip".into(),
            Edit::GenToMultisig => "genesis_signature_to_multisig".into(),
        }
    }
}

/// all single-field edits applicable to a certificate
pub fn edits_for(c: &Certificate) -> Vec<Edit> {
    let mut v = vec![
        Edit::HashRandom,
        Edit::HashOfOther,
        Edit::PrevRandom,
        Edit::Epoch(1),
        Edit::Epoch(-1),
        Edit::Epoch(2),
        Edit::EpochSet(0),
        Edit::EpochSet(u64::MAX),
        Edit::EpochAndMessage(1),
        Edit::EpochAndMessage(-1),
        Edit::MetaNetwork,
        Edit::MetaVersion,
        Edit::MetaInitiated,
        Edit::MetaSealed,
        Edit::MetaSignersAdd,
        Edit::ParamK(-1),
        Edit::ParamK(1),
        Edit::ParamM(1),
        Edit::ParamM(-1),
        Edit::ParamPhi(1e-12),
        Edit::ParamPhi(0.04),
        Edit::ParamPhi(-0.04),
        Edit::ParamPhi(256.0),
        Edit::ParamPhi(512.0),
        Edit::ParamPhi(-256.0),
        Edit::ParamsAdv,
        Edit::SmRandom,
        Edit::SmOfOther,
        Edit::AvkAdv,
        Edit::AvkOther,
        Edit::AvkTotalStake(-1),
        Edit::AvkTotalStake(1),
    ];
    for b in [false, true] {
        for k in c.protocol_message.message_parts.keys() {
            v.push(Edit::PmEdit(*k, b));
            v.push(Edit::PmRemove(*k, b));
        }
        v.push(Edit::PmAdd(b));
        v.push(Edit::PmNextAvkAdv(b));
        v.push(Edit::PmNextAvkGarbage(b));
        v.push(Edit::PmNextParamsAdv(b));
        v.push(Edit::PmEpochPadded(b));
    }
    for k in c.protocol_message.message_parts.keys().skip(1) {
        v.push(Edit::PmBoundaryShift(*k));
    }
    if c.is_genesis() {
        v.extend([Edit::GenSigAdv, Edit::GenSigBitflip, Edit::GenToMultisig]);
    } else {
        v.extend([
            Edit::PrevEmpty,
            Edit::MetaSignersDrop,
            Edit::MetaSignersStake,
            Edit::EntityOther,
            Edit::MultisigOfOtherSameEpoch,
            Edit::MultisigOfOtherEpoch,
            Edit::MultisigAdvSameMessage,
            Edit::MultisigDropIndex,
            Edit::MultisigBitflip,
            Edit::ToGenesisAdv,
            Edit::ToGenesisCopied,
        ]);
    }
    v
}

fn random_hex(rng: &mut ChaCha20Rng) -> String {
    hex::encode(rnd::bytes(rng, 32))
}

fn multisig_json_edit(ms: &ProtocolMultiSignature, f: impl Fn(&mut Value) -> bool) -> Option<ProtocolMultiSignature> {
    let inner: &AggregateSignature<MithrilMembershipDigest> = ms;
    let mut v = serde_json::to_value(inner).ok()?;
    if !f(&mut v) {
        return None;
    }
    let a: AggregateSignature<MithrilMembershipDigest> = serde_json::from_value(v).ok()?;
    Some(a.into())
}

/// Apply one edit (hash field NOT recomputed). None when not applicable to this certificate.
pub fn apply_edit(c: &Certificate, e: &Edit, ctx: &Ctx, rng: &mut ChaCha20Rng) -> Option<Certificate> {
    let mut c = c.clone();
    let adv_w: &EpochWorld = &ctx.adv.worlds[0];
    let others: Vec<&Arc<Certificate>> = ctx.fam.certs.iter().filter(|o| o.hash != c.hash).collect();
    let set_sm = |c: &mut Certificate, b: bool| {
        if b {
            c.signed_message = c.protocol_message.compute_hash();
        }
    };
    match e {
        Edit::HashRandom => c.hash = random_hex(rng),
        Edit::HashOfOther => c.hash = rnd::pick(rng, &others).hash.clone(),
        Edit::PrevRandom => c.previous_hash = random_hex(rng),
        Edit::PrevEmpty => c.previous_hash = String::new(),
        Edit::Epoch(d) => c.epoch = Epoch(c.epoch.0.checked_add_signed(*d)?),
        Edit::EpochSet(v) => {
            if c.epoch.0 == *v {
                return None;
            }
            c.epoch = Epoch(*v)
        }
        Edit::EpochAndMessage(d) => {
            c.epoch = Epoch(c.epoch.0.checked_add_signed(*d)?);
            c.protocol_message.set_message_part(K::CurrentEpoch, c.epoch.to_string());
            c.signed_message = c.protocol_message.compute_hash();
        }
        Edit::MetaNetwork => c.metadata.network.push_str("-x"),
        Edit::MetaVersion => c.metadata.protocol_version.push_str(".1"),
        Edit::MetaInitiated => c.metadata.initiated_at += chrono::TimeDelta::seconds(1),
        Edit::MetaSealed => c.metadata.sealed_at += chrono::TimeDelta::nanoseconds(1),
        Edit::MetaSignersDrop => {
            if c.metadata.signers.is_empty() {
                return None;
            }
            let i = rnd::usize_below(rng, c.metadata.signers.len());
            c.metadata.signers.remove(i);
        }
        Edit::MetaSignersStake => {
            if c.metadata.signers.is_empty() {
                return None;
            }
            let i = rnd::usize_below(rng, c.metadata.signers.len());
            c.metadata.signers[i].stake += 1;
        }
        Edit::MetaSignersAdd => c.metadata.signers.push(StakeDistributionParty { party_id: "pool-added".into(), stake: 7 }),
        Edit::ParamK(d) => {
            let k = c.metadata.protocol_parameters.k.checked_add_signed(*d)?;
            if k == 0 {
                return None;
            }
            c.metadata.protocol_parameters.k = k
        }
        Edit::ParamM(d) => c.metadata.protocol_parameters.m = c.metadata.protocol_parameters.m.checked_add_signed(*d)?,
        Edit::ParamPhi(d) => {
            let p = c.metadata.protocol_parameters.phi_f + d;
            // |d| >= 256: a value outside the fixed-point range the parameters are hashed at
            if (!(p > 0.0 && p <= 1.0) && d.abs() < 256.0) || p == c.metadata.protocol_parameters.phi_f {
                return None;
            }
            c.metadata.protocol_parameters.phi_f = p
        }
        Edit::ParamsAdv => {
            if c.metadata.protocol_parameters == adv_w.params {
                return None;
            }
            c.metadata.protocol_parameters = adv_w.params.clone()
        }
        Edit::PmEdit(k, b) => {
            let v = c.protocol_message.get_message_part(k)?.clone();
            let nv = match k {
                K::CurrentEpoch => (c.epoch.0.wrapping_add(1)).to_string(),
                _ => {
                    // keep the alphabet (hex stays hex): change the last character
                    let mut s = v.clone();
                    let last = s.pop().unwrap_or('0');
                    s.push(if last == '0' { '1' } else { '0' });
                    s
                }
            };
            c.protocol_message.set_message_part(*k, nv);
            set_sm(&mut c, *b);
        }
        Edit::PmRemove(k, b) => {
            c.protocol_message.message_parts.remove(k)?;
            set_sm(&mut c, *b);
        }
        Edit::PmAdd(b) => {
            let absent = [K::SnapshotDigest, K::LatestBlockNumber, K::CardanoDatabaseMerkleRoot, K::CardanoStakeDistributionEpoch]
                .into_iter()
                .find(|k| c.protocol_message.get_message_part(k).is_none())?;
            c.protocol_message.set_message_part(absent, "added".into());
            set_sm(&mut c, *b);
        }
        Edit::PmNextAvkAdv(b) => {
            c.protocol_message.set_message_part(K::NextAggregateVerificationKey, adv_w.avk_encoded());
            set_sm(&mut c, *b);
        }
        Edit::PmNextAvkGarbage(b) => {
            c.protocol_message.set_message_part(K::NextAggregateVerificationKey, "7b7d".into());
            set_sm(&mut c, *b);
        }
        Edit::PmNextParamsAdv(b) => {
            let h = adv_w.params.compute_hash();
            if c.protocol_message.get_message_part(&K::NextProtocolParameters) == Some(&h) {
                return None;
            }
            c.protocol_message.set_message_part(K::NextProtocolParameters, h);
            set_sm(&mut c, *b);
        }
        Edit::PmEpochPadded(b) => {
            c.protocol_message.set_message_part(K::CurrentEpoch, format!("0{}", c.epoch));
            set_sm(&mut c, *b);
        }
        Edit::PmBoundaryShift(k2) => {
            let keys: Vec<K> = c.protocol_message.message_parts.keys().cloned().collect();
            let i = keys.iter().position(|k| k == k2)?;
            if i == 0 {
                return None;
            }
            let v2 = c.protocol_message.message_parts.remove(k2)?;
            let k1 = keys[i - 1];
            let v1 = c.protocol_message.get_message_part(&k1)?.clone();
            c.protocol_message.set_message_part(k1, format!("{v1}{k2}{v2}"));
            // digest unchanged by construction; signed_message left as is
        }
        Edit::SmRandom => c.signed_message = random_hex(rng),
        Edit::SmOfOther => c.signed_message = rnd::pick(rng, &others).signed_message.clone(),
        Edit::AvkAdv => c.aggregate_verification_key = adv_w.avk_concat(),
        Edit::AvkTotalStake(d) => {
            // through the key's json-hex wire form: hex(JSON {"mt_commitment": {...}, "total_stake": n})
            let encoded = c.aggregate_verification_key.to_json_hex().ok()?;
            let text = String::from_utf8(hex::decode(&encoded).ok()?).ok()?;
            let mut v: serde_json::Value = serde_json::from_str(&text).ok()?;
            let total = v.get("total_stake")?.as_u64()?;
            let new_total = if *d < 0 { (total / 2).max(1) } else { total.checked_add(1 + total / 3)? };
            if new_total == total {
                return None;
            }
            v["total_stake"] = serde_json::json!(new_total);
            let re = hex::encode(serde_json::to_string(&v).ok()?);
            c.aggregate_verification_key = re.as_str().try_into().ok()?;
        }
        Edit::AvkOther => {
            let mine = c.aggregate_verification_key.to_json_hex().ok()?;
            let o = others.iter().find(|o| o.aggregate_verification_key.to_json_hex().ok().as_ref() != Some(&mine))?;
            c.aggregate_verification_key = o.aggregate_verification_key.clone();
        }
        Edit::EntityOther => {
            let CertificateSignature::MultiSignature(ent, ms) = &c.signature else { return None };
            let mut n = chain::random_entity(c.epoch, rng);
            if &n == ent {
                n = chain::entity_from(Epoch(c.epoch.0 + 1), rng.next_u64());
            }
            c.signature = CertificateSignature::MultiSignature(n, ms.clone());
        }
        Edit::MultisigOfOtherSameEpoch | Edit::MultisigOfOtherEpoch => {
            let CertificateSignature::MultiSignature(ent, _) = &c.signature else { return None };
            let same = matches!(e, Edit::MultisigOfOtherSameEpoch);
            let cand: Vec<&&Arc<Certificate>> =
                others.iter().filter(|o| !o.is_genesis() && (o.epoch == c.epoch) == same && o.signed_message != c.signed_message).collect();
            if cand.is_empty() {
                return None;
            }
            let o = rnd::pick(rng, &cand);
            let CertificateSignature::MultiSignature(_, ms) = &o.signature else { return None };
            c.signature = CertificateSignature::MultiSignature(ent.clone(), ms.clone());
        }
        Edit::MultisigAdvSameMessage => {
            let CertificateSignature::MultiSignature(ent, _) = &c.signature else { return None };
            let ms = adv_w.sign(c.signed_message.as_bytes())?;
            c.signature = CertificateSignature::MultiSignature(ent.clone(), ms);
        }
        Edit::MultisigDropIndex => {
            let CertificateSignature::MultiSignature(ent, ms) = &c.signature else { return None };
            let ms2 = multisig_json_edit(ms, |v| {
                let Some(l) = v["signatures"][0][0]["indexes"].as_array_mut() else { return false };
                l.pop().is_some()
            })?;
            c.signature = CertificateSignature::MultiSignature(ent.clone(), ms2);
        }
        Edit::MultisigBitflip => {
            let CertificateSignature::MultiSignature(ent, ms) = &c.signature else { return None };
            let mut out = None;
            for _ in 0..16 {
                let pos = rnd::usize_below(rng, 48);
                let bit = 1u64 << rnd::below(rng, 8);
                out = multisig_json_edit(ms, |v| {
                    let Some(b) = v["signatures"][0][0]["sigma"][pos].as_u64() else { return false };
                    v["signatures"][0][0]["sigma"][pos] = json!(b ^ bit);
                    true
                });
                if out.is_some() {
                    break;
                }
            }
            c.signature = CertificateSignature::MultiSignature(ent.clone(), out?);
        }
        Edit::ToGenesisAdv => {
            if c.is_genesis() {
                return None;
            }
            c.signature = CertificateSignature::GenesisSignature(ctx.adv.genesis.sign(c.signed_message.as_bytes()));
        }
        Edit::ToGenesisCopied => {
            if c.is_genesis() {
                return None;
            }
            let g = ctx.path.last().unwrap();
            let CertificateSignature::GenesisSignature(s) = &g.signature else { return None };
            c.signature = CertificateSignature::GenesisSignature(*s);
        }
        Edit::GenSigAdv => {
            if !c.is_genesis() {
                return None;
            }
            c.signature = CertificateSignature::GenesisSignature(ctx.adv.genesis.sign(c.signed_message.as_bytes()));
        }
        Edit::GenSigBitflip => {
            let CertificateSignature::GenesisSignature(s) = &c.signature else { return None };
            let sig: &ed25519_dalek::Signature = s;
            let mut b = sig.to_bytes();
            b[rnd::usize_below(rng, 64)] ^= 1 << rnd::below(rng, 8);
            c.signature = CertificateSignature::GenesisSignature(ed25519_dalek::Signature::from_bytes(&b).into());
        }
        Edit::GenToMultisig => {
            if !c.is_genesis() || ctx.path.len() < 2 {
                return None;
            }
            let p = &ctx.path[ctx.path.len() - 2];
            let CertificateSignature::MultiSignature(ent, ms) = &p.signature else { return None };
            c.signature = CertificateSignature::MultiSignature(ent.clone(), ms.clone());
        }
    }
    Some(c)
}

#[derive(Clone, Copy, Debug, PartialEq)]
pub enum Patch {
    None,
    /// junction certificate commits to the adversarial key; its signed_message and hash field stale
    CommitStale,
    /// + signed_message recomputed, hash field stale
    CommitSignedMessage,
    /// + hash recomputed and the adversarial suffix re-linked to it
    CommitRehash,
}

#[derive(Clone, Copy, Debug, PartialEq)]
pub enum Whole {
    /// complete adversarial chain with the adversary's own genesis key, verified under the honest key
    OwnGenesis,
    /// the same, but the verifier is configured with the adversary's key (control: must be accepted)
    OwnGenesisConfigured,
    /// adversarial standard certificates rooted in the untouched genuine genesis certificate
    OnGenuineGenesis,
    /// adversarial chain entering the genesis epoch: genuine genesis with its (unsigned) AVK /
    /// parameters fields replaced, signature untouched
    GenesisEpochUnsignedAvk,
}

#[derive(Clone, Copy, Debug, PartialEq)]
pub enum GenKind {
    AdvSignedSame,
    OtherChainSameKey,
    AdvStandardInPlace,
}

/// A chain in which EVERY signature is valid (the adversary's own signer sets and genesis key, and the
/// verifier is configured with that genesis key) but exactly one conjunct of the statement is broken.
#[derive(Clone, Copy, Debug, PartialEq)]
pub enum Break {
    MissingNextParameters,
    MissingNextAvk,
    ParametersChangeUncommitted,
    AvkChangeUncommitted,
    SameEpochAvkChange,
    SameEpochParametersChange,
    EpochGap,
    FollowingEpochLink,
    EpochMissingInMessage,
    EpochOtherInMessage,
    SignedMessageArbitrary,
    HashStale,
    GenesisEpochMissingInMessage,
    GenesisEpochOtherInMessage,
    GenesisSignedMessageArbitrary,
    GenesisCommitsOtherAvk,
    GenesisCommitsOtherParameters,
}
pub const BREAKS: [Break; 17] = [
    Break::MissingNextParameters,
    Break::MissingNextAvk,
    Break::ParametersChangeUncommitted,
    Break::AvkChangeUncommitted,
    Break::SameEpochAvkChange,
    Break::SameEpochParametersChange,
    Break::EpochGap,
    Break::FollowingEpochLink,
    Break::EpochMissingInMessage,
    Break::EpochOtherInMessage,
    Break::SignedMessageArbitrary,
    Break::HashStale,
    Break::GenesisEpochMissingInMessage,
    Break::GenesisEpochOtherInMessage,
    Break::GenesisSignedMessageArbitrary,
    Break::GenesisCommitsOtherAvk,
    Break::GenesisCommitsOtherParameters,
];

#[derive(Clone, Debug)]
pub enum Desc {
    Identity,
    /// fully signed chain under the configured (adversary's) genesis key with one broken conjunct
    SignedRuleBreak { kind: Break, at: usize },
    OffPath { victim: usize, edit: Edit },
    Edit { pos: usize, edit: Edit, serve: Serve },
    AdvResign { pos: usize, own_params: bool, serve: Serve },
    AdvSuffix { upto: usize, own_params: bool, patch: Patch },
    AdvWhole { kind: Whole },
    Relink { pos: usize, target: usize, recompute: bool },
    Drop { pos: usize },
    WrongAnswer { pos: usize, other: usize },
    SwapAnswers { a: usize, b: usize },
    SelfLoop { pos: usize },
    SelfAnswer { pos: usize },
    Cycle { pos: usize, len: usize },
    GenesisReplace { kind: GenKind, recompute: bool },
    Truncate { pos: usize, serve_genesis_for_empty: bool },
    /// client history: cache warmed by an honest run, then an adversarial head linked to a FAKE copy
    /// (same hash field) of a cached certificate that commits to the adversarial key
    CacheFakeBoundary { pos: usize },
    /// client history: a rejected run leaves an adversarial link in the cache, a second run uses it
    CachePoisonByRejectedRun { pos: usize },
}

fn delta_class(cur: &Certificate, target: &Certificate) -> &'static str {
    let d = target.epoch.0 as i128 - cur.epoch.0 as i128;
    match d {
        0 => "same_epoch",
        -1 => "previous_epoch",
        1 => "following_epoch",
        -2 => "two_epochs_back",
        _ if d > 1 => "later_epoch_gap",
        _ => "earlier_epoch_gap",
    }
}

impl Desc {
    /// class group (stratum of the sampling, key of the counters)
    pub fn class(&self, ctx: &Ctx) -> String {
        match self {
            Desc::Identity => "control:identity".into(),
            Desc::SignedRuleBreak { kind, .. } => format!("fully_signed_rule_break:{kind:?}"),
            Desc::OffPath { .. } => "control:off_path_edit".into(),
            Desc::Edit { pos, edit, .. } => {
                format!("edit{}:{}", if *pos == ctx.n() { "_genesis" } else { "" }, edit.name())
            }
            Desc::AdvResign { own_params, .. } => format!("adv_resign_one:{}", if *own_params { "own_parameters" } else { "same_parameters" }),
            Desc::AdvSuffix { upto, own_params, patch } => format!(
                "adv_suffix:{}:{}:junction_{}",
                if *own_params { "own_parameters" } else { "same_parameters" },
                format!("{patch:?}").to_lowercase(),
                if ctx.path[*upto + 1].is_genesis() { "genesis" } else if ctx.path[*upto + 1].epoch == ctx.path[*upto].epoch { "same_epoch" } else { "previous_epoch" }
            ),
            Desc::AdvWhole { kind } => format!("adv_whole_chain:{kind:?}"),
            Desc::Relink { pos, target, recompute } => format!(
                "relink:{}{}{}",
                delta_class(&ctx.path[*pos], &ctx.fam.certs[*target]),
                if ctx.fam.certs[*target].is_genesis() { "_genesis" } else { "" },
                if *recompute { "" } else { ":hash_stale" }
            ),
            Desc::Drop { .. } => "structure:drop".into(),
            Desc::WrongAnswer { pos, other } => {
                if *pos == 0 {
                    "structure:wrong_answer_at_entry".into()
                } else {
                    format!("structure:wrong_answer:{}", delta_class(&ctx.path[*pos], &ctx.fam.certs[*other]))
                }
            }
            Desc::SwapAnswers { .. } => "structure:swap_answers".into(),
            Desc::SelfLoop { .. } => "structure:self_loop".into(),
            Desc::SelfAnswer { .. } => "structure:certificate_served_for_its_own_previous_hash".into(),
            Desc::Cycle { len, .. } => format!("structure:cycle_{len}"),
            Desc::GenesisReplace { kind, recompute } => format!("genesis_replace:{kind:?}{}", if *recompute { "" } else { ":hash_stale" }),
            Desc::Truncate { serve_genesis_for_empty, .. } => {
                format!("structure:truncate{}", if *serve_genesis_for_empty { "_genesis_served_for_empty_hash" } else { "" })
            }
            Desc::CacheFakeBoundary { .. } => "cache_history:fake_copy_of_cached_certificate".into(),
            Desc::CachePoisonByRejectedRun { .. } => "cache_history:link_cached_by_rejected_run".into(),
        }
    }
}

/// every tampering applicable to this path
pub fn descriptors(ctx: &Ctx) -> Vec<Desc> {
    let n = ctx.n();
    let mut v = vec![Desc::Identity];
    let on_path: std::collections::HashSet<&str> = ctx.path.iter().map(|c| c.hash.as_str()).collect();
    for (i, c) in ctx.fam.certs.iter().enumerate() {
        if !on_path.contains(c.hash.as_str()) {
            for e in [Edit::AvkAdv, Edit::SmRandom, Edit::Epoch(1)] {
                v.push(Desc::OffPath { victim: i, edit: e });
            }
        }
    }
    for pos in 0..=n {
        for e in edits_for(&ctx.path[pos]) {
            let serves: &[Serve] = match e {
                Edit::HashRandom | Edit::HashOfOther => &[Serve::NoRecompute, Serve::RecomputeUp],
                _ => &[Serve::NoRecompute, Serve::RecomputeSelf, Serve::RecomputeUp],
            };
            for s in serves {
                v.push(Desc::Edit { pos, edit: e.clone(), serve: *s });
            }
        }
    }
    for pos in 0..n {
        for own in [false, true] {
            for s in [Serve::NoRecompute, Serve::RecomputeUp] {
                v.push(Desc::AdvResign { pos, own_params: own, serve: s });
            }
            for p in [Patch::None, Patch::CommitStale, Patch::CommitSignedMessage, Patch::CommitRehash] {
                v.push(Desc::AdvSuffix { upto: pos, own_params: own, patch: p });
            }
        }
        for (t, tc) in ctx.fam.certs.iter().enumerate() {
            if tc.hash != ctx.path[pos].hash && tc.hash != ctx.path[pos].previous_hash {
                v.push(Desc::Relink { pos, target: t, recompute: true });
                if t % 3 == 0 {
                    v.push(Desc::Relink { pos, target: t, recompute: false });
                }
            }
        }
        v.push(Desc::SelfLoop { pos });
        v.push(Desc::SelfAnswer { pos });
        v.push(Desc::Truncate { pos, serve_genesis_for_empty: false });
        v.push(Desc::Truncate { pos, serve_genesis_for_empty: true });
        for len in [2usize, 3] {
            if pos + len - 1 < n {
                v.push(Desc::Cycle { pos, len });
            }
        }
        if ctx.path[pos + 1].epoch != ctx.path[pos].epoch && pos + 1 < n {
            v.push(Desc::CacheFakeBoundary { pos });
            v.push(Desc::CachePoisonByRejectedRun { pos });
        }
    }
    for pos in 1..=n {
        v.push(Desc::Drop { pos });
    }
    for pos in 0..=n {
        for (o, oc) in ctx.fam.certs.iter().enumerate() {
            if oc.hash != ctx.path[pos].hash {
                v.push(Desc::WrongAnswer { pos, other: o });
            }
        }
    }
    for a in 1..=n {
        for b in (a + 1)..=n {
            v.push(Desc::SwapAnswers { a, b });
        }
    }
    for kind in BREAKS {
        for at in 0..=n {
            if break_applicable(ctx, kind, at) {
                v.push(Desc::SignedRuleBreak { kind, at });
            }
        }
    }
    for k in [Whole::OwnGenesis, Whole::OwnGenesisConfigured, Whole::OnGenuineGenesis, Whole::GenesisEpochUnsignedAvk] {
        v.push(Desc::AdvWhole { kind: k });
    }
    for r in [false, true] {
        v.push(Desc::GenesisReplace { kind: GenKind::AdvSignedSame, recompute: r });
        v.push(Desc::GenesisReplace { kind: GenKind::AdvStandardInPlace, recompute: r });
    }
    if ctx.other_genesis.is_some() {
        v.push(Desc::GenesisReplace { kind: GenKind::OtherChainSameKey, recompute: true });
    }
    v
}

fn rehash(c: &mut Certificate) -> Option<()> {
    c.hash = c.try_compute_hash().ok()?;
    Some(())
}

/// After `path[from]` changed its hash field: update previous_hash + hash of path[from-1], ..., path[0].
fn relink_up(path: &mut [Certificate], from: usize) -> Option<()> {
    for j in (0..from).rev() {
        path[j].previous_hash = path[j + 1].hash.clone();
        rehash(&mut path[j])?;
    }
    Some(())
}

fn owned_path(ctx: &Ctx) -> Vec<Certificate> {
    ctx.path.iter().map(|c| (**c).clone()).collect()
}

/// serve path[0..=upto] under their (new) hash fields, on top of the honest table
fn overlay(table: &mut Table, path: &[Certificate], upto: usize) {
    for c in &path[..=upto] {
        table.insert(c.hash.clone(), Arc::new(c.clone()));
    }
}

/// adversarial look-alike of `orig`: same epoch / entity type / payload, adversarial key material
fn adv_like(orig: &Certificate, w: &EpochWorld, next_w: &EpochWorld, previous_hash: &str) -> Option<Certificate> {
    let CertificateSignature::MultiSignature(entity, _) = &orig.signature else { return None };
    for attempt in 0..40 {
        let mut pm = orig.protocol_message.clone();
        pm.set_message_part(K::NextAggregateVerificationKey, next_w.avk_encoded());
        pm.set_message_part(K::NextProtocolParameters, next_w.params.compute_hash());
        if attempt > 0 {
            pm.set_message_part(K::SnapshotDigest, format!("adv-retry-{attempt}"));
        }
        let sm = pm.compute_hash();
        let Some(ms) = w.sign(sm.as_bytes()) else { continue };
        let mut md = orig.metadata.clone();
        md.protocol_parameters = w.params.clone();
        md.signers = w.parties.clone();
        return Certificate::try_new(
            previous_hash,
            orig.epoch,
            md,
            pm,
            w.avk.clone(),
            CertificateSignature::MultiSignature(entity.clone(), ms),
            None,
            None,
        )
        .ok();
    }
    None
}

/// adversarial versions of path[0..=upto], chained bottom-up onto `root_hash`
fn adv_suffix(ctx: &Ctx, upto: usize, own_params: bool, root_hash: &str, rng: &mut ChaCha20Rng) -> Option<(Vec<Certificate>, Vec<Arc<EpochWorld>>)> {
    // world per position
    let mut ws: Vec<Arc<EpochWorld>> = vec![];
    for j in 0..=upto {
        let w = if own_params {
            ctx.adv.shared(0)
        } else {
            ctx.adv.with_params(&ctx.path[j].metadata.protocol_parameters, rng)?
        };
        ws.push(w);
    }
    let mut out: Vec<Option<Certificate>> = vec![None; upto + 1];
    let mut prev_hash = root_hash.to_string();
    for j in (0..=upto).rev() {
        let next_w = if j > 0 && ctx.path[j - 1].epoch != ctx.path[j].epoch { ws[j - 1].clone() } else { ws[j].clone() };
        let c = adv_like(&ctx.path[j], &ws[j], &next_w, &prev_hash)?;
        prev_hash = c.hash.clone();
        out[j] = Some(c);
    }
    Some((out.into_iter().map(|c| c.unwrap()).collect(), ws))
}

fn cross_epoch(ctx: &Ctx, at: usize) -> bool {
    at < ctx.n() && ctx.path[at + 1].epoch != ctx.path[at].epoch
}

pub fn break_applicable(ctx: &Ctx, kind: Break, at: usize) -> bool {
    let n = ctx.n();
    match kind {
        Break::MissingNextParameters | Break::MissingNextAvk | Break::ParametersChangeUncommitted | Break::AvkChangeUncommitted | Break::EpochGap => {
            cross_epoch(ctx, at)
        }
        Break::SameEpochAvkChange | Break::SameEpochParametersChange => at < n && !cross_epoch(ctx, at),
        Break::FollowingEpochLink => at + 1 < n,
        Break::EpochMissingInMessage | Break::EpochOtherInMessage | Break::SignedMessageArbitrary | Break::HashStale => at < n,
        Break::GenesisEpochMissingInMessage | Break::GenesisEpochOtherInMessage | Break::GenesisSignedMessageArbitrary => at == n,
        Break::GenesisCommitsOtherAvk | Break::GenesisCommitsOtherParameters => at == n && n >= 1,
    }
}

/// Build the fully signed chain mirroring the path (same epochs, entity types, payloads), signed by the
/// adversary's sets and anchored in a genesis certificate signed by the adversary's genesis key, with
/// exactly one conjunct broken. Returns (request hash -> certificate) and the query.
fn signed_rule_break(ctx: &Ctx, kind: Break, at: usize, rng: &mut ChaCha20Rng) -> Option<(Vec<(String, Certificate)>, String)> {
    let n = ctx.n();
    let w0 = ctx.adv.shared(0);
    let w1 = ctx.adv.with_params(&w0.params, rng)?; // other keys, same parameters
    let w0p = ctx.adv.w0_other_params.clone(); // same keys (same AVK), other parameters
    let mut epoch: Vec<u64> = ctx.path.iter().map(|c| c.epoch.0).collect();
    let mut signer: Vec<Arc<EpochWorld>> = vec![w0.clone(); n + 1];
    let mut commit_avk: Vec<Option<String>> = vec![Some(w0.avk_encoded()); n + 1];
    let mut commit_params: Vec<Option<String>> = vec![Some(w0.params.compute_hash()); n + 1];
    let mut arbitrary_sm = vec![false; n + 1];
    let mut epoch_part: Vec<Option<String>> = vec![None; n + 1]; // filled below
    let mut set_epoch_part: Option<(usize, Option<String>)> = None;
    let switch_to = |signer: &mut Vec<Arc<EpochWorld>>, commit_avk: &mut Vec<Option<String>>, commit_params: &mut Vec<Option<String>>, w: &Arc<EpochWorld>| {
        for i in 0..=at {
            signer[i] = w.clone();
            if i < at {
                commit_avk[i] = Some(w.avk_encoded());
                commit_params[i] = Some(w.params.compute_hash());
            }
        }
        // the certificate at `at` commits to `w` for what follows it as well
        commit_avk[at] = Some(w.avk_encoded());
        commit_params[at] = Some(w.params.compute_hash());
    };
    match kind {
        Break::MissingNextParameters => commit_params[at + 1] = None,
        Break::MissingNextAvk => commit_avk[at + 1] = None,
        Break::ParametersChangeUncommitted | Break::SameEpochParametersChange => switch_to(&mut signer, &mut commit_avk, &mut commit_params, &w0p?),
        Break::AvkChangeUncommitted | Break::SameEpochAvkChange => switch_to(&mut signer, &mut commit_avk, &mut commit_params, &w1),
        Break::EpochGap => {
            for e in epoch.iter_mut().take(at + 1) {
                *e = e.checked_add(1)?;
            }
        }
        Break::FollowingEpochLink => {
            let d = (epoch[at] + 1).checked_sub(epoch[at + 1])?;
            for e in epoch.iter_mut().skip(at + 1) {
                *e = e.checked_add(d)?;
            }
        }
        Break::EpochMissingInMessage | Break::GenesisEpochMissingInMessage => set_epoch_part = Some((at, None)),
        Break::EpochOtherInMessage | Break::GenesisEpochOtherInMessage => set_epoch_part = Some((at, Some((epoch[at] + 1).to_string()))),
        Break::SignedMessageArbitrary | Break::GenesisSignedMessageArbitrary => arbitrary_sm[at] = true,
        Break::HashStale => {}
        Break::GenesisCommitsOtherAvk => {
            if epoch[n - 1] == epoch[n] {
                signer[n] = w1.clone(); // same-epoch link: the genesis certificate CARRIES another key
            } else {
                commit_avk[n] = Some(w1.avk_encoded());
            }
        }
        Break::GenesisCommitsOtherParameters => {
            let w = w0p?;
            if epoch[n - 1] == epoch[n] {
                signer[n] = w;
            } else {
                commit_params[n] = Some(w.params.compute_hash());
            }
        }
    }
    for i in 0..=n {
        epoch_part[i] = Some(epoch[i].to_string());
    }
    if let Some((i, v)) = set_epoch_part {
        epoch_part[i] = v;
    }
    // bottom-up
    let mut out: Vec<Option<Certificate>> = vec![None; n + 1];
    let mut prev_hash = String::new();
    for i in (0..=n).rev() {
        let orig = &ctx.path[i];
        let w = &signer[i];
        let mut made = None;
        for attempt in 0..40 {
            let mut pm = mithril_common::entities::ProtocolMessage::new();
            if i < n {
                // payload parts of the mirrored certificate
                for (k, v) in &orig.protocol_message.message_parts {
                    if !matches!(k, K::NextAggregateVerificationKey | K::NextProtocolParameters | K::CurrentEpoch) {
                        pm.set_message_part(*k, v.clone());
                    }
                }
                if attempt > 0 {
                    pm.set_message_part(K::SnapshotDigest, format!("retry-{attempt}"));
                }
            }
            if let Some(v) = &commit_avk[i] {
                pm.set_message_part(K::NextAggregateVerificationKey, v.clone());
            }
            if let Some(v) = &commit_params[i] {
                pm.set_message_part(K::NextProtocolParameters, v.clone());
            }
            if let Some(v) = &epoch_part[i] {
                pm.set_message_part(K::CurrentEpoch, v.clone());
            }
            let sm = if arbitrary_sm[i] { random_hex(rng) } else { pm.compute_hash() };
            let signature = if i == n {
                CertificateSignature::GenesisSignature(ctx.adv.genesis.sign(sm.as_bytes()))
            } else {
                let CertificateSignature::MultiSignature(entity, _) = &orig.signature else { return None };
                let Some(ms) = w.sign(sm.as_bytes()) else { continue };
                CertificateSignature::MultiSignature(entity.clone(), ms)
            };
            let mut md = orig.metadata.clone();
            md.protocol_parameters = w.params.clone();
            md.signers = if i == n { vec![] } else { w.parties.clone() };
            let mut c = Certificate::try_new(prev_hash.clone(), Epoch(epoch[i]), md, pm, w.avk.clone(), signature, None, None).ok()?;
            if arbitrary_sm[i] {
                c.signed_message = sm;
                rehash(&mut c)?;
            }
            made = Some(c);
            break;
        }
        let mut c = made?;
        if kind == Break::HashStale && i == at {
            c.hash = random_hex(rng);
        }
        prev_hash = c.hash.clone();
        out[i] = Some(c);
    }
    let certs: Vec<Certificate> = out.into_iter().map(|c| c.unwrap()).collect();
    let q = certs[0].hash.clone();
    Some((certs.into_iter().map(|c| (c.hash.clone(), c)).collect(), q))
}

pub fn materialize(d: &Desc, ctx: &Ctx, rng: &mut ChaCha20Rng) -> Option<Scenario> {
    let n = ctx.n();
    let class = d.class(ctx);
    let mut table = ctx.base.clone();
    let mut query = ctx.path[0].hash.clone();
    let mut genesis_vk = ctx.fam.genesis_vk;
    let mut serve_name: &'static str = "-";
    let mut pre_runs = vec![];
    let mut honest = false;
    let mut detail = json!({});
    match d {
        Desc::Identity => honest = true,
        Desc::SignedRuleBreak { kind, at } => {
            serve_name = "recompute_up";
            let (certs, q) = signed_rule_break(ctx, *kind, *at, rng)?;
            table = Table::new();
            for (req, c) in certs {
                table.insert(req, Arc::new(c));
            }
            query = q;
            genesis_vk = ctx.adv.genesis_vk();
            detail = json!({"broken_at_position_from_start": at, "epoch": ctx.path[*at].epoch.0,
                            "note": "every signature valid; verifier configured with the key that signed the genesis certificate"});
        }
        Desc::OffPath { victim, edit } => {
            let v = &ctx.fam.certs[*victim];
            let c = apply_edit(v, edit, ctx, rng)?;
            table.insert(v.hash.clone(), Arc::new(c));
            honest = true;
            detail = json!({"off_path_certificate": v.hash, "edit": edit.name()});
        }
        Desc::Edit { pos, edit, serve } => {
            serve_name = serve.name();
            let old = ctx.path[*pos].hash.clone();
            let mut c = apply_edit(&ctx.path[*pos], edit, ctx, rng)?;
            let edits_hash_field = matches!(edit, Edit::HashRandom | Edit::HashOfOther);
            match serve {
                Serve::NoRecompute => {
                    table.insert(old.clone(), Arc::new(c));
                }
                Serve::RecomputeSelf => {
                    rehash(&mut c)?;
                    table.insert(old.clone(), Arc::new(c));
                }
                Serve::RecomputeUp => {
                    if !edits_hash_field {
                        rehash(&mut c)?;
                    }
                    let mut p = owned_path(ctx);
                    p[*pos] = c;
                    relink_up(&mut p, *pos)?;
                    overlay(&mut table, &p, *pos);
                    query = p[0].hash.clone();
                }
            }
            detail = json!({"position_from_start": pos, "epoch": ctx.path[*pos].epoch.0, "original_hash": old, "edit": edit.name()});
        }
        Desc::AdvResign { pos, own_params, serve } => {
            serve_name = serve.name();
            let w = if *own_params { ctx.adv.shared(0) } else { ctx.adv.with_params(&ctx.path[*pos].metadata.protocol_parameters, rng)? };
            let orig = &ctx.path[*pos];
            // keeps the honest commitments for the next epoch: only this certificate changes hands
            let CertificateSignature::MultiSignature(entity, _) = &orig.signature else { return None };
            let ms = w.sign(orig.signed_message.as_bytes())?;
            let mut c = (**orig).clone();
            c.aggregate_verification_key = w.avk_concat();
            c.metadata.protocol_parameters = w.params.clone();
            c.metadata.signers = w.parties.clone();
            c.signature = CertificateSignature::MultiSignature(entity.clone(), ms);
            match serve {
                Serve::RecomputeUp => {
                    rehash(&mut c)?;
                    let mut p = owned_path(ctx);
                    p[*pos] = c;
                    relink_up(&mut p, *pos)?;
                    overlay(&mut table, &p, *pos);
                    query = p[0].hash.clone();
                }
                _ => {
                    table.insert(orig.hash.clone(), Arc::new(c));
                }
            }
            detail = json!({"position_from_start": pos, "epoch": orig.epoch.0});
        }
        Desc::AdvSuffix { upto, own_params, patch } => {
            serve_name = "recompute_up";
            let j = &ctx.path[*upto + 1];
            let same_epoch = j.epoch == ctx.path[*upto].epoch;
            // first build with the honest junction hash to learn the adversarial key at the junction
            let (mut suffix, ws) = adv_suffix(ctx, *upto, *own_params, &j.hash, rng)?;
            let wj = &ws[*upto];
            if *patch != Patch::None {
                let mut jc = (**j).clone();
                if same_epoch {
                    jc.aggregate_verification_key = wj.avk_concat();
                    jc.metadata.protocol_parameters = wj.params.clone();
                } else {
                    jc.protocol_message.set_message_part(K::NextAggregateVerificationKey, wj.avk_encoded());
                    jc.protocol_message.set_message_part(K::NextProtocolParameters, wj.params.compute_hash());
                }
                if matches!(patch, Patch::CommitSignedMessage | Patch::CommitRehash) {
                    jc.signed_message = jc.protocol_message.compute_hash();
                }
                if *patch == Patch::CommitRehash {
                    rehash(&mut jc)?;
                    // re-link the suffix onto the new junction hash
                    suffix[*upto].previous_hash = jc.hash.clone();
                    rehash(&mut suffix[*upto])?;
                    relink_up(&mut suffix, *upto)?;
                    table.insert(jc.hash.clone(), Arc::new(jc));
                } else {
                    table.insert(j.hash.clone(), Arc::new(jc));
                }
            }
            for c in &suffix {
                table.insert(c.hash.clone(), Arc::new(c.clone()));
            }
            query = suffix[0].hash.clone();
            detail = json!({"adversarial_certificates": upto + 1, "junction_epoch": j.epoch.0, "junction_is_genesis": j.is_genesis(),
                            "junction_same_epoch": same_epoch});
        }
        Desc::AdvWhole { kind } => {
            serve_name = "recompute_up";
            let g = &ctx.path[n];
            let w = ctx.adv.shared(0);
            let root: Certificate = match kind {
                Whole::OwnGenesis | Whole::OwnGenesisConfigured => {
                    chain::genesis_certificate(g.epoch, &w, &ctx.adv.genesis, &g.metadata.network, rng.next_u64() >> 8)?
                }
                Whole::OnGenuineGenesis => (**g).clone(),
                Whole::GenesisEpochUnsignedAvk => {
                    let mut gc = (**g).clone();
                    gc.aggregate_verification_key = w.avk_concat();
                    gc.metadata.protocol_parameters = w.params.clone();
                    rehash(&mut gc)?;
                    gc
                }
            };
            table.insert(root.hash.clone(), Arc::new(root.clone()));
            let mut root_hash = root.hash.clone();
            let mut extra = 0;
            if *kind == Whole::GenesisEpochUnsignedAvk {
                // an adversarial certificate INSIDE the genesis epoch, linked same-epoch to the patched genesis
                let a = chain::standard_certificate(
                    g.epoch,
                    &w,
                    &w.avk_encoded(),
                    &w.params,
                    chain::random_entity(g.epoch, rng),
                    &root_hash,
                    &g.metadata.network,
                    rng.next_u64() >> 8,
                )?;
                root_hash = a.hash.clone();
                table.insert(a.hash.clone(), Arc::new(a));
                extra = 1;
            }
            if n == 0 {
                query = root_hash;
            } else {
                let (suffix, _) = adv_suffix(ctx, n - 1, true, &root_hash, rng)?;
                for c in &suffix {
                    table.insert(c.hash.clone(), Arc::new(c.clone()));
                }
                query = suffix[0].hash.clone();
            }
            if *kind == Whole::OwnGenesisConfigured {
                genesis_vk = ctx.adv.genesis_vk();
                honest = true; // internally consistent chain under the configured key: must be accepted
            }
            detail = json!({"adversarial_certificates": n + extra, "genesis_epoch": g.epoch.0});
        }
        Desc::Relink { pos, target, recompute } => {
            let t = &ctx.fam.certs[*target];
            let mut p = owned_path(ctx);
            p[*pos].previous_hash = t.hash.clone();
            if *recompute {
                serve_name = "recompute_up";
                rehash(&mut p[*pos])?;
                relink_up(&mut p, *pos)?;
                overlay(&mut table, &p, *pos);
                query = p[0].hash.clone();
            } else {
                serve_name = "norecompute";
                table.insert(p[*pos].hash.clone(), Arc::new(p[*pos].clone()));
            }
            detail = json!({"position_from_start": pos, "certificate_epoch": ctx.path[*pos].epoch.0, "original_hash": ctx.path[*pos].hash,
                            "new_previous_hash": t.hash, "target_epoch": t.epoch.0, "target_is_genesis": t.is_genesis()});
        }
        Desc::Drop { pos } => {
            table.remove(&ctx.path[*pos].hash);
            detail = json!({"dropped_position": pos});
        }
        Desc::WrongAnswer { pos, other } => {
            table.insert(ctx.path[*pos].hash.clone(), ctx.fam.certs[*other].clone());
            detail = json!({"request": ctx.path[*pos].hash, "served": ctx.fam.certs[*other].hash, "position_from_start": pos});
        }
        Desc::SwapAnswers { a, b } => {
            table.insert(ctx.path[*a].hash.clone(), ctx.path[*b].clone());
            table.insert(ctx.path[*b].hash.clone(), ctx.path[*a].clone());
            detail = json!({"swapped_positions": [a, b]});
        }
        Desc::SelfLoop { pos } => {
            let mut c = (*ctx.path[*pos]).clone();
            c.previous_hash = c.hash.clone();
            table.insert(c.hash.clone(), Arc::new(c));
            detail = json!({"position_from_start": pos});
        }
        Desc::SelfAnswer { pos } => {
            table.insert(ctx.path[*pos].previous_hash.clone(), ctx.path[*pos].clone());
            detail = json!({"position_from_start": pos});
        }
        Desc::Cycle { pos, len } => {
            let last = *pos + *len - 1;
            let mut c = (*ctx.path[last]).clone();
            c.previous_hash = ctx.path[*pos].hash.clone();
            table.insert(c.hash.clone(), Arc::new(c));
            detail = json!({"cycle_from": pos, "cycle_length": len});
        }
        Desc::GenesisReplace { kind, recompute } => {
            let g = &ctx.path[n];
            let mut p = owned_path(ctx);
            let new_g: Certificate = match kind {
                GenKind::AdvSignedSame => {
                    let mut c = (**g).clone();
                    c.signature = CertificateSignature::GenesisSignature(ctx.adv.genesis.sign(c.signed_message.as_bytes()));
                    c
                }
                GenKind::OtherChainSameKey => (**ctx.other_genesis.as_ref()?).clone(),
                GenKind::AdvStandardInPlace => {
                    let w = ctx.adv.shared(0);
                    let mut c = chain::standard_certificate(
                        g.epoch,
                        &w,
                        g.protocol_message.get_message_part(&K::NextAggregateVerificationKey)?,
                        &w.params,
                        chain::random_entity(g.epoch, rng),
                        "",
                        &g.metadata.network,
                        rng.next_u64() >> 8,
                    )?;
                    c.hash = g.hash.clone();
                    c
                }
            };
            p[n] = new_g;
            if *recompute {
                serve_name = "recompute_up";
                if *kind != GenKind::OtherChainSameKey {
                    rehash(&mut p[n])?;
                }
                relink_up(&mut p, n)?;
                overlay(&mut table, &p, n);
                query = p[0].hash.clone();
            } else {
                serve_name = "norecompute";
                table.insert(g.hash.clone(), Arc::new(p[n].clone()));
            }
            detail = json!({"genesis_epoch": g.epoch.0});
        }
        Desc::Truncate { pos, serve_genesis_for_empty } => {
            serve_name = "recompute_up";
            let mut p = owned_path(ctx);
            p[*pos].previous_hash = String::new();
            rehash(&mut p[*pos])?;
            relink_up(&mut p, *pos)?;
            overlay(&mut table, &p, *pos);
            query = p[0].hash.clone();
            if *serve_genesis_for_empty {
                table.insert(String::new(), ctx.path[n].clone());
            }
            detail = json!({"position_from_start": pos});
        }
        Desc::CacheFakeBoundary { pos } => {
            // run 0: honest table, honest query (fills the cache with every link of the path)
            pre_runs.push((ctx.base.clone(), ctx.path[0].hash.clone()));
            // run 1: adversarial suffix down to `pos`, linked to a fake copy of path[pos+1] (cached hash)
            // which commits to the adversarial key; nothing of the copy is recomputed
            let j = &ctx.path[*pos + 1];
            let (suffix, ws) = adv_suffix(ctx, *pos, true, &j.hash, rng)?;
            let mut jc = (**j).clone();
            jc.protocol_message.set_message_part(K::NextAggregateVerificationKey, ws[*pos].avk_encoded());
            jc.protocol_message.set_message_part(K::NextProtocolParameters, ws[*pos].params.compute_hash());
            table.insert(j.hash.clone(), Arc::new(jc));
            for c in &suffix {
                table.insert(c.hash.clone(), Arc::new(c.clone()));
            }
            query = suffix[0].hash.clone();
            detail = json!({"adversarial_certificates": pos + 1, "fake_copy_of": j.hash, "fake_copy_epoch": j.epoch.0});
        }
        Desc::CachePoisonByRejectedRun { pos } => {
            // adversarial suffix path[0..=pos] whose last certificate A links to the hash of the honest
            // certificate X = path[pos+1] (previous epoch).
            let x = &ctx.path[*pos + 1];
            let (suffix, ws) = adv_suffix(ctx, *pos, true, &x.hash, rng)?;
            // run 0: for X's hash the provider serves a fake X' (hash field = X.hash, commits to the
            // adversarial key). Query = A (the bottom adversarial certificate): A verifies against X',
            // is stored in the cache, then X' fails its own integrity check -> run rejected.
            let mut fake = (**x).clone();
            fake.protocol_message.set_message_part(K::NextAggregateVerificationKey, ws[*pos].avk_encoded());
            fake.protocol_message.set_message_part(K::NextProtocolParameters, ws[*pos].params.compute_hash());
            let mut t0 = ctx.base.clone();
            t0.insert(x.hash.clone(), Arc::new(fake));
            for c in &suffix {
                t0.insert(c.hash.clone(), Arc::new(c.clone()));
            }
            pre_runs.push((t0, suffix[*pos].hash.clone()));
            // run 1: everything genuine is served genuinely; the adversarial suffix on top of it
            for c in &suffix {
                table.insert(c.hash.clone(), Arc::new(c.clone()));
            }
            query = suffix[0].hash.clone();
            detail = json!({"adversarial_certificates": pos + 1, "links_to_honest": x.hash, "honest_epoch": x.epoch.0});
        }
    }
    Some(Scenario { class, serve: serve_name, table, query, genesis_vk, detail, pre_runs, honest })
}
