//! Key material: a closed STM registration ("signer set") with its parameters, able to multi-sign.
//! Used for the honest per-epoch signer sets of harness-built chains AND for the adversary, which
//! owns its own signer sets and its own genesis key (it never holds an honest key).
use mithril_common::crypto_helper::{
    GenesisEd25519Signer, GenesisEd25519VerificationKey, ProtocolAggregateVerificationKey,
    ProtocolAggregateVerificationKeyForConcatenation, ProtocolMultiSignature,
};
use mithril_common::entities::{ProtocolParameters, StakeDistributionParty};
use mithril_stm::{
    AggregateSignatureType, AncillaryGenesisData, AncillaryProofInput, Clerk, Initializer, KeyRegistration,
    MithrilMembershipDigest, Parameters, RegistrationEntry, Signer,
};
use rand_chacha::ChaCha20Rng;
use std::cell::RefCell;
use std::collections::HashMap;
use std::sync::Arc;
use vcore::rnd;

pub type D = MithrilMembershipDigest;

#[allow(dead_code)]
pub struct EpochWorld {
    pub label: String,
    pub params: ProtocolParameters,
    pub stm_params: Parameters,
    pub signers: Vec<Signer<D>>,
    pub clerk: Clerk<D>,
    pub avk: ProtocolAggregateVerificationKey,
    pub parties: Vec<StakeDistributionParty>,
}

impl EpochWorld {
    pub fn build(label: &str, params: &ProtocolParameters, stakes: &[u64], rng: &mut ChaCha20Rng) -> Option<EpochWorld> {
        let stm_params: Parameters = params.clone().into();
        let mut kr = KeyRegistration::initialize();
        let mut inits = vec![];
        for &s in stakes {
            let p = Initializer::new(stm_params, s, rng);
            let e = RegistrationEntry::new(p.get_verification_key_proof_of_possession_for_concatenation(), s).ok()?;
            kr.register_by_entry(&e).ok()?;
            inits.push(p);
        }
        let closed = kr.close_registration(&stm_params).ok()?;
        let mut signers = vec![];
        for p in inits {
            signers.push(p.try_create_signer(&closed).ok()?);
        }
        let clerk = Clerk::new_clerk_from_closed_key_registration(&stm_params, &closed);
        let avk = clerk.compute_aggregate_verification_key();
        let parties = stakes
            .iter()
            .enumerate()
            .map(|(i, s)| StakeDistributionParty { party_id: format!("{label}-pool{i}"), stake: *s })
            .collect();
        Some(EpochWorld { label: label.to_string(), params: params.clone(), stm_params, signers, clerk, avk, parties })
    }

    pub fn avk_concat(&self) -> ProtocolAggregateVerificationKeyForConcatenation {
        self.avk.to_concatenation_aggregate_verification_key().to_owned().into()
    }

    pub fn avk_encoded(&self) -> String {
        self.avk_concat().to_json_hex().expect("avk encodes")
    }

    /// multi-signature of this signer set over `msg`; None when the quorum is not reached
    pub fn sign(&self, msg: &[u8]) -> Option<ProtocolMultiSignature> {
        let sigs: Vec<_> = self.signers.iter().filter_map(|s| s.create_single_signature(msg).ok()).collect();
        let (agg, _) = self
            .clerk
            .aggregate_signatures_with_type(
                &sigs,
                msg,
                AggregateSignatureType::Concatenation,
                AncillaryProofInput::new(None, AncillaryGenesisData::new()),
            )
            .ok()?;
        Some(agg.into())
    }
}

/// parameters with which a quorum is reached for (almost) every message
pub fn random_params(rng: &mut ChaCha20Rng) -> ProtocolParameters {
    let k = 1 + rnd::below(rng, 5);
    let m = 40 + rnd::below(rng, 80);
    let phi_f = *rnd::pick(rng, &[0.5, 0.65, 0.8, 0.95]);
    ProtocolParameters { k, m, phi_f }
}

pub fn random_stakes(rng: &mut ChaCha20Rng) -> Vec<u64> {
    let n = 1 + rnd::usize_below(rng, 5);
    (0..n).map(|_| 1 + rnd::below(rng, 1000)).collect()
}

pub fn random_world(label: &str, rng: &mut ChaCha20Rng) -> EpochWorld {
    loop {
        let p = random_params(rng);
        let s = random_stakes(rng);
        if let Some(w) = EpochWorld::build(label, &p, &s, rng) {
            return w;
        }
    }
}

/// The adversary: its own signer sets (two, so that it can also change keys between epochs) and
/// its own genesis key.
pub struct Adversary {
    pub worlds: Vec<Arc<EpochWorld>>,
    /// same keys and stakes as worlds[0] (hence the same AVK), different protocol parameters
    pub w0_other_params: Option<Arc<EpochWorld>>,
    pub genesis: GenesisEd25519Signer,
    by_params: RefCell<HashMap<String, Arc<EpochWorld>>>,
}

impl Adversary {
    pub fn new(rng: &mut ChaCha20Rng) -> Adversary {
        use rand_core::{RngCore, SeedableRng};
        // worlds[0] is built from a private seed so that it can be rebuilt with the same keys under other parameters
        let (w0, w0p) = loop {
            let mut seed = [0u8; 32];
            rng.fill_bytes(&mut seed);
            let p = random_params(rng);
            let s = random_stakes(rng);
            let Some(w0) = EpochWorld::build("adv0", &p, &s, &mut ChaCha20Rng::from_seed(seed)) else { continue };
            let mut p2 = p.clone();
            p2.k += 1;
            p2.m += 7;
            p2.phi_f = if p.phi_f > 0.7 { 0.65 } else { 0.8 };
            let w0p = EpochWorld::build("adv0p", &p2, &s, &mut ChaCha20Rng::from_seed(seed)).filter(|w| w.avk_encoded() == w0.avk_encoded());
            break (w0, w0p);
        };
        let worlds = vec![Arc::new(w0), Arc::new(random_world("adv1", rng))];
        let genesis = GenesisEd25519Signer::create_test_signer(&mut *rng);
        Adversary { worlds, w0_other_params: w0p.map(Arc::new), genesis, by_params: RefCell::new(HashMap::new()) }
    }
    pub fn genesis_vk(&self) -> GenesisEd25519VerificationKey {
        self.genesis.verification_key()
    }
    pub fn shared(&self, i: usize) -> Arc<EpochWorld> {
        self.worlds[i % self.worlds.len()].clone()
    }
    /// an adversarial signer set with parameters equal to `params` (so that only the keys differ)
    pub fn with_params(&self, params: &ProtocolParameters, rng: &mut ChaCha20Rng) -> Option<Arc<EpochWorld>> {
        let key = format!("{}/{}/{}", params.k, params.m, params.phi_f.to_bits());
        if let Some(w) = self.by_params.borrow().get(&key) {
            return Some(w.clone());
        }
        let stakes = random_stakes(rng);
        let w = Arc::new(EpochWorld::build("advp", params, &stakes, rng)?);
        self.by_params.borrow_mut().insert(key, w.clone());
        Some(w)
    }
}
