//! C10 — a restored Cardano database is accepted only if every file is the certified one.
//!
//! Code under test (real, through the public API of `mithril-client`):
//!   CardanoDatabaseClient::download_and_verify_digests  ->  ::verify_cardano_database  ->
//!   MessageBuilder::compute_cardano_database_message  ->  CertificateMessage::match_message
//! The certified material (digest list, Merkle root, protocol message) is produced by the real
//! `CardanoImmutableDigester` / `CardanoDatabaseSignableBuilder` from a database the harness writes.
//!
//! Oracle = ground truth computed by the harness from the bytes it wrote and the bytes it finds in
//! the final directory (own sha256, own listing, no code of /repo involved):
//!   accept  =>  every trio file of the requested range is present as a regular file (unless
//!               allow_missing)  and  sha256(dir[name]) == certified[name] for THAT name  and no other
//!               immutable-looking file sits in the range  and the digest values the client reports
//!               as verified are the certified ones, in the certified order;
//!   untouched directory + honest digest list + valid range  =>  accept   (completeness).
use crate::common::{self, Comp, Ent, Kind};
use mithril_cardano_node_internal_database::digesters::{CardanoImmutableDigester, ImmutableDigester};
use mithril_cardano_node_internal_database::signable_builder::CardanoDatabaseSignableBuilder;
use mithril_client::cardano_database_client::{
    CardanoDatabaseClient, CardanoDatabaseVerificationError, ImmutableFileRange,
};
use mithril_client::common::test::Dummy;
use mithril_client::common::{CardanoDbBeacon, DigestLocation, DigestsMessagePart, ProtocolMessagePartKey};
use mithril_client::{CardanoDatabaseSnapshot, MessageBuilder, MithrilCertificate};
use mithril_common::signable_builder::SignableBuilder;
use rand_chacha::ChaCha20Rng;
use serde_json::{json, Value};
use std::collections::{BTreeMap, BTreeSet};
use std::path::{Path, PathBuf};
use std::sync::Arc;
use vcore::rnd;
use vcore::Monitor;

const EXTS: [&str; 3] = ["chunk", "primary", "secondary"];

fn fname(n: u64, ext: &str) -> String {
    format!("{n:05}.{ext}")
}
fn trio(n: u64) -> Vec<String> {
    EXTS.iter().map(|e| fname(n, e)).collect()
}

pub struct World {
    pub id: String,
    pub orig: PathBuf,
    pub first: u64,
    pub beacon: u64,
    pub on_disk_last: u64,
    pub contents: BTreeMap<String, Vec<u8>>,
    /// name -> sha256 hex, for immutable numbers first..=beacon (harness's own hashing)
    pub certified: BTreeMap<String, String>,
    /// certified digest values in the order the signer committed to them (number, then name)
    pub certified_seq: Vec<String>,
    /// what an honest aggregator serves: (name, digest) for everything it has digested (may go beyond the beacon)
    pub honest_list: Vec<(String, String)>,
    pub cert: MithrilCertificate,
    pub root_hex: String,
    pub dup_world: bool,
    pub big_numbers: bool,
}

#[derive(Clone, Debug)]
pub enum RangeForm {
    Full,
    From(u64),
    UpTo(u64),
    Range(u64, u64),
}

impl RangeForm {
    fn to_client(&self) -> ImmutableFileRange {
        match self {
            RangeForm::Full => ImmutableFileRange::Full,
            RangeForm::From(a) => ImmutableFileRange::From(*a),
            RangeForm::UpTo(b) => ImmutableFileRange::UpTo(*b),
            RangeForm::Range(a, b) => ImmutableFileRange::Range(*a, *b),
        }
    }
    /// the range as the statement means it (first immutable of a Cardano database is 0); None = invalid request
    fn numbers(&self, beacon: u64) -> Option<(u64, u64)> {
        match self {
            RangeForm::Full => Some((0, beacon)),
            RangeForm::From(a) if *a <= beacon => Some((*a, beacon)),
            RangeForm::UpTo(b) if *b <= beacon => Some((0, *b)),
            RangeForm::Range(a, b) if a <= b && *b <= beacon => Some((*a, *b)),
            _ => None,
        }
    }
    fn label(&self) -> &'static str {
        match self {
            RangeForm::Full => "full",
            RangeForm::From(_) => "from",
            RangeForm::UpTo(_) => "upto",
            RangeForm::Range(..) => "inner",
        }
    }
    fn json(&self) -> Value {
        match self {
            RangeForm::Full => json!("Full"),
            RangeForm::From(a) => json!({"From": a}),
            RangeForm::UpTo(b) => json!({"UpTo": b}),
            RangeForm::Range(a, b) => json!({"Range": [a, b]}),
        }
    }
}

#[derive(Clone, Debug)]
pub enum DirOp {
    Flip { name: String, offset: usize },
    Truncate { name: String, new_len: usize },
    Append { name: String, extra: usize },
    Delete { name: String },
    Swap { a: String, b: String },
    CopyOver { src: String, dst: String },
    Foreign { name: String, len: usize },
    Rewrite { name: String, data: Vec<u8>, why: String },
    ExtraFile { rel: String, len: usize },
    Alias { alias: String, content_of: Option<String>, len: usize },
    DirInPlace { name: String },
    SymlinkInPlace { name: String, target: String, target_content_of: Option<String> },
    /// a second directory named `immutable`, holding the pristine files, created BEFORE <db>/immutable
    DecoyFirst { parent: String },
}

impl DirOp {
    fn json(&self) -> Value {
        match self {
            DirOp::Flip { name, offset } => json!({"flip_byte": name, "offset": offset}),
            DirOp::Truncate { name, new_len } => json!({"truncate": name, "new_len": new_len}),
            DirOp::Append { name, extra } => json!({"append": name, "bytes": extra}),
            DirOp::Delete { name } => json!({"delete": name}),
            DirOp::Swap { a, b } => json!({"swap_contents": [a, b]}),
            DirOp::CopyOver { src, dst } => json!({"copy_certified_content_of": src, "over": dst}),
            DirOp::Foreign { name, len } => json!({"foreign_bytes_under": name, "len": len}),
            DirOp::Rewrite { name, data, why } => json!({"rewrite": name, "len": data.len(), "sha256": common::sha256_hex(data), "why": why}),
            DirOp::ExtraFile { rel, len } => json!({"extra_file": rel, "len": len}),
            DirOp::Alias { alias, content_of, len } => json!({"immutable_like_alias": alias, "content_of": content_of, "len": len}),
            DirOp::DirInPlace { name } => json!({"directory_in_place_of": name}),
            DirOp::SymlinkInPlace { name, target, target_content_of } => json!({"symlink_in_place_of": name, "target": target, "target_has_content_of": target_content_of}),
            DirOp::DecoyFirst { parent } => json!({"pristine_copy_of_all_immutables_created_first_at": format!("{parent}/immutable")}),
        }
    }
}

#[derive(Clone, Debug)]
pub enum ListOp {
    Honest,
    /// the served list given explicitly (after the tampering named by `what`)
    Tampered { what: String, detail: Value, list: Vec<(String, String)> },
    RawBody { what: String, body: Vec<u8> },
}

pub struct Case {
    pub class: String,
    pub range: RangeForm,
    pub allow_missing: bool,
    pub dir_ops: Vec<DirOp>,
    pub list_op: ListOp,
    pub loc_kind: u8,
}

// ---------------------------------------------------------------------------------------------
// world construction

fn gen_content(rng: &mut ChaCha20Rng, allow_empty: bool) -> Vec<u8> {
    let c = rnd::below(rng, 100);
    let len = if c < 4 && allow_empty {
        0
    } else if c < 25 {
        rnd::range(rng, 1, 64)
    } else if c < 65 {
        rnd::range(rng, 64, 1024)
    } else {
        rnd::range(rng, 1024, 8192)
    } as usize;
    rnd::bytes(rng, len)
}

pub async fn build_world(rng: &mut ChaCha20Rng, base: &Path, id: &str, force_big: bool) -> Result<World, String> {
    let dir = base.join(id);
    let orig = dir.join("orig");
    let imm = orig.join("immutable");
    std::fs::create_dir_all(&imm).map_err(|e| e.to_string())?;
    // dense world: every trio from 0 up to just beyond 100000 (tiny files), to cross the point where the
    // zero-padded five-digit names stop sorting like the numbers
    let big_numbers = force_big;
    let n_trios = if big_numbers {
        100_000 + rnd::range(rng, 2, 4)
    } else {
        *rnd::pick(rng, &[3u64, 3, 4, 5, 6, 7, 8, 10, 12, 16, 24, 40])
    };
    let first = 0u64;
    let beacon = first + n_trios - 1;
    let extra_on_disk = rnd::below(rng, 3);
    let on_disk_last = beacon + extra_on_disk;
    let dup_world = !big_numbers && rnd::chance(rng, 1, 5);
    let mut contents: BTreeMap<String, Vec<u8>> = BTreeMap::new();
    let mut seen: BTreeSet<Vec<u8>> = BTreeSet::new();
    for n in first..=on_disk_last {
        for e in EXTS {
            let mut data;
            loop {
                data = if big_numbers { rnd::bytes(rng, 8) } else { gen_content(rng, dup_world) };
                if big_numbers {
                    break;
                }
                if dup_world && !contents.is_empty() && rnd::chance(rng, 1, 6) {
                    let k = rnd::usize_below(rng, contents.len());
                    data = contents.values().nth(k).unwrap().clone();
                }
                if dup_world || !seen.contains(&data) {
                    break;
                }
            }
            if !big_numbers {
                seen.insert(data.clone());
            }
            let name = fname(n, e);
            common::write_file(&imm.join(&name), &data);
            contents.insert(name, data);
        }
    }
    // a real database also has other things around
    common::write_file(&orig.join("ledger").join("4242"), b"ledger state");
    common::write_file(&orig.join("protocolMagicId"), b"2");

    let logger = common::discard_logger();
    let digester = Arc::new(CardanoImmutableDigester::new(None, logger.clone()));
    let computed = digester
        .compute_digests_for_range(&orig, &(first..=on_disk_last))
        .await
        .map_err(|e| format!("digester: {e:?}"))?
        .entries;
    let mut honest_all: Vec<(u64, String, String)> =
        computed.iter().map(|(f, d)| (f.number, f.filename.clone(), d.clone())).collect();
    honest_all.sort();
    // harness's own hashing must agree with the digester (else the harness does not understand the digest: inconclusive)
    for (_, name, d) in &honest_all {
        let own = common::sha256_hex(contents.get(name).ok_or_else(|| format!("digester lists unknown file {name}"))?);
        if &own != d {
            return Err(format!("digester digest of {name} is not sha256(content)"));
        }
    }
    if honest_all.len() != contents.len() {
        return Err("digester did not list every immutable file written".into());
    }
    let certified: BTreeMap<String, String> = honest_all
        .iter()
        .filter(|(n, _, _)| *n <= beacon)
        .map(|(_, name, d)| (name.clone(), d.clone()))
        .collect();
    let certified_seq: Vec<String> =
        honest_all.iter().filter(|(n, _, _)| *n <= beacon).map(|(_, _, d)| d.clone()).collect();
    let serve_beyond = rnd::chance(rng, 1, 2);
    let honest_list: Vec<(String, String)> = honest_all
        .iter()
        .filter(|(n, _, _)| serve_beyond || *n <= beacon)
        .map(|(_, name, d)| (name.clone(), d.clone()))
        .collect();

    let beacon_e = CardanoDbBeacon::new(rnd::range(rng, 1, 500), beacon);
    let pm = CardanoDatabaseSignableBuilder::new(digester.clone(), &orig, logger)
        .compute_protocol_message(beacon_e.clone())
        .await
        .map_err(|e| format!("signable builder: {e:?}"))?;
    let root_hex = pm
        .get_message_part(&ProtocolMessagePartKey::CardanoDatabaseMerkleRoot)
        .cloned()
        .ok_or("no merkle root in the protocol message")?;
    let mut cert = MithrilCertificate::dummy();
    cert.hash = format!("cert-{id}");
    cert.protocol_message = pm.clone();
    cert.signed_message = pm.compute_hash();
    Ok(World {
        id: id.to_string(),
        orig,
        first,
        beacon,
        on_disk_last,
        contents,
        certified,
        certified_seq,
        honest_list,
        cert,
        root_hex,
        dup_world,
        big_numbers,
    })
}

// ---------------------------------------------------------------------------------------------
// case generation

fn names_in(w: &World, lo: u64, hi: u64) -> Vec<String> {
    (lo.max(w.first)..=hi.min(w.beacon)).flat_map(trio).collect()
}

fn gen_range(rng: &mut ChaCha20Rng, w: &World) -> RangeForm {
    let (f, b) = (w.first, w.beacon);
    if w.big_numbers {
        let a = rnd::range(rng, 99_990, b);
        return if rnd::chance(rng, 1, 2) { RangeForm::From(a) } else { RangeForm::Range(a, rnd::range(rng, a, b)) };
    }
    match rnd::below(rng, 4) {
        0 => RangeForm::Full,
        1 => RangeForm::From(rnd::range(rng, f, b)),
        2 => RangeForm::UpTo(rnd::range(rng, f, b)),
        _ => {
            let a = rnd::range(rng, f, b);
            RangeForm::Range(a, rnd::range(rng, a, b))
        }
    }
}

/// two names of the given set whose certified contents differ
fn two_different(rng: &mut ChaCha20Rng, w: &World, a_set: &[String], b_set: &[String]) -> Option<(String, String)> {
    for _ in 0..40 {
        let a = rnd::pick(rng, a_set).clone();
        let b = rnd::pick(rng, b_set).clone();
        if a != b && w.contents[&a] != w.contents[&b] {
            return Some((a, b));
        }
    }
    None
}

pub const DIR_CLASSES: &[&str] = &[
    "flip", "truncate", "append", "delete", "swap_in_range", "swap_across_range", "copy_over",
    "copy_over_from_out_of_range", "foreign", "extra_files", "alias_certified_content", "alias_foreign_content",
    "dir_in_place", "symlink_to_other_certified", "symlink_to_outside_foreign", "symlink_to_same_content",
    "out_of_range_tamper", "beyond_beacon_tamper", "multi", "decoy_immutable_dir", "out_of_range_delete_plus_in_range_tamper",
];
pub const LIST_CLASSES: &[&str] = &[
    "list_reorder", "list_rename_order_preserving", "list_rename_arbitrary", "list_drop", "list_add_in_range",
    "list_add_beyond_beacon", "list_add_unparsable", "list_duplicate_entry", "list_alter_digest",
    "list_swap_digests", "list_empty", "list_invalid_json", "coordinated_modify", "coordinated_rank_shift",
];

fn gen_dir_op(rng: &mut ChaCha20Rng, w: &World, class: &str, lo: u64, hi: u64) -> Option<Vec<DirOp>> {
    let inr = names_in(w, lo, hi);
    if inr.is_empty() {
        return None;
    }
    let all_cert: Vec<String> = w.certified.keys().cloned().collect();
    let out_of_range: Vec<String> = all_cert.iter().filter(|n| !inr.contains(n)).cloned().collect();
    let pick_nonempty = |rng: &mut ChaCha20Rng| -> Option<String> {
        for _ in 0..30 {
            let n = rnd::pick(rng, &inr).clone();
            if !w.contents[&n].is_empty() {
                return Some(n);
            }
        }
        None
    };
    Some(match class {
        "flip" => {
            let name = pick_nonempty(rng)?;
            let offset = rnd::usize_below(rng, w.contents[&name].len());
            vec![DirOp::Flip { name, offset }]
        }
        "truncate" => {
            let name = pick_nonempty(rng)?;
            let l = w.contents[&name].len();
            let new_len = if rnd::chance(rng, 1, 3) { l - 1 } else { rnd::usize_below(rng, l) };
            vec![DirOp::Truncate { name, new_len }]
        }
        "append" => vec![DirOp::Append { name: rnd::pick(rng, &inr).clone(), extra: rnd::range(rng, 1, 64) as usize }],
        "delete" => {
            let mut v = vec![DirOp::Delete { name: rnd::pick(rng, &inr).clone() }];
            if rnd::chance(rng, 1, 4) {
                // a whole trio
                let n = rnd::range(rng, lo.max(w.first), hi.min(w.beacon));
                v = trio(n).into_iter().map(|name| DirOp::Delete { name }).collect();
            }
            v
        }
        "swap_in_range" => {
            let (a, b) = two_different(rng, w, &inr, &inr)?;
            vec![DirOp::Swap { a, b }]
        }
        "swap_across_range" => {
            if out_of_range.is_empty() {
                return None;
            }
            let (a, b) = two_different(rng, w, &inr, &out_of_range)?;
            vec![DirOp::Swap { a, b }]
        }
        "copy_over" => {
            let (dst, src) = two_different(rng, w, &inr, &inr)?;
            vec![DirOp::CopyOver { src, dst }]
        }
        "copy_over_from_out_of_range" => {
            if out_of_range.is_empty() {
                return None;
            }
            let (dst, src) = two_different(rng, w, &inr, &out_of_range)?;
            vec![DirOp::CopyOver { src, dst }]
        }
        "foreign" => vec![DirOp::Foreign { name: rnd::pick(rng, &inr).clone(), len: rnd::range(rng, 0, 4096) as usize }],
        "extra_files" => {
            let cands = [
                "immutable/README.txt", "immutable/notes", "ledger/99999", "volatile/blocks-0.dat", "evil.sh",
                "immutable/00001.chunk.bak", "immutable/sub/00001.chunk", "lock",
            ];
            let k = rnd::range(rng, 1, 3);
            (0..k)
                .map(|_| DirOp::ExtraFile { rel: rnd::pick(rng, &cands).to_string(), len: rnd::range(rng, 0, 512) as usize })
                .collect()
        }
        "alias_certified_content" | "alias_foreign_content" => {
            let n = rnd::range(rng, lo.max(w.first), hi.min(w.beacon));
            let ext = *rnd::pick(rng, &EXTS[..]);
            let alias = match rnd::below(rng, 4) {
                0 if n >= 1 => format!("{n}.{ext}"),
                1 => format!("{n:06}.{ext}"),
                2 => format!("+{n:05}.{ext}"),
                _ => format!("{n:07}.{ext}"),
            };
            if w.contents.contains_key(&alias) {
                return None;
            }
            if class == "alias_certified_content" {
                vec![DirOp::Alias { alias, content_of: Some(rnd::pick(rng, &all_cert).clone()), len: 0 }]
            } else {
                vec![DirOp::Alias { alias, content_of: None, len: rnd::range(rng, 1, 512) as usize }]
            }
        }
        "dir_in_place" => vec![DirOp::DirInPlace { name: rnd::pick(rng, &inr).clone() }],
        "symlink_to_other_certified" => {
            let (name, other) = two_different(rng, w, &inr, &all_cert)?;
            vec![DirOp::SymlinkInPlace { name, target: other.clone(), target_content_of: Some(other) }]
        }
        "symlink_to_outside_foreign" => {
            let name = rnd::pick(rng, &inr).clone();
            vec![DirOp::SymlinkInPlace { name, target: "../stash/foreign.bin".into(), target_content_of: None }]
        }
        "symlink_to_same_content" => {
            let name = rnd::pick(rng, &inr).clone();
            vec![DirOp::SymlinkInPlace { name: name.clone(), target: "../stash/same.bin".into(), target_content_of: Some(name) }]
        }
        "out_of_range_tamper" => {
            if out_of_range.is_empty() {
                return None;
            }
            let name = rnd::pick(rng, &out_of_range).clone();
            match rnd::below(rng, 3) {
                0 => vec![DirOp::Delete { name }],
                1 => vec![DirOp::Foreign { name, len: rnd::range(rng, 0, 512) as usize }],
                _ => vec![DirOp::Append { name, extra: 3 }],
            }
        }
        "out_of_range_delete_plus_in_range_tamper" => {
            // two cooperating edits: the listing outside the requested range loses 1-2 files (an
            // incomplete trio just below / above the range, or anywhere outside), and a file at the
            // boundary of the range (its first or last file, or any) is altered. A selection of the
            // files to hash that depends on what lies outside the range only shows with both.
            if out_of_range.is_empty() {
                return None;
            }
            let mut v = vec![];
            let below: Vec<String> = if lo > 0 { trio(lo - 1).into_iter().filter(|n| out_of_range.contains(n)).collect() } else { vec![] };
            let above: Vec<String> = trio(hi + 1).into_iter().filter(|n| out_of_range.contains(n)).collect();
            let k = rnd::range(rng, 1, 2);
            for _ in 0..k {
                let pool = match rnd::below(rng, 4) {
                    0 | 1 if !below.is_empty() => &below,
                    2 if !above.is_empty() => &above,
                    _ => &out_of_range,
                };
                let name = rnd::pick(rng, pool).clone();
                if !v.iter().any(|o| matches!(o, DirOp::Delete { name: n } if *n == name)) {
                    v.push(DirOp::Delete { name });
                }
            }
            let mut sorted = inr.clone();
            sorted.sort();
            let target = match rnd::below(rng, 4) {
                0 | 1 => sorted.first().cloned()?,
                2 => sorted.last().cloned()?,
                _ => rnd::pick(rng, &inr).clone(),
            };
            let l = w.contents[&target].len();
            v.push(match rnd::below(rng, 3) {
                0 if l > 0 => DirOp::Flip { name: target, offset: rnd::usize_below(rng, l) },
                1 => DirOp::Foreign { name: target, len: rnd::range(rng, 0, 2048) as usize },
                _ => DirOp::Append { name: target, extra: rnd::range(rng, 1, 64) as usize },
            });
            v
        }
        "beyond_beacon_tamper" => {
            let n = w.beacon + rnd::range(rng, 1, 3);
            let name = fname(n, *rnd::pick(rng, &EXTS[..]));
            vec![DirOp::Foreign { name, len: rnd::range(rng, 0, 512) as usize }]
        }
        "decoy_immutable_dir" => {
            let parent = rnd::pick(rng, &["0", "backup", "ledger", "aaa/bbb", ".cache"]).to_string();
            let name = rnd::pick(rng, &inr).clone();
            vec![DirOp::DecoyFirst { parent }, DirOp::Foreign { name, len: rnd::range(rng, 1, 2048) as usize }]
        }
        "multi" => {
            let mut v = vec![];
            let k = rnd::range(rng, 2, 4);
            for _ in 0..k {
                let c = *rnd::pick(rng, &["flip", "delete", "swap_in_range", "copy_over", "foreign", "extra_files", "append"]);
                if let Some(mut ops) = gen_dir_op(rng, w, c, lo, hi) {
                    v.append(&mut ops);
                }
            }
            if v.is_empty() {
                return None;
            }
            v
        }
        _ => return None,
    })
}

fn random_digest(rng: &mut ChaCha20Rng) -> String {
    hex::encode(rnd::bytes(rng, 32))
}

/// returns (list op, accompanying directory ops)
fn gen_list_op(rng: &mut ChaCha20Rng, w: &World, class: &str, lo: u64, hi: u64) -> Option<(ListOp, Vec<DirOp>)> {
    let mut list = w.honest_list.clone();
    let inr = names_in(w, lo, hi);
    let le_beacon: Vec<usize> = (0..list.len()).filter(|i| w.certified.contains_key(&list[*i].0)).collect();
    let mut dir_ops = vec![];
    let detail;
    match class {
        "list_reorder" => {
            rnd::shuffle(rng, &mut list);
            detail = json!("entries shuffled");
        }
        "list_rename_order_preserving" => {
            // a name that parses as an immutable of the same number and keeps its rank among the names
            let i = *rnd::pick(rng, &le_beacon);
            let old = list[i].0.clone();
            let (stem, ext) = old.split_once('.')?;
            let new = match ext {
                "chunk" => format!("{stem}.chunl"),
                "primary" => format!("{stem}.primarz"),
                _ => format!("{stem}.secondarz"),
            };
            list[i].0 = new.clone();
            detail = json!({"renamed": old, "to": new});
        }
        "list_rename_arbitrary" => {
            let i = *rnd::pick(rng, &le_beacon);
            let j = *rnd::pick(rng, &le_beacon);
            if i == j || list[i].1 == list[j].1 {
                return None;
            }
            // exchange two names (= exchange the digests assigned to them)
            let (a, b) = (list[i].0.clone(), list[j].0.clone());
            list[i].0 = b.clone();
            list[j].0 = a.clone();
            detail = json!({"names_exchanged": [a, b]});
        }
        "list_drop" => {
            let i = *rnd::pick(rng, &le_beacon);
            let (n, _) = list.remove(i);
            detail = json!({"dropped": n});
        }
        "list_add_in_range" => {
            let n = rnd::range(rng, w.first, w.beacon);
            let name = format!("{n:05}.{}", rnd::pick(rng, &["extra", "chunk2", "aaa"]));
            let pos = rnd::usize_below(rng, list.len() + 1);
            list.insert(pos, (name.clone(), random_digest(rng)));
            detail = json!({"added": name});
        }
        "list_add_beyond_beacon" => {
            let n = w.on_disk_last + rnd::range(rng, 1, 50);
            let name = fname(n, *rnd::pick(rng, &EXTS[..]));
            list.push((name.clone(), random_digest(rng)));
            detail = json!({"added": name});
        }
        "list_add_unparsable" => {
            let name = rnd::pick(rng, &["README", "abc.chunk", "00001", ".chunk", "-1.chunk"]).to_string();
            let pos = rnd::usize_below(rng, list.len() + 1);
            list.insert(pos, (name.clone(), random_digest(rng)));
            detail = json!({"added": name});
        }
        "list_duplicate_entry" => {
            let i = *rnd::pick(rng, &le_beacon);
            let name = list[i].0.clone();
            let first_wins_position = rnd::chance(rng, 1, 2);
            if first_wins_position {
                list.insert(0, (name.clone(), random_digest(rng)));
            } else {
                list.push((name.clone(), random_digest(rng)));
            }
            detail = json!({"duplicated": name, "forged_copy_first": first_wins_position});
        }
        "list_alter_digest" => {
            let i = *rnd::pick(rng, &le_beacon);
            let mut b = hex::decode(&list[i].1).ok()?;
            let k = rnd::usize_below(rng, b.len());
            b[k] ^= 1 << rnd::below(rng, 8);
            list[i].1 = hex::encode(b);
            detail = json!({"digest_bit_flipped_for": list[i].0});
        }
        "list_swap_digests" => {
            let i = *rnd::pick(rng, &le_beacon);
            let j = *rnd::pick(rng, &le_beacon);
            if list[i].1 == list[j].1 {
                return None;
            }
            let t = list[i].1.clone();
            list[i].1 = list[j].1.clone();
            list[j].1 = t;
            detail = json!({"digests_exchanged_between": [list[i].0, list[j].0]});
        }
        "list_empty" => {
            list.clear();
            detail = json!("empty list");
        }
        "list_invalid_json" => {
            return Some((ListOp::RawBody { what: class.into(), body: b"[{\"immutable_file_name\": \"00000.chunk\", ".to_vec() }, vec![]));
        }
        "coordinated_modify" => {
            // the mirror modifies a file and serves a digest list that vouches for the modification
            if inr.is_empty() {
                return None;
            }
            let name = rnd::pick(rng, &inr).clone();
            let mut data = w.contents[&name].clone();
            if data.is_empty() {
                data.push(7);
            } else {
                let k = rnd::usize_below(rng, data.len());
                data[k] ^= 0x40;
            }
            let i = list.iter().position(|(n, _)| *n == name)?;
            list[i].1 = common::sha256_hex(&data);
            dir_ops.push(DirOp::Rewrite { name: name.clone(), data, why: "modified, digest list updated accordingly".into() });
            detail = json!({"list_entry_updated_for": name});
        }
        "coordinated_rank_shift" => {
            // requested range [a, b] with a > first. The three entries of trio a-1 are renamed to names that
            // sort right after trio b (still parsing as immutable number b): every in-range NAME now sits one
            // trio lower in rank, i.e. is assigned the digest certified for the same file of the previous trio,
            // while the sequence of digest values (all the signed root commits to) is unchanged. The directory
            // is rearranged to match: file (k, ext) holds the certified content of (k-1, ext).
            if w.big_numbers || lo <= w.first || lo > hi || hi > w.beacon {
                return None;
            }
            let mut new_list = vec![];
            for (name, d) in &list {
                let (stem, ext) = name.split_once('.')?;
                let n: u64 = stem.parse().ok()?;
                if n == lo - 1 {
                    let idx = EXTS.iter().position(|e| *e == ext)?;
                    new_list.push((format!("{hi:05}.t{idx}"), d.clone()));
                } else {
                    new_list.push((name.clone(), d.clone()));
                }
            }
            // re-assign: sorted names <-> unchanged value sequence
            let mut names: Vec<String> = new_list.iter().map(|(n, _)| n.clone()).collect();
            names.sort();
            let mut values: Vec<(String, String)> = list.clone();
            values.sort();
            if names.len() != values.len() {
                return None;
            }
            list = names.into_iter().zip(values.into_iter().map(|(_, d)| d)).collect();
            let mut changed = false;
            for k in lo..=hi {
                for e in EXTS {
                    let data = w.contents[&fname(k - 1, e)].clone();
                    if data != w.contents[&fname(k, e)] {
                        changed = true;
                    }
                    dir_ops.push(DirOp::Rewrite { name: fname(k, e), data, why: format!("holds the certified content of {}", fname(k - 1, e)) });
                }
            }
            if !changed {
                return None;
            }
            detail = json!({"trio_renamed_out_of_the_way": lo - 1, "renamed_to_suffixes_of": hi});
        }
        _ => return None,
    }
    Some((ListOp::Tampered { what: class.to_string(), detail, list }, dir_ops))
}

pub fn gen_case(rng: &mut ChaCha20Rng, w: &World, class: &str) -> Option<Case> {
    let mut range = gen_range(rng, w);
    if class == "coordinated_rank_shift" {
        if w.beacon < w.first + 1 || w.big_numbers {
            return None;
        }
        let a = rnd::range(rng, w.first + 1, w.beacon);
        let b = rnd::range(rng, a, w.beacon);
        range = if b == w.beacon && rnd::chance(rng, 1, 2) { RangeForm::From(a) } else { RangeForm::Range(a, b) };
    }
    if matches!(class, "swap_across_range" | "copy_over_from_out_of_range" | "out_of_range_tamper") && matches!(range, RangeForm::Full) {
        let a = rnd::range(rng, w.first, w.beacon);
        range = RangeForm::Range(a, rnd::range(rng, a, w.beacon));
    }
    let (lo, hi) = range.numbers(w.beacon)?;
    let allow_missing = rnd::chance(rng, 1, 4);
    let loc_kind = rnd::below(rng, 4) as u8;
    if class == "none" {
        return Some(Case { class: class.into(), range, allow_missing, dir_ops: vec![], list_op: ListOp::Honest, loc_kind });
    }
    if DIR_CLASSES.contains(&class) {
        let dir_ops = gen_dir_op(rng, w, class, lo, hi)?;
        return Some(Case { class: class.into(), range, allow_missing, dir_ops, list_op: ListOp::Honest, loc_kind });
    }
    let (list_op, dir_ops) = gen_list_op(rng, w, class, lo, hi)?;
    Some(Case { class: class.into(), range, allow_missing, dir_ops, list_op, loc_kind })
}

// ---------------------------------------------------------------------------------------------
// applying a case

fn apply_dir_ops(rng: &mut ChaCha20Rng, w: &World, db: &Path, ops: &[DirOp]) {
    let imm = db.join("immutable");
    let read = |name: &str| std::fs::read(imm.join(name)).unwrap_or_default();
    for op in ops {
        match op {
            DirOp::Flip { name, offset } => {
                let mut d = read(name);
                if *offset < d.len() {
                    d[*offset] ^= 0x01;
                    common::write_file(&imm.join(name), &d);
                }
            }
            DirOp::Truncate { name, new_len } => {
                let mut d = read(name);
                d.truncate(*new_len);
                common::write_file(&imm.join(name), &d);
            }
            DirOp::Append { name, extra } => {
                let mut d = read(name);
                d.extend(rnd::bytes(rng, *extra));
                common::write_file(&imm.join(name), &d);
            }
            DirOp::Delete { name } => {
                let _ = std::fs::remove_file(imm.join(name));
            }
            DirOp::Swap { a, b } => {
                let (da, dbb) = (read(a), read(b));
                common::write_file(&imm.join(a), &dbb);
                common::write_file(&imm.join(b), &da);
            }
            DirOp::CopyOver { src, dst } => {
                common::write_file(&imm.join(dst), &w.contents[src]);
            }
            DirOp::Foreign { name, len } => {
                common::write_file(&imm.join(name), &rnd::bytes(rng, *len));
            }
            DirOp::Rewrite { name, data, .. } => {
                common::write_file(&imm.join(name), data);
            }
            DirOp::ExtraFile { rel, len } => {
                common::write_file(&db.join(rel), &rnd::bytes(rng, *len));
            }
            DirOp::Alias { alias, content_of, len } => {
                let data = match content_of {
                    Some(n) => w.contents[n].clone(),
                    None => rnd::bytes(rng, *len),
                };
                common::write_file(&imm.join(alias), &data);
            }
            DirOp::DirInPlace { name } => {
                let _ = std::fs::remove_file(imm.join(name));
                let _ = std::fs::create_dir_all(imm.join(name));
            }
            DirOp::DecoyFirst { .. } => {} // done before the database was copied
            DirOp::SymlinkInPlace { name, target, target_content_of } => {
                let _ = std::fs::remove_file(imm.join(name));
                if target.starts_with("../stash/") {
                    let data = match target_content_of {
                        Some(n) => w.contents[n].clone(),
                        None => rnd::bytes(rng, 333),
                    };
                    common::write_file(&imm.join(target), &data);
                }
                let _ = std::os::unix::fs::symlink(target, imm.join(name));
            }
        }
    }
}

/// write what the mirror serves for the digests and return the locations
fn serve_digests(dir: &Path, list: &ListOp, honest: &[(String, String)], loc_kind: u8) -> (DigestsMessagePart, Value) {
    let body: Vec<u8> = match list {
        ListOp::Honest => list_json(honest),
        ListOp::Tampered { list, .. } => list_json(list),
        ListOp::RawBody { body, .. } => body.clone(),
    };
    let _ = std::fs::create_dir_all(dir);
    let (locations, how) = match loc_kind {
        0 => {
            let p = dir.join("digests.json");
            common::write_file(&p, &body);
            (vec![DigestLocation::Aggregator { uri: common::file_uri(&p) }], "aggregator route, plain json")
        }
        1 => {
            let p = dir.join("digests-cloud.json");
            common::write_file(&p, &body);
            (vec![DigestLocation::CloudStorage { uri: common::file_uri(&p), compression_algorithm: None }], "cloud storage, plain json")
        }
        2 | 3 => {
            let c = if loc_kind == 2 { Comp::Gzip } else { Comp::Zstd };
            let p = dir.join(format!("digests.{}", c.ext()));
            common::write_file(&p, &common::compress(&common::build_tar(&[Ent::file("digests.json", &body)]), c));
            (
                vec![
                    // an unknown location kind and a dead location first: the client must skip them
                    DigestLocation::Unknown,
                    DigestLocation::CloudStorage { uri: common::file_uri(&p), compression_algorithm: Some(c.algo()) },
                ],
                if loc_kind == 2 { "cloud storage, tar.gz" } else { "cloud storage, tar.zst" },
            )
        }
        _ => unreachable!(),
    };
    (DigestsMessagePart { size_uncompressed: body.len() as u64, locations }, json!(how))
}

fn list_json(list: &[(String, String)]) -> Vec<u8> {
    let v: Vec<Value> = list.iter().map(|(n, d)| json!({"immutable_file_name": n, "digest": d})).collect();
    serde_json::to_vec(&v).unwrap()
}

// ---------------------------------------------------------------------------------------------
// running the real client

#[derive(Debug)]
pub enum Outcome {
    DigestsRejected(String),
    VerifyRejected { kind: String, missing: Vec<String>, tampered: Vec<String>, non_verifiable: Vec<String>, text: String },
    MessageMismatch,
    Accepted,
}

impl Outcome {
    fn label(&self) -> &'static str {
        match self {
            Outcome::DigestsRejected(_) => "digests_rejected",
            Outcome::VerifyRejected { .. } => "verify_rejected",
            Outcome::MessageMismatch => "message_mismatch",
            Outcome::Accepted => "accepted",
        }
    }
    fn json(&self) -> Value {
        match self {
            Outcome::DigestsRejected(e) => json!({"download_and_verify_digests": "Err", "error": e}),
            Outcome::VerifyRejected { kind, missing, tampered, non_verifiable, text } => json!({
                "download_and_verify_digests": "Ok", "verify_cardano_database": "Err", "kind": kind,
                "missing": missing, "tampered": tampered, "non_verifiable": non_verifiable, "error": text}),
            Outcome::MessageMismatch => json!({"download_and_verify_digests": "Ok", "verify_cardano_database": "Ok", "match_message": false}),
            Outcome::Accepted => json!({"download_and_verify_digests": "Ok", "verify_cardano_database": "Ok", "match_message": true}),
        }
    }
}

pub struct Observed {
    pub outcome: Outcome,
    /// name -> digest map the client reports as verified (step 1), when it accepted the list
    pub verified_digests: Option<BTreeMap<String, String>>,
}

async fn run_client(
    client: &CardanoDatabaseClient,
    cert: &MithrilCertificate,
    snap: &CardanoDatabaseSnapshot,
    range: &ImmutableFileRange,
    allow_missing: bool,
    db: &Path,
) -> Observed {
    let vd = match client.download_and_verify_digests(cert, snap).await {
        Ok(vd) => vd,
        Err(e) => {
            return Observed { outcome: Outcome::DigestsRejected(common::short(&format!("{e:#}"), 300)), verified_digests: None }
        }
    };
    let reported = Some(vd.digests.clone());
    let proof = match client.verify_cardano_database(cert, snap, range, allow_missing, db, &vd).await {
        Ok(p) => p,
        Err(e) => {
            let (kind, missing, tampered, non_verifiable) = match &e {
                CardanoDatabaseVerificationError::ImmutableFilesVerification(l) => {
                    ("ImmutableFilesVerification", l.missing.clone(), l.tampered.clone(), l.non_verifiable.clone())
                }
                CardanoDatabaseVerificationError::DigestsComputation(_) => ("DigestsComputation", vec![], vec![], vec![]),
                CardanoDatabaseVerificationError::MerkleProofVerification(_) => ("MerkleProofVerification", vec![], vec![], vec![]),
                CardanoDatabaseVerificationError::ImmutableFilesRangeCreation(_) => ("ImmutableFilesRangeCreation", vec![], vec![], vec![]),
            };
            return Observed {
                outcome: Outcome::VerifyRejected { kind: kind.into(), missing, tampered, non_verifiable, text: common::short(&format!("{e}"), 300) },
                verified_digests: reported,
            };
        }
    };
    let message = match MessageBuilder::new().compute_cardano_database_message(cert, &proof).await {
        Ok(m) => m,
        Err(_) => return Observed { outcome: Outcome::MessageMismatch, verified_digests: reported },
    };
    if cert.match_message(&message) {
        Observed { outcome: Outcome::Accepted, verified_digests: reported }
    } else {
        Observed { outcome: Outcome::MessageMismatch, verified_digests: reported }
    }
}

// ---------------------------------------------------------------------------------------------
// ground truth

#[derive(Default, Debug)]
pub struct Truth {
    pub missing: Vec<String>,
    pub dir_in_place: Vec<String>,
    /// (name, cause) with cause in: modified | certified_content_of:<other name> | symlink_to_other_content
    pub wrong: Vec<(String, String)>,
    pub aliases: Vec<String>,
}

impl Truth {
    fn must_reject(&self, allow_missing: bool) -> bool {
        (!allow_missing && (!self.missing.is_empty() || !self.dir_in_place.is_empty())) || !self.wrong.is_empty() || !self.aliases.is_empty()
    }
    fn json(&self) -> Value {
        json!({"missing_in_range": self.missing, "directory_in_place_of_file": self.dir_in_place,
               "content_differs_from_certified_for_that_name": self.wrong, "non_certified_immutable_like_names_in_range": self.aliases})
    }
}

fn ground_truth(w: &World, db: &Path, lo: u64, hi: u64) -> Truth {
    let listing = common::list_tree(&db.join("immutable"));
    let mut t = Truth::default();
    let by_digest: BTreeMap<&String, &String> = w.certified.iter().map(|(n, d)| (d, n)).collect();
    for n in lo..=hi {
        for name in trio(n) {
            let Some(cert) = w.certified.get(&name) else {
                // the statement's range starts at 0; a database without that file cannot satisfy it
                t.missing.push(name);
                continue;
            };
            match listing.get(&name) {
                None => t.missing.push(name),
                Some(e) => match e.kind {
                    Kind::File => {
                        let sha = e.sha.clone().unwrap_or_default();
                        if &sha != cert {
                            let cause = match by_digest.get(&sha) {
                                Some(other) => format!("certified_content_of:{other}"),
                                None => "modified".to_string(),
                            };
                            t.wrong.push((name, cause));
                        }
                    }
                    Kind::Dir | Kind::Other => t.dir_in_place.push(name),
                    Kind::Symlink => match &e.sha {
                        None => t.missing.push(name),
                        Some(sha) if sha != cert => t.wrong.push((name, "symlink_to_other_content".into())),
                        Some(_) => {}
                    },
                },
            }
        }
    }
    // anything else in immutable/ that looks like an immutable file of the range
    for (name, e) in &listing {
        if name.contains('/') || w.certified.contains_key(name) || e.kind == Kind::Dir {
            continue;
        }
        if let Some((stem, ext)) = name.rsplit_once('.') {
            if EXTS.contains(&ext) {
                let s = stem.strip_prefix('+').unwrap_or(stem);
                if !s.is_empty() && s.bytes().all(|b| b.is_ascii_digit()) {
                    if let Ok(n) = s.parse::<u64>() {
                        if n >= lo && n <= hi {
                            t.aliases.push(name.clone());
                        }
                    }
                }
            }
        }
    }
    t
}

// ---------------------------------------------------------------------------------------------
// one case: apply, run, judge

pub fn run_case(
    rt: &tokio::runtime::Runtime,
    client: &CardanoDatabaseClient,
    m: &mut Monitor,
    rng: &mut ChaCha20Rng,
    w: &World,
    case: &Case,
    work: &Path,
    ident: Value,
) {
    let _ = common::force_remove(work);
    // the dense 100000-trio world is only used untouched, in place (copying 300000 files per case is pointless)
    let in_place = w.big_numbers && case.dir_ops.is_empty();
    if w.big_numbers && !in_place {
        m.count("not_applicable.tampering_in_dense_world");
        return;
    }
    let db = if in_place { w.orig.clone() } else { work.join("db") };
    for op in &case.dir_ops {
        if let DirOp::DecoyFirst { parent } = op {
            for (name, data) in &w.contents {
                common::write_file(&db.join(parent).join("immutable").join(name), data);
            }
        }
    }
    if !in_place {
        if let Err(e) = common::copy_tree(&w.orig, &db) {
            m.inconclusive(&format!("harness: cannot copy the database: {e}"));
            return;
        }
    }
    apply_dir_ops(rng, w, &db, &case.dir_ops);
    let (digests_part, how_served) = serve_digests(&work.join("srv"), &case.list_op, &w.honest_list, case.loc_kind);
    let mut snap = CardanoDatabaseSnapshot::dummy();
    snap.hash = format!("snapshot-{}", w.id);
    snap.merkle_root = w.root_hex.clone();
    snap.beacon = CardanoDbBeacon::new(7, w.beacon);
    snap.certificate_hash = w.cert.hash.clone();
    snap.digests = digests_part;
    let range = case.range.to_client();
    let (lo, hi) = case.range.numbers(w.beacon).expect("generated ranges are valid");

    let obs = match vcore::catch(|| rt.block_on(run_client(client, &w.cert, &snap, &range, case.allow_missing, &db))) {
        Ok(o) => o,
        Err(p) => {
            m.count("client_panicked");
            m.inconclusive(&format!("client panicked in case class {}: {}", case.class, common::short(&p, 200)));
            return;
        }
    };
    m.eval();
    // (untouched in-place directory of the dense world: the harness wrote it, nothing to re-hash)
    let truth = if in_place { Truth::default() } else { ground_truth(w, &db, lo, hi) };
    let must_reject_dir = truth.must_reject(case.allow_missing);
    let accepted = matches!(obs.outcome, Outcome::Accepted);
    m.count(&format!("class.{}.{}", case.class, obs.outcome.label()));
    m.count(&format!("range.{}.{}", case.range.label(), if accepted { "accepted" } else { "rejected" }));
    m.count(&format!("served.{}", how_served.as_str().unwrap_or("?")));
    if case.allow_missing {
        m.count("allow_missing_cases");
    }

    // what the client reports as verified digests, against the certificate's own sequence
    let mut list_values_ok = true;
    if let Some(vd) = &obs.verified_digests {
        let vals: Vec<String> = vd.values().cloned().collect();
        list_values_ok = vals == w.certified_seq;
        let names_ok = vd.keys().eq(w.certified.keys());
        if !matches!(case.list_op, ListOp::Honest) {
            m.count(&format!("tampered_list_accepted_by_step1.{}.{}", case.class, if names_ok { "names_as_certified" } else { "names_differ" }));
        }
    }

    let replay = json!({
        "ident": ident,
        "world": {"id": w.id, "first_immutable": w.first, "beacon_immutable": w.beacon, "last_on_disk": w.on_disk_last,
                  "files": if w.big_numbers { vec![json!("300000+ files of 8 random bytes, trios 0..=beacon")] } else { w.contents.iter().map(|(n, d)| json!({"name": n, "size": d.len(), "sha256": common::sha256_hex(d)})).collect::<Vec<_>>() },
                  "signed_merkle_root": w.root_hex, "identical_contents_present": w.dup_world},
        "requested_range": case.range.json(), "range_numbers": [lo, hi], "allow_missing": case.allow_missing,
        "directory_tampering": case.dir_ops.iter().map(|o| o.json()).collect::<Vec<_>>(),
        "digest_list": match &case.list_op {
            ListOp::Honest => json!("honest"),
            ListOp::Tampered { what, detail, list } => json!({"tampering": what, "detail": detail,
                "served": list.iter().map(|(n, d)| json!([n, d])).collect::<Vec<_>>()}),
            ListOp::RawBody { what, body } => json!({"tampering": what, "body": String::from_utf8_lossy(body)}),
        },
        "digests_served_as": how_served,
        "outcome": obs.outcome.json(),
        "ground_truth": truth.json(),
    });

    let untouched = case.dir_ops.is_empty() && matches!(case.list_op, ListOp::Honest);
    let nontrivial = must_reject_dir || !list_values_ok || untouched;
    if nontrivial {
        let key = format!(
            "{}|{}|{:?}|{}|{:?}|{}",
            w.root_hex,
            case.class,
            case.range,
            case.allow_missing,
            case.dir_ops.iter().map(|o| o.json().to_string()).collect::<Vec<_>>(),
            match &case.list_op {
                ListOp::Honest => "honest".to_string(),
                ListOp::Tampered { list, .. } => common::sha256_hex(&list_json(list)),
                ListOp::RawBody { what, .. } => what.clone(),
            }
        );
        m.nontrivial_str(&key);
        m.count(if untouched { "nontrivial.completeness" } else { "nontrivial.must_reject" });
    }
    if m.wants_sample() && (must_reject_dir || untouched) && rnd::chance(rng, 1, 6) {
        m.sample(json!({"class": case.class, "requested_range": case.range.json(), "allow_missing": case.allow_missing,
            "trios_certified": w.beacon - w.first + 1,
            "directory_tampering": case.dir_ops.iter().map(|o| o.json()).collect::<Vec<_>>(),
            "digest_list": match &case.list_op { ListOp::Honest => json!("honest"), ListOp::Tampered { what, detail, .. } => json!({"tampering": what, "detail": detail}), ListOp::RawBody { what, .. } => json!(what) },
            "ground_truth": truth.json(), "outcome": obs.outcome.json()}));
    }

    // ---- soundness
    if accepted && must_reject_dir {
        let sig = classify(case, &truth);
        let what = format!(
            "database of {} certified trios, range {:?} (allow_missing={}), class {}: client accepted although {}",
            w.beacon - w.first + 1,
            case.range,
            case.allow_missing,
            case.class,
            describe_truth(&truth, case.allow_missing)
        );
        m.count(&format!("flagged.{}", sig.trim_start_matches("C10 ")));
        m.violation(sig, &what, replay.clone());
    }
    if obs.verified_digests.is_some() && !list_values_ok {
        m.count("flagged.digest list not reproducing the signed Merkle root accepted");
        m.violation(
            "C10 digest list not reproducing the signed Merkle root accepted",
            &format!("download_and_verify_digests returned Ok for a served list ({}) whose digest values are not the certified sequence", case.class),
            replay.clone(),
        );
    }
    // ---- completeness
    if untouched && !accepted {
        let sig = if w.big_numbers {
            "C10 untouched directory rejected (database with more than 100000 immutable trios: names sort differently from the signed order)"
        } else if w.dup_world {
            "C10 untouched directory rejected (database with identical immutable file contents)"
        } else {
            "C10 untouched directory rejected"
        };
        m.count(&format!("flagged.{}", sig.trim_start_matches("C10 ")));
        m.violation(
            sig,
            &format!("untouched copy of the certified database, honest digest list, range {:?}, allow_missing={}: outcome {}", case.range, case.allow_missing, obs.outcome.json()),
            replay.clone(),
        );
    }
    // ---- bookkeeping about reports on rejection (not judged)
    if let Outcome::VerifyRejected { kind, missing, tampered, non_verifiable, .. } = &obs.outcome {
        if kind == "ImmutableFilesVerification" && must_reject_dir {
            let reported: BTreeSet<&String> = missing.iter().chain(tampered.iter()).chain(non_verifiable.iter()).collect();
            let mut bad: BTreeSet<&String> = truth.wrong.iter().map(|(n, _)| n).collect();
            if !case.allow_missing {
                bad.extend(truth.missing.iter());
            }
            bad.extend(truth.aliases.iter());
            m.count(if bad.iter().all(|n| reported.contains(n)) { "rejection_report.names_all_bad_files" } else { "rejection_report.incomplete" });
        }
    }
}

fn describe_truth(t: &Truth, allow_missing: bool) -> String {
    let mut parts = vec![];
    if !allow_missing && !t.missing.is_empty() {
        parts.push(format!("in-range files are missing: {:?}", t.missing));
    }
    if !allow_missing && !t.dir_in_place.is_empty() {
        parts.push(format!("a directory sits in place of: {:?}", t.dir_in_place));
    }
    if !t.wrong.is_empty() {
        parts.push(format!("sha256 of these in-range files differs from the digest certified for that name: {:?}", t.wrong));
    }
    if !t.aliases.is_empty() {
        parts.push(format!("non-certified immutable-looking files are in the range: {:?}", t.aliases));
    }
    parts.join("; ")
}

fn classify(case: &Case, t: &Truth) -> &'static str {
    match case.class.as_str() {
        "coordinated_rank_shift" => return "C10 digest list renamed and directory rearranged accordingly accepted (signed root does not bind file names)",
        "coordinated_modify" => return "C10 digest list not reproducing the signed Merkle root accepted",
        "decoy_immutable_dir" => return "C10 modified immutable file accepted (another directory named immutable was digested instead)",
        _ => {}
    }
    if let Some((_, cause)) = t.wrong.first() {
        if cause.starts_with("certified_content_of:") {
            return match case.class.as_str() {
                "swap_in_range" | "swap_across_range" => "C10 content swapped between two certified file names accepted",
                "copy_over" | "copy_over_from_out_of_range" => "C10 certified content copied over another file name accepted",
                "symlink_to_other_certified" => "C10 symlink in place of an immutable file accepted",
                _ => "C10 certified content under another file name accepted",
            };
        }
        if cause == "symlink_to_other_content" {
            return "C10 symlink in place of an immutable file accepted";
        }
        return "C10 modified immutable file accepted";
    }
    if !case.allow_missing && !t.dir_in_place.is_empty() {
        return "C10 directory in place of an immutable file accepted";
    }
    if !case.allow_missing && !t.missing.is_empty() {
        return "C10 missing immutable file accepted";
    }
    "C10 file under a non-certified immutable-like name accepted"
}

// ---------------------------------------------------------------------------------------------
// shard driver

pub fn case_plan(rng: &mut ChaCha20Rng, per_world: usize) -> Vec<String> {
    // every world: the four untouched completeness cases first, then every class once, then random ones
    let mut plan: Vec<String> = vec!["none".into(); 5];
    for c in DIR_CLASSES.iter().chain(LIST_CLASSES.iter()) {
        plan.push(c.to_string());
    }
    while plan.len() < per_world {
        let heavy = ["swap_in_range", "copy_over", "flip", "delete", "coordinated_rank_shift", "truncate", "foreign", "multi", "out_of_range_delete_plus_in_range_tamper"];
        let c = if rnd::chance(rng, 1, 2) {
            rnd::pick(rng, &heavy).to_string()
        } else if rnd::chance(rng, 1, 2) {
            rnd::pick(rng, DIR_CLASSES).to_string()
        } else {
            rnd::pick(rng, LIST_CLASSES).to_string()
        };
        plan.push(c);
    }
    plan.truncate(per_world.max(5));
    plan
}

pub fn run_shard(shard: u64, m: &mut Monitor, worlds: usize, per_world: usize, only: Option<(usize, usize)>, dense_world: bool) {
    let base = common::shard_dir(shard);
    let _ = common::force_remove(&base);
    if let Err(e) = std::fs::create_dir_all(&base) {
        m.inconclusive(&format!("harness: cannot create {}: {e}", base.display()));
        return;
    }
    let rt = common::runtime();
    let client = common::build_client(None);
    let db_client = client.cardano_database_v2();
    // thorough tier: shard 0 ends with one dense world of 100000+ trios (completeness cases only)
    let total_worlds = if dense_world && shard == 0 { worlds + 1 } else { worlds };
    for wi in 0..total_worlds {
        if let Some((ow, _)) = only {
            if ow != wi {
                continue;
            }
        }
        let mut wrng = m.rng("c10-world", (shard << 20) | wi as u64);
        let id = format!("s{shard}w{wi}");
        let force_big = wi == worlds;
        let w = match rt.block_on(build_world(&mut wrng, &base, &id, force_big)) {
            Ok(w) => w,
            Err(e) => {
                m.inconclusive(&format!("harness: world {id}: {e}"));
                continue;
            }
        };
        m.count("worlds");
        m.count(&format!("world.trios.{}", match w.beacon - w.first + 1 { 0..=4 => "3-4", 5..=8 => "5-8", 9..=16 => "9-16", 17..=40 => "17-40", _ => "100000+" }));
        if w.dup_world {
            m.count("world.with_identical_contents");
        }
        if w.big_numbers {
            m.count("world.dense_100000_trios");
        }
        let plan = if w.big_numbers { vec!["none".to_string(); 5] } else { case_plan(&mut wrng, per_world) };
        for (ci, class) in plan.iter().enumerate() {
            if let Some((_, oc)) = only {
                if oc != ci {
                    continue;
                }
            }
            let mut crng = m.rng("c10-case", (shard << 40) | ((wi as u64) << 20) | ci as u64);
            // completeness cases: force each range form once
            let case = if class == "none" && ci < 5 {
                let (f, b) = (w.first, w.beacon);
                let a = if w.big_numbers { rnd::range(&mut crng, 99_990, b) } else { rnd::range(&mut crng, f, b) };
                let range = match ci {
                    0 => RangeForm::Full,
                    1 => RangeForm::From(a),
                    2 => RangeForm::UpTo(a),
                    3 => RangeForm::Range(a, rnd::range(&mut crng, a, b)),
                    _ if w.big_numbers => RangeForm::Range(99_998, 100_001),
                    _ => RangeForm::Range(f, b),
                };
                Some(Case { class: "none".into(), range, allow_missing: rnd::chance(&mut crng, 1, 4), dir_ops: vec![], list_op: ListOp::Honest, loc_kind: (ci % 4) as u8 })
            } else {
                gen_case(&mut crng, &w, class)
            };
            let Some(case) = case else {
                m.count(&format!("not_applicable.{class}"));
                continue;
            };
            let ident = json!({"seed": m.seed, "shard": shard, "world": wi, "case": ci, "rerun": format!("mon-client C10 --only {shard}:{wi}:{ci}")});
            run_case(&rt, &db_client, m, &mut crng, &w, &case, &base.join("work"), ident);
        }
        let _ = common::force_remove(&base.join(&w.id));
    }
    drop(db_client);
    drop(client);
    drop(rt);
    let _ = common::force_remove(&base);
}
