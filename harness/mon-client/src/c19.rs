//! C19 — only verified immutables and manifest-vouched ancillary files get restored.
//!
//! Code under test: `CardanoDatabaseClient::download_unpack` of the working tree, with the real
//! `HttpFileDownloader` reading archives the harness built (tar + gzip / zstd, raw entry names) from
//! file:// locations, the real `AncillaryVerifier`, the real post-download clean-up.
//!
//! Oracle (ground truth, harness-side): recursive lstat listing (path, kind, size, sha256) of the target
//! directory before and after the call. Every file-like entry that is new or changed must be
//!   (i)   `immutable/<NNNNN>.{chunk,primary,secondary}` as a regular file with NNNNN in the requested range, or
//!   (ii)  a bootstrap marker the client itself writes (`clean` empty, `protocolMagicId` = magic id), or
//!   (iii) a regular file whose (path, sha256) is in the manifest data that the harness's TRUSTED signer
//!         signed, when ancillaries were requested and the served ancillary archive is valid by construction;
//! nothing pre-existing may disappear; nothing may appear outside the target directory; no `ancillary-*`
//! scratch directory may remain.
use crate::common::{self, Comp, Ent, Entry, Kind};
use mithril_client::cardano_database_client::{CardanoDatabaseClient, DownloadUnpackOptions, ImmutableFileRange};
use mithril_client::common::test::Dummy;
use mithril_client::common::{
    AncillaryLocation, AncillaryMessagePart, CardanoDbBeacon, ImmutablesLocation, ImmutablesMessagePart, MultiFilesUri,
    TemplateUri,
};
use mithril_client::CardanoDatabaseSnapshot;
use mithril_common::crypto_helper::ManifestSigner;
use rand_chacha::ChaCha20Rng;
use rand_core::SeedableRng;
use serde_json::{json, Value};
use sha2::{Digest, Sha256};
use std::collections::BTreeMap;
use std::path::{Path, PathBuf};
use vcore::rnd;
use vcore::Monitor;

pub const RULE: &str = "cases = one CardanoDatabaseClient::download_unpack call each: beacon 1-7, range Full / From / UpTo / inner Range, include_ancillary on/off, allow_override on/off, 1-20 parallel downloads, networks preview / mainnet / preprod / devnet / private, target directory empty / with user files / an existing database; one archive per requested immutable (tar.gz or tar.zst, 1-2 locations) plus one ancillary archive (next immutable trio + legacy or in-memory ledger snapshot + manifest signed with the harness's trusted Ed25519 key). Hostile immutable archives: entries under ledger/, volatile/, other directories, top-level files, entries shadowing clean / protocolMagicId, nested immutable/immutable, junk inside immutable/, trio files outside the requested range (below, next trio, far beyond), bare directories, symlinks (also written through), hard links, absolute and `..` paths, entries overwriting user files, hostile first location with honest fallback. Hostile ancillary archives: unlisted extra files, listed content altered, manifest entry added / removed / re-hashed, signature altered / removed / made with another key, manifest missing / invalid, listed file absent, adjacent manifest entries merged across the key/hash boundary (same signed hash), listed file replaced by a symlink, `..` / absolute entries, truncated, garbage, move blocked by a directory in the way, no key configured, ancillary not requested. Faults: truncated / garbage / missing immutable archive with and without fallback location. Non-trivial = a case whose served material contains something the oracle would have to flag if it were kept, or a fault; distinct = distinct (class, options, entry lists).";

const EXTS: [&str; 3] = ["chunk", "primary", "secondary"];

fn fname(n: u64, ext: &str) -> String {
    format!("{n:05}.{ext}")
}

/// random bytes of a random length in [lo, hi]
fn rb(rng: &mut ChaCha20Rng, lo: u64, hi: u64) -> Vec<u8> {
    let n = rnd::range(rng, lo, hi) as usize;
    rnd::bytes(rng, n)
}

#[derive(Clone, Debug, PartialEq)]
enum Side {
    Honest,
    Imm,
    Anc,
    Fault,
}

#[derive(Clone, Debug)]
enum Corrupt {
    None,
    Truncate(usize),
    Garbage,
    Absent,
}

#[derive(Clone, Debug)]
struct ArchiveSpec {
    entries: Vec<Ent>,
    comp: Comp,
    corrupt: Corrupt,
}

impl ArchiveSpec {
    fn json(&self) -> Value {
        json!({"compression": format!("{:?}", self.comp), "corruption": format!("{:?}", self.corrupt),
               "entries": self.entries.iter().map(|e| e.json()).collect::<Vec<_>>()})
    }
    fn write(&self, path: &Path) {
        if matches!(self.corrupt, Corrupt::Absent) {
            return;
        }
        let mut bytes = common::compress(&common::build_tar(&self.entries), self.comp);
        match self.corrupt {
            Corrupt::Truncate(permille) => {
                let keep = (bytes.len() * permille / 1000).max(1).min(bytes.len().saturating_sub(1));
                bytes.truncate(keep);
            }
            Corrupt::Garbage => {
                let n = bytes.len();
                for (i, b) in bytes.iter_mut().enumerate() {
                    if i > n / 3 {
                        *b = (*b).wrapping_mul(31).wrapping_add(i as u8);
                    }
                }
            }
            _ => {}
        }
        common::write_file(path, &bytes);
    }
}

struct CaseSpec {
    class: String,
    side: Side,
    last: u64,
    range: ImmutableFileRange,
    range_json: Value,
    lo: u64,
    hi: u64,
    include_ancillary: bool,
    allow_override: bool,
    max_parallel: usize,
    network: String,
    key_configured: bool,
    pre_existing: Vec<(String, Vec<u8>)>,
    pre_dirs: Vec<String>,
    /// per immutable number: archive for location 0 and optional archive for location 1
    imm: BTreeMap<u64, (ArchiveSpec, Option<ArchiveSpec>)>,
    imm_comps: (Comp, Comp),
    anc: (ArchiveSpec, Option<ArchiveSpec>),
    /// data (path -> sha256) the trusted signer signed
    signed_entries: BTreeMap<String, String>,
    served_manifest: Value,
    anc_valid_by_construction: bool,
    /// honest expectations for completeness of honest cases
    honest_files: BTreeMap<String, Vec<u8>>,
    sentinels: Vec<PathBuf>,
    note: String,
}

fn manifest_hash(data: &BTreeMap<String, String>) -> Vec<u8> {
    let mut h = Sha256::new();
    for (k, v) in data {
        h.update(k.as_bytes());
        h.update(v.as_bytes());
    }
    h.finalize().to_vec()
}

fn manifest_json(data: &BTreeMap<String, String>, signature: Option<Value>) -> Value {
    let mut m = serde_json::Map::new();
    m.insert("data".into(), json!(data));
    if let Some(s) = signature {
        m.insert("signature".into(), s);
    }
    Value::Object(m)
}

pub const IMM_CLASSES: &[&str] = &[
    "imm_ledger", "imm_volatile", "imm_top_level", "imm_shadow_marker", "imm_nested_immutable", "imm_junk_in_immutable",
    "imm_out_of_range_low", "imm_next_trio", "imm_far_beyond", "imm_other_dir", "imm_dirs_only", "imm_symlink",
    "imm_symlink_write_through", "imm_hardlink", "imm_absolute_path", "imm_dotdot", "imm_overwrite_user_file",
    "imm_fallback_hostile_first",
];
pub const ANC_CLASSES: &[&str] = &[
    "anc_extra_unlisted", "anc_content_altered", "anc_manifest_entry_added", "anc_manifest_entry_removed",
    "anc_manifest_rehashed", "anc_signature_altered", "anc_signature_removed", "anc_other_key", "anc_manifest_missing",
    "anc_manifest_invalid_json", "anc_listed_file_absent", "anc_merged_entries", "anc_listed_as_symlink",
    "anc_dotdot_absolute", "anc_truncated", "anc_garbage", "anc_move_blocked", "anc_no_key_configured",
    "anc_not_requested", "anc_fallback_after_truncated",
];
pub const FAULT_CLASSES: &[&str] = &["imm_truncated", "imm_garbage", "imm_absent", "imm_fallback_after_truncated"];
pub const HONEST_CLASSES: &[&str] = &["honest_no_ancillary", "honest_with_ancillary", "honest_existing_db"];

fn gen_case(rng: &mut ChaCha20Rng, class: &str, trusted: &ManifestSigner, other: &ManifestSigner, work: &Path) -> Option<CaseSpec> {
    let last = rnd::range(rng, 1, 7);
    let mut include_ancillary = match class {
        c if c.starts_with("anc_") => c != "anc_not_requested",
        "honest_no_ancillary" => false,
        "honest_with_ancillary" => true,
        _ => rnd::chance(rng, 1, 2),
    };
    // ancillaries need the beacon's immutable in the range
    let (range, range_json, lo, hi) = loop {
        let (r, j, lo, hi) = match rnd::below(rng, 4) {
            0 => (ImmutableFileRange::Full, json!("Full"), 0, last),
            1 => {
                let a = rnd::range(rng, 0, last);
                (ImmutableFileRange::From(a), json!({"From": a}), a, last)
            }
            2 => {
                let b = rnd::range(rng, 0, last);
                (ImmutableFileRange::UpTo(b), json!({"UpTo": b}), 0, b)
            }
            _ => {
                let a = rnd::range(rng, 0, last);
                let b = rnd::range(rng, a, last);
                (ImmutableFileRange::Range(a, b), json!({"Range": [a, b]}), a, b)
            }
        };
        if class == "imm_out_of_range_low" && lo == 0 && hi == last {
            continue;
        }
        if include_ancillary && hi != last {
            if class.starts_with("anc_") || class == "honest_with_ancillary" {
                continue;
            }
            include_ancillary = false;
        }
        break (r, j, lo, hi);
    };
    let network = rnd::pick(rng, &["preview", "preview", "mainnet", "preprod", "devnet", "private"]).to_string();
    let max_parallel = *rnd::pick(rng, &[1usize, 2, 3, 20]);
    let mut allow_override = rnd::chance(rng, 1, 3);
    let mut pre_existing: Vec<(String, Vec<u8>)> = vec![];
    let mut pre_dirs: Vec<String> = vec![];
    let existing_db = class == "honest_existing_db" || rnd::chance(rng, 1, 5);
    if existing_db {
        allow_override = true;
        for n in 0..=rnd::range(rng, 0, last + 1) {
            for e in EXTS {
                pre_existing.push((format!("immutable/{}", fname(n, e)), rnd::bytes(rng, 40)));
            }
        }
        pre_existing.push(("immutable/user_note.txt".into(), b"keep me".to_vec()));
        pre_existing.push(("ledger/old-snapshot".into(), rnd::bytes(rng, 64)));
        pre_existing.push(("volatile/blocks-0.dat".into(), rnd::bytes(rng, 64)));
        pre_existing.push(("clean".into(), vec![]));
        pre_existing.push(("protocolMagicId".into(), b"2".to_vec()));
    }
    if existing_db || rnd::chance(rng, 1, 3) || class == "imm_overwrite_user_file" {
        pre_existing.push(("notes.txt".into(), b"user notes".to_vec()));
        pre_existing.push(("configuration/config.json".into(), b"{\"user\": true}".to_vec()));
    }

    // honest material
    let mut honest_files: BTreeMap<String, Vec<u8>> = BTreeMap::new();
    let c0 = if rnd::chance(rng, 1, 2) { Comp::Gzip } else { Comp::Zstd };
    let c1 = if rnd::chance(rng, 1, 2) { Comp::Gzip } else { Comp::Zstd };
    let mut imm: BTreeMap<u64, (ArchiveSpec, Option<ArchiveSpec>)> = BTreeMap::new();
    for n in lo..=hi {
        let mut entries = vec![];
        if rnd::chance(rng, 1, 2) {
            entries.push(Ent::Dir { path: "immutable/".into() });
        }
        for e in EXTS {
            let len = rnd::range(rng, 0, 2048) as usize;
            let data = rnd::bytes(rng, len);
            let p = format!("immutable/{}", fname(n, e));
            entries.push(Ent::file(&p, &data));
            honest_files.insert(p, data);
        }
        imm.insert(n, (ArchiveSpec { entries, comp: c0, corrupt: Corrupt::None }, None));
    }
    // honest ancillary: next trio + ledger snapshot, manifest signed by the trusted key
    let mut anc_files: BTreeMap<String, Vec<u8>> = BTreeMap::new();
    for e in EXTS {
        anc_files.insert(format!("immutable/{}", fname(last + 1, e)), rb(rng, 1, 512));
    }
    let slot = rnd::range(rng, 100, 99999);
    if rnd::chance(rng, 1, 2) {
        anc_files.insert(format!("ledger/{slot}"), rb(rng, 1, 2048));
        if rnd::chance(rng, 1, 2) {
            anc_files.insert(format!("ledger/{}", slot + 100), rb(rng, 1, 2048));
        }
    } else {
        anc_files.insert(format!("ledger/{slot}/meta"), rnd::bytes(rng, 64));
        anc_files.insert(format!("ledger/{slot}/state"), rb(rng, 1, 2048));
        anc_files.insert(format!("ledger/{slot}/tables/tvar"), rb(rng, 1, 1024));
    }
    let signed_entries: BTreeMap<String, String> = anc_files.iter().map(|(p, d)| (p.clone(), common::sha256_hex(d))).collect();
    let sign = |signer: &ManifestSigner, data: &BTreeMap<String, String>| -> Value {
        serde_json::to_value(signer.sign(&manifest_hash(data))).expect("signature to json")
    };
    let trusted_sig = sign(trusted, &signed_entries);
    let mut served_manifest = manifest_json(&signed_entries, Some(trusted_sig.clone()));
    let mut anc_entries: Vec<Ent> = anc_files.iter().map(|(p, d)| Ent::file(p, d)).collect();
    let mut anc_valid = true;
    let mut anc_corrupt = Corrupt::None;
    let mut anc_second: Option<ArchiveSpec> = None;
    let mut manifest_body: Option<Vec<u8>> = None; // None = serialise served_manifest
    let mut include_manifest = true;
    let mut key_configured = true;
    let mut sentinels: Vec<PathBuf> = vec![];
    let mut note = String::new();
    let mut side = Side::Honest;
    let evil = |rng: &mut ChaCha20Rng| -> Vec<u8> {
        let mut v = b"EVIL".to_vec();
        v.extend(rb(rng, 0, 300));
        v
    };

    if IMM_CLASSES.contains(&class) {
        side = Side::Imm;
        let victim = rnd::range(rng, lo, hi);
        let mut extra: Vec<Ent> = vec![];
        match class {
            "imm_ledger" => {
                let p = rnd::pick(rng, &["ledger/evil", "ledger/424242", "ledger/424242/state", "ledger/424242/tables/tvar"]).to_string();
                extra.push(Ent::file(&p, &evil(rng)));
            }
            "imm_volatile" => {
                let p = rnd::pick(rng, &["volatile/blocks-0.dat", "volatile/evil"]).to_string();
                extra.push(Ent::file(&p, &evil(rng)));
            }
            "imm_top_level" => {
                let p = rnd::pick(rng, &["evil.sh", "config.json", "ancillary_manifest.json", "lock", ".hidden"]).to_string();
                extra.push(Ent::file(&p, &evil(rng)));
            }
            "imm_shadow_marker" => {
                if rnd::chance(rng, 1, 2) {
                    extra.push(Ent::file("clean", &evil(rng)));
                } else {
                    extra.push(Ent::file("protocolMagicId", b"999"));
                }
            }
            "imm_nested_immutable" => {
                let p = rnd::pick(rng, &["immutable/immutable/00001.chunk", "immutable/sub/evil", "immutable/ledger/1"]).to_string();
                extra.push(Ent::file(&p, &evil(rng)));
            }
            "imm_junk_in_immutable" => {
                let p = rnd::pick(rng, &["immutable/junk.txt", "immutable/00001.chunk.bak", "immutable/1.chunk", "immutable/.hidden"]).to_string();
                extra.push(Ent::file(&p, &evil(rng)));
            }
            "imm_out_of_range_low" => {
                let mut cands: Vec<u64> = (0..=last).filter(|n| *n < lo || *n > hi).collect();
                rnd::shuffle(rng, &mut cands);
                let mnum = *cands.first()?;
                for e in EXTS.iter().take(rnd::range(rng, 1, 3) as usize) {
                    extra.push(Ent::file(&format!("immutable/{}", fname(mnum, e)), &evil(rng)));
                }
                note = format!("archive of immutable {victim} also carries files of immutable {mnum}, outside the requested range {lo}..={hi}");
            }
            "imm_next_trio" => {
                for e in EXTS.iter().take(rnd::range(rng, 1, 3) as usize) {
                    extra.push(Ent::file(&format!("immutable/{}", fname(last + 1, e)), &evil(rng)));
                }
            }
            "imm_far_beyond" => {
                let n = last + rnd::range(rng, 2, 60);
                extra.push(Ent::file(&format!("immutable/{}", fname(n, "chunk")), &evil(rng)));
                extra.push(Ent::file("immutable/99999.primary", &evil(rng)));
            }
            "imm_other_dir" => {
                let p = rnd::pick(rng, &["foo/bar/evil", ".ssh/authorized_keys", "immutable2/00001.chunk", "gsm/evil", "lsm/evil"]).to_string();
                extra.push(Ent::file(&p, &evil(rng)));
            }
            "imm_dirs_only" => {
                extra.push(Ent::Dir { path: "ledger/".into() });
                extra.push(Ent::Dir { path: "foo/bar/".into() });
            }
            "imm_symlink" => match rnd::below(rng, 3) {
                0 => extra.push(Ent::Symlink { path: "ledger".into(), target: "/tmp".into() }),
                1 => extra.push(Ent::Symlink { path: "link.txt".into(), target: "/etc/hostname".into() }),
                _ => extra.push(Ent::Symlink { path: format!("immutable/{}", fname(victim, "chunk")), target: "../notes.txt".into() }),
            },
            "imm_symlink_write_through" => {
                extra.push(Ent::Dir { path: "ledger/".into() });
                extra.push(Ent::Symlink { path: "lnk".into(), target: "ledger".into() });
                extra.push(Ent::file("lnk/evil-through-link", &evil(rng)));
            }
            "imm_hardlink" => {
                extra.push(Ent::Hardlink { path: "hardlinked".into(), target: format!("immutable/{}", fname(victim, "chunk")) });
            }
            "imm_absolute_path" => {
                let s = work.join("escape-abs").join("evil");
                extra.push(Ent::file(&s.to_string_lossy(), &evil(rng)));
                sentinels.push(s);
            }
            "imm_dotdot" => {
                extra.push(Ent::file("../escape-dotdot", &evil(rng)));
                extra.push(Ent::file("immutable/../../escape-dotdot2", &evil(rng)));
                sentinels.push(work.join("escape-dotdot"));
                sentinels.push(work.join("escape-dotdot2"));
            }
            "imm_overwrite_user_file" => {
                extra.push(Ent::file("notes.txt", &evil(rng)));
                if rnd::chance(rng, 1, 2) {
                    extra.push(Ent::file("configuration/config.json", &evil(rng)));
                }
            }
            "imm_fallback_hostile_first" => {
                // location 0: hostile entries first, then the stream breaks; location 1: honest
                let honest = imm.get(&victim)?.0.clone();
                let mut first = vec![Ent::file("ledger/evil-from-broken-location", &evil(rng)), Ent::file("evil-top.txt", &evil(rng))];
                first.extend(honest.entries.iter().cloned());
                // padding so that the truncation point lies after the hostile entries
                first.push(Ent::file("immutable/zz-padding", &rnd::bytes(rng, 20_000)));
                let broken = ArchiveSpec { entries: first, comp: c0, corrupt: Corrupt::Truncate(600) };
                imm.insert(victim, (broken, Some(ArchiveSpec { comp: c1, ..honest })));
            }
            _ => return None,
        }
        if class != "imm_fallback_hostile_first" {
            let spec = &mut imm.get_mut(&victim)?.0;
            if rnd::chance(rng, 1, 2) {
                let mut v = extra.clone();
                v.append(&mut spec.entries);
                spec.entries = v;
            } else {
                spec.entries.extend(extra.iter().cloned());
            }
        }
        if note.is_empty() {
            note = format!("hostile entries in the archive of immutable {victim}");
        }
    } else if ANC_CLASSES.contains(&class) {
        side = Side::Anc;
        let listed: Vec<String> = signed_entries.keys().cloned().collect();
        let ledger_listed: Vec<String> = listed.iter().filter(|p| p.starts_with("ledger/")).cloned().collect();
        match class {
            "anc_extra_unlisted" => {
                let mut ps = vec!["ledger/evil-unlisted", "volatile/evil-unlisted", "evil-unlisted.txt", "immutable/evil-unlisted", "ledger/1/state"];
                rnd::shuffle(rng, &mut ps);
                for p in ps.iter().take(rnd::range(rng, 1, 3) as usize) {
                    anc_entries.push(Ent::file(p, &evil(rng)));
                }
            }
            "anc_content_altered" => {
                let p = rnd::pick(rng, &listed).clone();
                let i = anc_entries.iter().position(|e| e.path() == p)?;
                anc_entries[i] = Ent::file(&p, &evil(rng));
                anc_valid = false;
            }
            "anc_manifest_entry_added" => {
                let data_evil = evil(rng);
                let mut d = signed_entries.clone();
                d.insert("ledger/evil-added".into(), common::sha256_hex(&data_evil));
                anc_entries.push(Ent::file("ledger/evil-added", &data_evil));
                served_manifest = manifest_json(&d, Some(trusted_sig.clone()));
                anc_valid = false;
            }
            "anc_manifest_entry_removed" => {
                let mut d = signed_entries.clone();
                d.remove(rnd::pick(rng, &listed));
                served_manifest = manifest_json(&d, Some(trusted_sig.clone()));
                anc_valid = false;
            }
            "anc_manifest_rehashed" => {
                let p = rnd::pick(rng, &listed).clone();
                let data_evil = evil(rng);
                let i = anc_entries.iter().position(|e| e.path() == p)?;
                anc_entries[i] = Ent::file(&p, &data_evil);
                let mut d = signed_entries.clone();
                d.insert(p, common::sha256_hex(&data_evil));
                served_manifest = manifest_json(&d, Some(trusted_sig.clone()));
                anc_valid = false;
            }
            "anc_signature_altered" => {
                let s = trusted_sig.as_str()?.to_string();
                let mut b = hex::decode(&s).ok()?;
                let k = rnd::usize_below(rng, b.len());
                b[k] ^= 1 << rnd::below(rng, 8);
                served_manifest = manifest_json(&signed_entries, Some(json!(hex::encode(b))));
                anc_valid = false;
            }
            "anc_signature_removed" => {
                served_manifest = if rnd::chance(rng, 1, 2) {
                    manifest_json(&signed_entries, None)
                } else {
                    manifest_json(&signed_entries, Some(Value::Null))
                };
                anc_valid = false;
            }
            "anc_other_key" => {
                // a well-formed manifest, correctly signed - by somebody else; optionally with hostile content
                let mut d = signed_entries.clone();
                if rnd::chance(rng, 1, 2) {
                    let data_evil = evil(rng);
                    d.insert("ledger/evil-other-key".into(), common::sha256_hex(&data_evil));
                    anc_entries.push(Ent::file("ledger/evil-other-key", &data_evil));
                }
                served_manifest = manifest_json(&d, Some(sign(other, &d)));
                anc_valid = false;
            }
            "anc_manifest_missing" => {
                include_manifest = false;
                anc_valid = false;
            }
            "anc_manifest_invalid_json" => {
                manifest_body = Some(b"{\"data\": {\"ledger/1\": ".to_vec());
                anc_valid = false;
            }
            "anc_listed_file_absent" => {
                let p = rnd::pick(rng, &listed).clone();
                anc_entries.retain(|e| e.path() != p);
                anc_valid = false;
            }
            "anc_merged_entries" => {
                // sha256(k1 || h1 || k2 || h2) == sha256((k1 || h1 || k2) || h2): two adjacent signed entries are
                // presented as ONE entry whose path is k1||h1||k2; the trusted signature still verifies.
                if ledger_listed.len() < 2 {
                    return None;
                }
                let i = rnd::usize_below(rng, ledger_listed.len() - 1);
                let (k1, k2) = (ledger_listed[i].clone(), ledger_listed[i + 1].clone());
                let (h1, h2) = (signed_entries[&k1].clone(), signed_entries[&k2].clone());
                let merged = format!("{k1}{h1}{k2}");
                if merged.len() >= 100 {
                    return None;
                }
                let mut d = signed_entries.clone();
                d.remove(&k1);
                d.remove(&k2);
                d.insert(merged.clone(), h2);
                if manifest_hash(&d) != manifest_hash(&signed_entries) {
                    return None;
                }
                let content = anc_files[&k2].clone();
                anc_entries.retain(|e| e.path() != k1 && e.path() != k2);
                anc_entries.push(Ent::file(&merged, &content));
                served_manifest = manifest_json(&d, Some(trusted_sig.clone()));
                // the signature verifies, but this is not what the signer listed: (path, sha) membership decides
                note = format!("entries `{k1}` and `{k2}` merged into one entry `{merged}`; manifest hash unchanged");
            }
            "anc_listed_as_symlink" => {
                let p = rnd::pick(rng, &ledger_listed).clone();
                let depth = p.matches('/').count();
                let up = "../".repeat(depth);
                anc_entries.retain(|e| e.path() != p);
                anc_entries.push(Ent::file("payload.bin", &anc_files[&p]));
                anc_entries.push(Ent::Symlink { path: p.clone(), target: format!("{up}payload.bin") });
                // the other listed files are served unchanged: they stay vouched; the symlink itself can never be
                // "a regular file with the signed hash", so it is flagged if it is restored
                note = format!("listed file `{p}` shipped as a symlink to an unlisted payload with the signed content");
            }
            "anc_dotdot_absolute" => {
                anc_entries.push(Ent::file("../escape-anc-dotdot", &evil(rng)));
                let s = work.join("escape-anc-abs").join("evil");
                anc_entries.push(Ent::file(&s.to_string_lossy(), &evil(rng)));
                sentinels.push(work.join("target").join("escape-anc-dotdot"));
                sentinels.push(work.join("escape-anc-dotdot"));
                sentinels.push(s);
            }
            "anc_truncated" => {
                anc_entries.insert(0, Ent::file("ledger/evil-before-break", &evil(rng)));
                anc_entries.push(Ent::file("zz-padding", &rnd::bytes(rng, 20_000)));
                anc_corrupt = Corrupt::Truncate(rnd::range(rng, 300, 900) as usize);
                anc_valid = false;
            }
            "anc_garbage" => {
                anc_corrupt = Corrupt::Garbage;
                anc_valid = false;
            }
            "anc_move_blocked" => {
                // a non-empty directory sits where a listed file must go: the rename fails mid-way
                let p = rnd::pick(rng, &ledger_listed).clone();
                allow_override = true;
                pre_dirs.push(p.clone());
                pre_existing.push((format!("{p}/user-file-in-the-way"), b"user".to_vec()));
                note = format!("pre-existing directory at `{p}`");
            }
            "anc_no_key_configured" => {
                key_configured = false;
                anc_entries.push(Ent::file("ledger/evil-unlisted", &evil(rng)));
            }
            "anc_not_requested" => {
                anc_entries.push(Ent::file("ledger/evil-unlisted", &evil(rng)));
            }
            "anc_fallback_after_truncated" => {
                // location 0 breaks after unlisted hostile files, location 1 is the honest archive
                let mut manifest_ent = vec![Ent::file("ancillary_manifest.json", &serde_json::to_vec(&served_manifest).unwrap())];
                let mut honest_entries = anc_entries.clone();
                honest_entries.append(&mut manifest_ent);
                anc_second = Some(ArchiveSpec { entries: honest_entries, comp: c1, corrupt: Corrupt::None });
                anc_entries.insert(0, Ent::file("ledger/evil-from-broken-location", &evil(rng)));
                anc_entries.push(Ent::file("zz-padding", &rnd::bytes(rng, 20_000)));
                anc_corrupt = Corrupt::Truncate(700);
            }
            _ => return None,
        }
    } else if FAULT_CLASSES.contains(&class) {
        side = Side::Fault;
        let victim = rnd::range(rng, lo, hi);
        let honest = imm.get(&victim)?.0.clone();
        let corrupt = match class {
            "imm_truncated" | "imm_fallback_after_truncated" => Corrupt::Truncate(rnd::range(rng, 100, 900) as usize),
            "imm_garbage" => Corrupt::Garbage,
            _ => Corrupt::Absent,
        };
        let mut broken = honest.clone();
        if !matches!(corrupt, Corrupt::Absent) {
            broken.entries.push(Ent::file("immutable/zz-padding", &rnd::bytes(rng, 10_000)));
        }
        broken.corrupt = corrupt;
        let second = if class == "imm_fallback_after_truncated" { Some(ArchiveSpec { comp: c1, ..honest }) } else { None };
        imm.insert(victim, (broken, second));
        note = format!("archive of immutable {victim} is broken");
    } else if !HONEST_CLASSES.contains(&class) {
        return None;
    }

    if include_manifest {
        let body = manifest_body.unwrap_or_else(|| serde_json::to_vec(&served_manifest).unwrap());
        // where the manifest sits in the archive should not matter
        if rnd::chance(rng, 1, 2) {
            anc_entries.push(Ent::file("ancillary_manifest.json", &body));
        } else {
            anc_entries.insert(0, Ent::file("ancillary_manifest.json", &body));
        }
    }
    let anc_comp = if rnd::chance(rng, 1, 2) { Comp::Gzip } else { Comp::Zstd };
    Some(CaseSpec {
        class: class.to_string(),
        side,
        last,
        range,
        range_json,
        lo,
        hi,
        include_ancillary,
        allow_override,
        max_parallel,
        network,
        key_configured,
        pre_existing,
        pre_dirs,
        imm,
        imm_comps: (c0, c1),
        anc: (ArchiveSpec { entries: anc_entries, comp: anc_comp, corrupt: anc_corrupt }, anc_second),
        signed_entries,
        served_manifest,
        anc_valid_by_construction: anc_valid,
        honest_files: {
            let mut h = honest_files;
            if include_ancillary {
                h.extend(anc_files);
            }
            h
        },
        sentinels,
        note,
    })
}

fn magic_id(network: &str) -> Option<&'static str> {
    match network {
        "mainnet" => Some("764824073"),
        "preview" => Some("2"),
        "preprod" => Some("1"),
        "devnet" => Some("42"),
        _ => None,
    }
}

fn is_trio_name(name: &str) -> Option<u64> {
    let (stem, ext) = name.split_once('.')?;
    if stem.len() == 5 && stem.bytes().all(|b| b.is_ascii_digit()) && EXTS.contains(&ext) {
        stem.parse().ok()
    } else {
        None
    }
}

fn allowed(c: &CaseSpec, path: &str, e: &Entry) -> bool {
    if e.kind != Kind::File {
        return false;
    }
    if let Some(name) = path.strip_prefix("immutable/") {
        if let Some(n) = is_trio_name(name) {
            if n >= c.lo && n <= c.hi {
                return true;
            }
        }
    }
    if path == "clean" && e.size == 0 {
        return true;
    }
    if path == "protocolMagicId" {
        if let Some(mid) = magic_id(&c.network) {
            if e.sha.as_deref() == Some(common::sha256_hex(mid.as_bytes()).as_str()) {
                return true;
            }
        }
    }
    if c.include_ancillary && c.key_configured && c.anc_valid_by_construction {
        if let (Some(signed), Some(sha)) = (c.signed_entries.get(path), e.sha.as_ref()) {
            if signed == sha {
                return true;
            }
        }
    }
    false
}

/// The recorded finding is the cancellation of the ancillary task (`join_set.abort_all()`) when an
/// IMMUTABLE download fails: only cases with such a failure can show it. A scratch directory left
/// behind in any other case (ancillary verification failed, move into place failed, everything
/// succeeded) has another cause.
fn temp_dir_signature(immutable_download_failed: bool) -> &'static str {
    if immutable_download_failed {
        "C19 ancillary temporary directory left behind"
    } else {
        "C19 ancillary temporary directory left behind although no immutable download failed"
    }
}

fn signature_for(c: &CaseSpec, path: &str, e: &Entry, pre_existing: bool, imm_failed: bool) -> &'static str {
    if path.starts_with("ancillary-") {
        return temp_dir_signature(imm_failed);
    }
    match c.side {
        Side::Imm => {
            if pre_existing {
                return "C19 pre-existing file overwritten by an immutable archive entry";
            }
            if e.kind == Kind::Symlink {
                return "C19 immutable archive symlink entry kept";
            }
            if path.starts_with("ledger/") {
                "C19 immutable archive entry outside immutable/ kept (ledger/)"
            } else if path.starts_with("volatile/") {
                "C19 immutable archive entry outside immutable/ kept (volatile/)"
            } else if !path.contains('/') {
                if path == "protocolMagicId" && magic_id(&c.network).is_none() {
                    // the client writes no protocolMagicId for a network it does not know
                    "C19 immutable archive entry shadowing a bootstrap marker kept"
                } else if path == "clean" || path == "protocolMagicId" {
                    // markers the client writes itself at the end of the download
                    "C19 bootstrap marker written by the client holds an immutable archive entry's content"
                } else {
                    "C19 immutable archive entry outside immutable/ kept (top-level file)"
                }
            } else if let Some(rest) = path.strip_prefix("immutable/") {
                if let Some(n) = is_trio_name(rest) {
                    if n > c.last + u64::from(c.include_ancillary) {
                        // above the sweep's own bound (0..=beacon, +1 only when ancillary files are
                        // restored): the pinned sweep removes it. (With ancillary files requested
                        // the trio beacon+1 is inside the bound: an immutable archive entry written
                        // there in place - possibly after the verified ancillary copy was moved in -
                        // is the recorded unpack-in-place / sweep-bound finding.)
                        "C19 immutable file beyond the certified beacon kept"
                    } else {
                        "C19 immutable file outside the requested range kept"
                    }
                } else {
                    "C19 unexpected entry inside immutable/ kept"
                }
            } else {
                "C19 immutable archive entry outside immutable/ kept (other directory)"
            }
        }
        Side::Anc => {
            if e.kind == Kind::Symlink {
                return "C19 manifest-listed path restored as a symlink";
            }
            if c.class == "anc_merged_entries" {
                return "C19 ancillary file kept under a path the signer never listed (manifest hash concatenates keys and values)";
            }
            let served_lists = c.served_manifest.get("data").and_then(|d| d.get(path)).is_some();
            if served_lists || c.signed_entries.contains_key(path) {
                "C19 ancillary file kept although ancillary verification must fail"
            } else {
                "C19 ancillary file not listed in the manifest kept"
            }
        }
        _ => "C19 unexplained new file in the target directory",
    }
}

async fn run_client(client: &CardanoDatabaseClient, snap: &CardanoDatabaseSnapshot, c: &CaseSpec, target: &Path) -> Result<(), String> {
    let opts = DownloadUnpackOptions { allow_override: c.allow_override, include_ancillary: c.include_ancillary, max_parallel_downloads: c.max_parallel };
    client.download_unpack(snap, &c.range, target, opts).await.map_err(|e| common::short(&format!("{e:#}"), 400))
}

#[allow(clippy::too_many_arguments)]
fn run_case(
    rt: &tokio::runtime::Runtime,
    client_with_key: &CardanoDatabaseClient,
    client_without_key: &CardanoDatabaseClient,
    m: &mut Monitor,
    c: &CaseSpec,
    work: &Path,
    ident: Value,
    sample_it: bool,
) -> Option<(PathBuf, BTreeMap<String, Entry>)> {
    let _ = common::force_remove(work);
    let target = work.join("target");
    let srv = work.join("srv");
    let _ = std::fs::create_dir_all(&target);
    for d in &c.pre_dirs {
        let _ = std::fs::create_dir_all(target.join(d));
    }
    for (p, d) in &c.pre_existing {
        common::write_file(&target.join(p), d);
    }
    // archives
    let two_locations = c.imm.values().any(|(_, s)| s.is_some());
    for (n, (a0, a1)) in &c.imm {
        a0.write(&srv.join("loc0").join(format!("{n:05}.{}", c.imm_comps.0.ext())));
        if two_locations {
            match a1 {
                Some(a1) => a1.write(&srv.join("loc1").join(format!("{n:05}.{}", c.imm_comps.1.ext()))),
                // the other numbers are only available at location 0
                None => {}
            }
        }
    }
    let mut imm_locations = vec![ImmutablesLocation::CloudStorage {
        uri: MultiFilesUri::Template(TemplateUri(format!("{}/{{immutable_file_number}}.{}", common::file_uri(&srv.join("loc0")), c.imm_comps.0.ext()))),
        compression_algorithm: Some(c.imm_comps.0.algo()),
    }];
    if two_locations {
        imm_locations.push(ImmutablesLocation::CloudStorage {
            uri: MultiFilesUri::Template(TemplateUri(format!("{}/{{immutable_file_number}}.{}", common::file_uri(&srv.join("loc1")), c.imm_comps.1.ext()))),
            compression_algorithm: Some(c.imm_comps.1.algo()),
        });
        imm_locations.push(ImmutablesLocation::Unknown);
    }
    let anc0 = srv.join(format!("anc0.{}", c.anc.0.comp.ext()));
    c.anc.0.write(&anc0);
    let mut anc_locations = vec![AncillaryLocation::CloudStorage { uri: common::file_uri(&anc0), compression_algorithm: Some(c.anc.0.comp.algo()) }];
    if let Some(a1) = &c.anc.1 {
        let anc1 = srv.join(format!("anc1.{}", a1.comp.ext()));
        a1.write(&anc1);
        anc_locations.push(AncillaryLocation::CloudStorage { uri: common::file_uri(&anc1), compression_algorithm: Some(a1.comp.algo()) });
    }
    let mut snap = CardanoDatabaseSnapshot::dummy();
    snap.network = c.network.clone();
    snap.beacon = CardanoDbBeacon::new(11, c.last);
    snap.immutables = ImmutablesMessagePart { average_size_uncompressed: 4096, locations: imm_locations };
    snap.ancillary = AncillaryMessagePart { size_uncompressed: 8192, locations: anc_locations };

    let before = common::list_tree(&target);
    let client = if c.key_configured { client_with_key } else { client_without_key };
    let outcome = match vcore::catch(|| rt.block_on(run_client(client, &snap, c, &target))) {
        Ok(o) => o,
        Err(p) => {
            m.count("client_panicked");
            m.inconclusive(&format!("client panicked in case class {}: {}", c.class, common::short(&p, 200)));
            return None;
        }
    };
    m.eval();
    if outcome.is_err() {
        // a failed download aborts its sibling tasks; their blocking unpack threads finish on their own
        std::thread::sleep(std::time::Duration::from_millis(25));
    }
    let after = common::list_tree(&target);
    let ok = outcome.is_ok();
    // the client reports which download failed: "... for immutable_file_000NN ..." for an immutable archive
    let imm_failed = matches!(&outcome, Err(e) if e.contains("immutable_file_"));
    m.count(&format!("class.{}.{}", c.class, if ok { "ok" } else { "err" }));
    m.count(if c.include_ancillary { "with_ancillary" } else { "without_ancillary" });
    m.count(&format!("network.{}", c.network));

    let replay = json!({
        "ident": ident, "class": c.class, "note": c.note,
        "beacon_immutable": c.last, "requested_range": c.range_json, "range_numbers": [c.lo, c.hi],
        "options": {"include_ancillary": c.include_ancillary, "allow_override": c.allow_override, "max_parallel_downloads": c.max_parallel,
                    "ancillary_verification_key_configured": c.key_configured},
        "network": c.network,
        "target_before": before.iter().map(|(p, e)| json!([p, e.json()])).collect::<Vec<_>>(),
        "immutable_archives": c.imm.iter().map(|(n, (a0, a1))| json!({"immutable": n, "location0": a0.json(), "location1": a1.as_ref().map(|a| a.json())})).collect::<Vec<_>>(),
        "ancillary_archive": if c.include_ancillary || c.side == Side::Anc { json!({"location0": c.anc.0.json(), "location1": c.anc.1.as_ref().map(|a| a.json())}) } else { json!("not requested (honest archive served)") },
        "manifest_served": c.served_manifest,
        "manifest_data_signed_by_trusted_key": c.signed_entries,
        "ancillary_archive_valid_by_construction": c.anc_valid_by_construction,
        "outcome": match &outcome { Ok(()) => json!("Ok"), Err(e) => json!({"Err": e}) },
        "target_after": after.iter().map(|(p, e)| json!([p, e.json()])).collect::<Vec<_>>(),
    });

    if c.side != Side::Honest {
        let key = format!(
            "{}|{}|{}|{}|{}|{}|{}",
            c.class,
            c.range_json,
            c.include_ancillary,
            c.allow_override,
            c.network,
            c.imm.values().map(|(a, b)| format!("{}{}", a.json(), b.as_ref().map(|x| x.json().to_string()).unwrap_or_default())).collect::<String>(),
            c.anc.0.json()
        );
        m.nontrivial_str(&common::sha256_hex(key.as_bytes()));
    }

    // ---- the oracle
    let mut flagged: Vec<(String, &'static str)> = vec![];
    let mut extra_dirs = 0u64;
    for (path, e) in &after {
        let prev = before.get(path);
        if prev == Some(e) {
            continue;
        }
        if e.kind == Kind::Dir {
            if prev.is_none() {
                extra_dirs += 1;
                if path.starts_with("ancillary-") && !path.contains('/') {
                    flagged.push((path.clone(), temp_dir_signature(imm_failed)));
                }
            }
            continue;
        }
        if !allowed(c, path, e) {
            flagged.push((path.clone(), signature_for(c, path, e, prev.is_some(), imm_failed)));
        }
    }
    for (path, e) in &before {
        if !after.contains_key(path) {
            // a pre-existing directory replaced by a manifest-vouched file etc. would show up above; plain loss:
            let _ = e;
            flagged.push((path.clone(), "C19 pre-existing entry of the target directory removed"));
        }
    }
    for s in &c.sentinels {
        if std::fs::symlink_metadata(s).is_ok() {
            flagged.push((s.to_string_lossy().to_string(), "C19 archive entry written outside the target directory"));
        }
    }
    m.count_n("directories_created_not_judged", extra_dirs);
    if flagged.iter().any(|(p, _)| p.starts_with("ancillary-") && after.get(p).map(|e| e.kind != Kind::Dir).unwrap_or(false)) {
        m.count("ancillary_temp_dir_left_behind.with_unverified_files_inside");
    }
    if flagged.is_empty() {
        m.count(&format!("clean.{}", c.class));
    }
    let mut by_sig: BTreeMap<&'static str, Vec<String>> = BTreeMap::new();
    for (p, s) in &flagged {
        by_sig.entry(s).or_default().push(p.clone());
    }
    for (sig, paths) in &by_sig {
        m.count(&format!("kept.{}", sig.trim_start_matches("C19 ")));
        let what = format!(
            "class {} ({}), range {} of beacon {}, include_ancillary={}, allow_override={}, outcome {}: after download_unpack the target directory holds {:?}",
            c.class,
            c.note,
            c.range_json,
            c.last,
            c.include_ancillary,
            c.allow_override,
            if ok { "Ok".to_string() } else { "Err".to_string() },
            paths.iter().map(|p| format!("{p} {}", after.get(p).map(|e| e.json().to_string()).unwrap_or_else(|| "(gone)".into()))).collect::<Vec<_>>()
        );
        m.violation(sig, &what, replay.clone());
    }

    // ---- honest cases must work (else the harness or the tree is broken: inconclusive, not a violation)
    if c.side == Side::Honest {
        let mut problems = vec![];
        let early_refusal = !c.allow_override && before.contains_key("immutable");
        if !ok && !early_refusal {
            problems.push(format!("download_unpack failed: {}", outcome.as_ref().err().cloned().unwrap_or_default()));
        }
        if ok {
            for (p, d) in &c.honest_files {
                match after.get(p) {
                    Some(e) if e.sha.as_deref() == Some(common::sha256_hex(d).as_str()) => {}
                    other => problems.push(format!("{p}: expected the served content, found {:?}", other.map(|e| e.json()))),
                }
            }
            if !after.contains_key("clean") {
                problems.push("marker `clean` missing".into());
            }
        }
        if problems.is_empty() {
            m.count("honest.as_expected");
        } else {
            m.count("honest.PROBLEM");
            m.inconclusive(&format!("honest download ({}, {ident}) did not behave: {}", c.class, common::short(&problems.join("; "), 400)));
        }
    }
    if sample_it && m.wants_sample() {
        m.sample(json!({"class": c.class, "note": c.note, "requested_range": c.range_json, "beacon_immutable": c.last,
            "include_ancillary": c.include_ancillary, "allow_override": c.allow_override,
            "hostile_archive_entries": match c.side {
                Side::Imm | Side::Fault => c.imm.values().flat_map(|(a, _)| a.entries.iter().map(|e| e.path().to_string())).collect::<Vec<_>>(),
                _ => c.anc.0.entries.iter().map(|e| e.path().to_string()).collect::<Vec<_>>(),
            },
            "outcome": if ok { json!("Ok") } else { json!(outcome.as_ref().err()) },
            "new_or_changed_paths": after.iter().filter(|(p, e)| before.get(*p) != Some(*e) && e.kind != Kind::Dir).map(|(p, _)| p.clone()).collect::<Vec<_>>(),
            "flagged": flagged}));
    }
    Some((target, after))
}

pub fn run_shard(shard: u64, m: &mut Monitor, per_shard: usize, only: Option<usize>) {
    let base = common::shard_dir(shard);
    let _ = common::force_remove(&base);
    if let Err(e) = std::fs::create_dir_all(&base) {
        m.inconclusive(&format!("harness: cannot create {}: {e}", base.display()));
        return;
    }
    let rt = common::runtime();
    let mut seed = [0u8; 32];
    seed[..8].copy_from_slice(&(m.seed ^ 0x5eed_c19).to_le_bytes());
    let trusted = ManifestSigner::create_test_signer(ChaCha20Rng::from_seed(seed));
    seed[8] = 1;
    let other = ManifestSigner::create_test_signer(ChaCha20Rng::from_seed(seed));
    let vkey = trusted.verification_key().to_json_hex().expect("verification key encoding");
    let client_k = common::build_client(Some(vkey));
    let client_n = common::build_client(None);
    let (dbk, dbn) = (client_k.cardano_database_v2(), client_n.cardano_database_v2());

    // plan: every class in turn, honest classes interleaved
    let mut plan: Vec<&str> = vec![];
    let mut prng = m.rng("c19-plan", shard);
    while plan.len() < per_shard {
        let mut round: Vec<&str> = IMM_CLASSES.iter().chain(ANC_CLASSES.iter()).chain(FAULT_CLASSES.iter()).chain(HONEST_CLASSES.iter()).copied().collect();
        rnd::shuffle(&mut prng, &mut round);
        plan.extend(round);
    }
    plan.truncate(per_shard);
    let mut previous: Option<(PathBuf, BTreeMap<String, Entry>)> = None;
    for (ci, class) in plan.iter().enumerate() {
        if let Some(o) = only {
            if o != ci {
                continue;
            }
        }
        let mut crng = m.rng("c19-case", (shard << 32) | ci as u64);
        // one directory per case: unpack threads of a failed download may outlive the call and must not
        // write into the next case's directory
        let work = base.join(format!("work-{ci}"));
        if let Some((prev_target, prev_after)) = previous.take() {
            let now = common::list_tree(&prev_target);
            if now != prev_after {
                m.count("late_writes.target_directory_changed_after_download_unpack_returned");
            }
            if let Some(parent) = prev_target.parent() {
                let _ = common::force_remove(parent);
            }
        }
        let Some(case) = gen_case(&mut crng, class, &trusted, &other, &work) else {
            m.count(&format!("not_applicable.{class}"));
            continue;
        };
        let ident = json!({"seed": m.seed, "shard": shard, "case": ci, "rerun": format!("mon-client C19 --only {shard}:{ci}")});
        let sample_it = ci % 17 == (shard as usize % 17);
        previous = run_case(&rt, &dbk, &dbn, m, &case, &work, ident, sample_it);
    }
    drop((dbk, dbn, client_k, client_n));
    drop(rt);
    let _ = common::force_remove(&base);
}
