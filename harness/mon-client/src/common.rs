//! Shared plumbing of mon-client: temp directories, directory listings (ground truth), tar archive
//! construction with raw entry names, client construction through the public `ClientBuilder`.
use mithril_client::feedback::FeedbackSender;
use mithril_client::file_downloader::{FileDownloadRetryPolicy, HttpFileDownloader, RetryDownloader};
use mithril_client::{AggregatorDiscoveryType, Client, ClientBuilder, GenesisVerificationKey};
use sha2::{Digest, Sha256};
use std::collections::BTreeMap;
use std::io::Write;
use std::path::{Path, PathBuf};
use std::sync::{Arc, Mutex};

pub fn sha256_hex(b: &[u8]) -> String {
    hex::encode(Sha256::digest(b))
}

pub fn discard_logger() -> slog::Logger {
    slog::Logger::root(slog::Discard, slog::o!())
}

/// Directory of the system temp dir as it was when the process started (before TMPDIR is redirected).
pub fn base_tmp() -> PathBuf {
    static BASE: std::sync::OnceLock<PathBuf> = std::sync::OnceLock::new();
    BASE.get_or_init(std::env::temp_dir).clone()
}

/// Redirect TMPDIR of this process into a private directory, so that the client's own scratch
/// directories (`mithril_client_<ts>_<ts>`) are removed with it. Must be called before any thread starts.
pub fn redirect_tmpdir() -> PathBuf {
    let base = base_tmp();
    let d = base.join(format!("verif-client-{}-tmp", std::process::id()));
    let _ = std::fs::create_dir_all(&d);
    std::env::set_var("TMPDIR", &d);
    d
}

pub fn shard_dir(shard: u64) -> PathBuf {
    base_tmp().join(format!("verif-client-{}-{}", std::process::id(), shard))
}

pub fn remove_all_temp(n_shards: u64) {
    for s in 0..n_shards {
        let _ = force_remove(&shard_dir(s));
    }
    let _ = force_remove(&base_tmp().join(format!("verif-client-{}-tmp", std::process::id())));
}

/// remove_dir_all that first makes everything writable again
pub fn force_remove(p: &Path) -> std::io::Result<()> {
    if !p.exists() && std::fs::symlink_metadata(p).is_err() {
        return Ok(());
    }
    fn chmod_rec(p: &Path) {
        use std::os::unix::fs::PermissionsExt;
        if let Ok(md) = std::fs::symlink_metadata(p) {
            if md.file_type().is_dir() {
                let _ = std::fs::set_permissions(p, std::fs::Permissions::from_mode(0o755));
                if let Ok(rd) = std::fs::read_dir(p) {
                    for e in rd.flatten() {
                        chmod_rec(&e.path());
                    }
                }
            }
        }
    }
    chmod_rec(p);
    std::fs::remove_dir_all(p)
}

pub fn runtime() -> tokio::runtime::Runtime {
    tokio::runtime::Builder::new_multi_thread()
        .worker_threads(2)
        .max_blocking_threads(32)
        .enable_all()
        .build()
        .expect("tokio runtime")
}

pub fn file_uri(p: &Path) -> String {
    format!("file://{}", p.display())
}

// ---------------------------------------------------------------------------------------------
// ground-truth listing of a directory tree (no symlink following for the kind, content through the
// link is recorded separately because that is what a reader of the database would see)

#[derive(Clone, Debug, PartialEq, Eq)]
pub enum Kind {
    File,
    Dir,
    Symlink,
    Other,
}

#[derive(Clone, Debug, PartialEq, Eq)]
pub struct Entry {
    pub kind: Kind,
    pub size: u64,
    /// sha256 of the content (files); for symlinks: sha256 of the content seen through the link, if any
    pub sha: Option<String>,
    pub link_target: Option<String>,
}

impl Entry {
    pub fn json(&self) -> serde_json::Value {
        serde_json::json!({"kind": format!("{:?}", self.kind), "size": self.size, "sha256": self.sha, "link_target": self.link_target})
    }
}

pub fn list_tree(root: &Path) -> BTreeMap<String, Entry> {
    let mut out = BTreeMap::new();
    fn rec(root: &Path, rel: &str, out: &mut BTreeMap<String, Entry>) {
        let dir = if rel.is_empty() { root.to_path_buf() } else { root.join(rel) };
        let Ok(rd) = std::fs::read_dir(&dir) else { return };
        for e in rd.flatten() {
            let name = e.file_name().to_string_lossy().to_string();
            let r = if rel.is_empty() { name.clone() } else { format!("{rel}/{name}") };
            let p = e.path();
            let Ok(md) = std::fs::symlink_metadata(&p) else { continue };
            let ft = md.file_type();
            if ft.is_symlink() {
                let target = std::fs::read_link(&p).ok().map(|t| t.to_string_lossy().to_string());
                let sha = std::fs::metadata(&p)
                    .ok()
                    .filter(|m| m.is_file())
                    .and_then(|_| std::fs::read(&p).ok())
                    .map(|b| sha256_hex(&b));
                out.insert(r, Entry { kind: Kind::Symlink, size: 0, sha, link_target: target });
            } else if ft.is_dir() {
                out.insert(r.clone(), Entry { kind: Kind::Dir, size: 0, sha: None, link_target: None });
                rec(root, &r, out);
            } else if ft.is_file() {
                let b = std::fs::read(&p).unwrap_or_default();
                out.insert(r, Entry { kind: Kind::File, size: md.len(), sha: Some(sha256_hex(&b)), link_target: None });
            } else {
                out.insert(r, Entry { kind: Kind::Other, size: 0, sha: None, link_target: None });
            }
        }
    }
    rec(root, "", &mut out);
    out
}

pub fn copy_tree(src: &Path, dst: &Path) -> std::io::Result<()> {
    std::fs::create_dir_all(dst)?;
    for e in std::fs::read_dir(src)? {
        let e = e?;
        let ft = e.file_type()?;
        let to = dst.join(e.file_name());
        if ft.is_dir() {
            copy_tree(&e.path(), &to)?;
        } else if ft.is_file() {
            std::fs::copy(e.path(), &to)?;
        }
    }
    Ok(())
}

pub fn write_file(p: &Path, data: &[u8]) {
    if let Some(parent) = p.parent() {
        let _ = std::fs::create_dir_all(parent);
    }
    let mut f = std::fs::File::create(p).unwrap_or_else(|e| panic!("harness: cannot create {}: {e}", p.display()));
    f.write_all(data).expect("harness: write");
}

// ---------------------------------------------------------------------------------------------
// tar archives with raw entry names (the `tar` builder refuses `..` and absolute paths, a mirror does not)

#[derive(Clone, Debug)]
pub enum Ent {
    File { path: String, data: Vec<u8> },
    Dir { path: String },
    Symlink { path: String, target: String },
    Hardlink { path: String, target: String },
}

impl Ent {
    pub fn file(path: &str, data: &[u8]) -> Ent {
        Ent::File { path: path.to_string(), data: data.to_vec() }
    }
    pub fn path(&self) -> &str {
        match self {
            Ent::File { path, .. } | Ent::Dir { path } | Ent::Symlink { path, .. } | Ent::Hardlink { path, .. } => path,
        }
    }
    pub fn json(&self) -> serde_json::Value {
        match self {
            Ent::File { path, data } => serde_json::json!({"file": path, "size": data.len(), "sha256": sha256_hex(data)}),
            Ent::Dir { path } => serde_json::json!({"dir": path}),
            Ent::Symlink { path, target } => serde_json::json!({"symlink": path, "target": target}),
            Ent::Hardlink { path, target } => serde_json::json!({"hardlink": path, "target": target}),
        }
    }
}

fn raw_header(name: &str, link: Option<&str>, size: u64, ty: tar::EntryType) -> tar::Header {
    let mut h = tar::Header::new_gnu();
    h.set_size(size);
    h.set_mode(if ty == tar::EntryType::Directory { 0o755 } else { 0o644 });
    h.set_mtime(1_700_000_000);
    h.set_uid(0);
    h.set_gid(0);
    h.set_entry_type(ty);
    {
        let old = h.as_old_mut();
        let nb = name.as_bytes();
        assert!(nb.len() < 100, "harness: tar entry name too long: {name}");
        old.name[..nb.len()].copy_from_slice(nb);
        if let Some(l) = link {
            let lb = l.as_bytes();
            assert!(lb.len() < 100, "harness: tar link name too long: {l}");
            old.linkname[..lb.len()].copy_from_slice(lb);
        }
    }
    h.set_cksum();
    h
}

pub fn build_tar(entries: &[Ent]) -> Vec<u8> {
    let mut b = tar::Builder::new(Vec::new());
    for e in entries {
        match e {
            Ent::File { path, data } => {
                let h = raw_header(path, None, data.len() as u64, tar::EntryType::Regular);
                b.append(&h, &data[..]).expect("tar append");
            }
            Ent::Dir { path } => {
                let h = raw_header(path, None, 0, tar::EntryType::Directory);
                b.append(&h, &[][..]).expect("tar append");
            }
            Ent::Symlink { path, target } => {
                let h = raw_header(path, Some(target), 0, tar::EntryType::Symlink);
                b.append(&h, &[][..]).expect("tar append");
            }
            Ent::Hardlink { path, target } => {
                let h = raw_header(path, Some(target), 0, tar::EntryType::Link);
                b.append(&h, &[][..]).expect("tar append");
            }
        }
    }
    b.into_inner().expect("tar finish")
}

#[derive(Clone, Copy, Debug, PartialEq, Eq)]
pub enum Comp {
    Gzip,
    Zstd,
}

impl Comp {
    pub fn ext(&self) -> &'static str {
        match self {
            Comp::Gzip => "tar.gz",
            Comp::Zstd => "tar.zst",
        }
    }
    pub fn algo(&self) -> mithril_client::common::CompressionAlgorithm {
        match self {
            Comp::Gzip => mithril_client::common::CompressionAlgorithm::Gzip,
            Comp::Zstd => mithril_client::common::CompressionAlgorithm::Zstandard,
        }
    }
}

pub fn compress(tar: &[u8], c: Comp) -> Vec<u8> {
    match c {
        Comp::Gzip => {
            let mut enc = flate2::write::GzEncoder::new(Vec::new(), flate2::Compression::fast());
            enc.write_all(tar).unwrap();
            enc.finish().unwrap()
        }
        Comp::Zstd => zstd::encode_all(tar, 1).unwrap(),
    }
}

// ---------------------------------------------------------------------------------------------
// the real client, built through the public builder; the aggregator endpoint is never contacted by
// the three entry points under observation (they only use the file downloader)

static BUILD_LOCK: Mutex<()> = Mutex::new(());

pub fn build_client(ancillary_verification_key: Option<String>) -> Client {
    // the client names its scratch directory after the current microsecond: serialise construction
    // so that two shards never share one
    let _g = BUILD_LOCK.lock().unwrap_or_else(|p| p.into_inner());
    std::thread::sleep(std::time::Duration::from_micros(20));
    let logger = discard_logger();
    let http = HttpFileDownloader::new(FeedbackSender::new(&[]), logger.clone()).expect("HttpFileDownloader");
    // same wrapper as the builder's default, without the 2 x 5 s pauses between attempts
    let downloader = Arc::new(RetryDownloader::new(Arc::new(http), FileDownloadRetryPolicy::never()));
    let client = ClientBuilder::new(AggregatorDiscoveryType::Url("http://127.0.0.1:9/aggregator".to_string()))
        .set_genesis_verification_key(GenesisVerificationKey::JsonHex(
            mithril_common::test::double::fake_keys::genesis_verification_key()[0].to_string(),
        ))
        .with_http_file_downloader(downloader)
        .set_ancillary_verification_key(ancillary_verification_key)
        .with_logger(logger)
        .build()
        .expect("ClientBuilder::build");
    std::thread::sleep(std::time::Duration::from_micros(20));
    client
}

pub fn short(s: &str, n: usize) -> String {
    s.chars().take(n).collect()
}
