//! mon-client: runtime monitors over the real `mithril-client` database download / verification code.
//!   mon-client C10 --tier quick|thorough      restored database accepted only if every file is the certified one
//!   mon-client C19 --tier quick|thorough      only verified immutables and manifest-vouched ancillaries get restored
//! Optional: `--only <shard>:<world>:<case>` (C10) / `--only <shard>:<case>` (C19) re-runs one case of the seed.
mod c10;
mod c19;
mod common;

use vcore::{Monitor, Tier};

fn parse_only(extra: &[String]) -> Option<Vec<u64>> {
    let i = extra.iter().position(|a| a == "--only")?;
    let spec = extra.get(i + 1)?;
    Some(spec.split(':').filter_map(|p| p.parse().ok()).collect())
}

fn main() {
    let args = vcore::parse_args();
    vcore::install_panic_hook();
    // before any thread exists: the client's scratch directories go under a private TMPDIR
    let _ = common::base_tmp();
    common::redirect_tmpdir();
    let mut mon = Monitor::new(&args);
    let threads = vcore::default_threads();
    let mut only = parse_only(&args.extra);
    if let Some(f) = &args.replay {
        // a replay file written by this monitor: re-run the case it names (same VERIF_SEED needed)
        match std::fs::read_to_string(f).ok().and_then(|t| serde_json::from_str::<serde_json::Value>(&t).ok()) {
            Some(v) => {
                let id = &v["replay"]["ident"];
                let g = |k: &str| id[k].as_u64();
                only = match (g("shard"), g("world"), g("case")) {
                    (Some(s), Some(w), Some(c)) => Some(vec![s, w, c]),
                    (Some(s), None, Some(c)) => Some(vec![s, c]),
                    _ => None,
                };
                if let Some(seed) = v["seed"].as_u64() {
                    mon.seed = seed;
                }
            }
            None => {
                eprintln!("mon-client: cannot read replay file {}", f.display());
                std::process::exit(2);
            }
        }
    }
    match args.prop.as_str() {
        "C10" => {
            let (shards, worlds, per_world) = match args.tier {
                Tier::Quick => (16u64, 10usize, 70usize),
                Tier::Thorough => (64, 24, 160),
            };
            match &only {
                Some(o) if o.len() == 3 => {
                    let (s, w, c) = (o[0], o[1] as usize, o[2] as usize);
                    let mut m = mon.fork();
                    c10::run_shard(s, &mut m, worlds, per_world, Some((w, c)), args.tier == Tier::Thorough);
                    mon.merge(m);
                }
                _ => vcore::run_shards(&mut mon, shards, threads, |s, m| c10::run_shard(s, m, worlds, per_world, None, args.tier == Tier::Thorough)),
            }
            common::remove_all_temp(shards);
            mon.finish(
                "worlds = databases written by the harness (3-40 immutable trios numbered from 0, file sizes 0-8 KiB, 0-2 extra trios beyond the beacon, one world in five with identical file contents; thorough tier: plus one dense database of 100000+ trios of 8-byte files, untouched only); certified list / Merkle root / protocol message from the real CardanoImmutableDigester + CardanoDatabaseSignableBuilder; per world: the untouched directory under every range form (Full, From, UpTo, inner Range), then every directory tampering class (byte flip, truncation, append, deletion, swap of two contents inside / across the range, certified content copied over another name, foreign bytes, extra files, immutable-looking alias names, directory or symlink in place of a file, out-of-range and beyond-beacon tampering, combinations) and every digest-list tampering class (reordered, renamed order-preserving / exchanged names, dropped, added in range / beyond beacon / unparsable, duplicated entry, digest bit flip, digests exchanged, empty, invalid JSON, list updated for a modified file, list renamed with directory rearranged accordingly) with random ranges and allow_missing; digests served as plain JSON (aggregator / cloud) or tar.gz / tar.zst through file:// locations to the real HttpFileDownloader. Non-trivial = the harness's own hashing of the final directory says the request must be rejected (or the served digest values are not the certified sequence), or it is an untouched-directory completeness case; distinct = distinct (signed root, class, range, allow_missing, tampering details, served list).",
                &["sha256 collision resistance", "MKTree of mithril-common trusted to commit to the sequence of digest values", "the certificate itself is taken as authentic (chain verification is C03)", "a Cardano database starts at immutable 0 (Full / UpTo ranges)"],
                50,
            );
        }
        "C19" => {
            let (shards, per_shard) = match args.tier {
                Tier::Quick => (16u64, 200usize),
                Tier::Thorough => (64, 1000),
            };
            match &only {
                Some(o) if o.len() == 2 => {
                    let mut m = mon.fork();
                    c19::run_shard(o[0], &mut m, per_shard, Some(o[1] as usize));
                    mon.merge(m);
                }
                _ => vcore::run_shards(&mut mon, shards, threads, |s, m| c19::run_shard(s, m, per_shard, None)),
            }
            common::remove_all_temp(shards);
            mon.finish(
                c19::RULE,
                &["sha256 collision resistance / Ed25519 unforgeability", "the harness knows which manifest data its trusted signer signed; a file counts as manifest-vouched only if (path, sha256) is in that data and the served archive is valid by construction", "bootstrap markers = `clean` (empty) and `protocolMagicId` (magic id of the snapshot's network)", "empty directories created by archives are counted, not judged (the statement speaks of files)"],
                50,
            );
        }
        other => {
            eprintln!("mon-client: unknown property {other}");
            std::process::exit(2);
        }
    }
}
