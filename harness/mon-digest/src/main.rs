//! mon-digest — C12: the database digest depends only on the immutable files up to the beacon.
//!
//! Code under test (real, from /repo): `CardanoImmutableDigester::compute_merkle_tree`,
//! `CardanoImmutableDigester::compute_digests_for_range` (only as a way to leave cache state behind),
//! `CardanoDatabaseSignableBuilder::compute_protocol_message`, the memory and JSON digest cache providers.
//! Oracle: reference.rs (own sha256 per file, own Merkle mountain range) + metamorphic relations.
mod reference;

use mithril_cardano_node_internal_database::digesters::cache::{
    ImmutableFileDigestCacheProvider, JsonImmutableFileDigestCacheProvider, JsonImmutableFileDigestCacheProviderBuilder,
    MemoryImmutableFileDigestCacheProvider,
};
use mithril_cardano_node_internal_database::digesters::{CardanoImmutableDigester, ImmutableDigester, ImmutableDigesterError};
use mithril_cardano_node_internal_database::signable_builder::CardanoDatabaseSignableBuilder;
use mithril_common::entities::{CardanoDbBeacon, ProtocolMessagePartKey};
use mithril_common::signable_builder::SignableBuilder;
use rand_chacha::ChaCha20Rng;
use reference::{Expect, FileSpec};
use serde_json::{json, Value};
use std::path::{Path, PathBuf};
use std::sync::Arc;
use vcore::rnd;
use vcore::{catch, Monitor, Tier};

const EXTS: [&str; 3] = ["chunk", "primary", "secondary"];

// ---------------------------------------------------------------------------------------------
// model of a database

/// a file or directory that is NOT an immutable file (path relative to the database root)
#[derive(Clone, Debug)]
struct Extra {
    rel: String,
    /// None = directory
    content: Option<Vec<u8>>,
}

fn file_size(rng: &mut ChaCha20Rng) -> usize {
    match rnd::below(rng, 10) {
        0 => 0,
        1 => 1,
        2..=4 => rnd::usize_below(rng, 64),
        5..=7 => rnd::usize_below(rng, 1024),
        _ => rnd::usize_below(rng, 4097),
    }
}

/// immutable files of a database (every number, i.e. also the ones that will lie beyond the beacon)
fn gen_files(rng: &mut ChaCha20Rng, max_trios: u64) -> Vec<FileSpec> {
    let n = if rnd::chance(rng, 1, 5) { rnd::range(rng, 2, max_trios) } else { rnd::range(rng, 2, max_trios.min(12)) };
    let start = match rnd::below(rng, 6) {
        0 => 0,
        1 => 1,
        2 => rnd::range(rng, 2, 500),
        // the numbering crosses 99999 -> 100000: lexicographic and numeric order of the names differ
        3 => 100_000 - rnd::range(rng, 1, n.max(2) - 1),
        4 => rnd::range(rng, 5_000, 10_000_000),
        _ => rnd::range(rng, 1, 20),
    };
    let gap = if n > 3 && rnd::chance(rng, 1, 5) { Some(start + rnd::range(rng, 1, n - 2)) } else { None };
    let mut files: Vec<FileSpec> = vec![];
    for number in start..start + n {
        if Some(number) == gap {
            continue;
        }
        let skip = if rnd::chance(rng, 1, 8) { Some(rnd::usize_below(rng, 3)) } else { None };
        for (i, ext) in EXTS.iter().enumerate() {
            if Some(i) == skip {
                continue;
            }
            let content = if !files.is_empty() && rnd::chance(rng, 1, 10) {
                files[rnd::usize_below(rng, files.len())].content.clone()
            } else {
                let sz = file_size(rng);
                rnd::bytes(rng, sz)
            };
            files.push(FileSpec { number, name: format!("{number:05}.{ext}"), content });
        }
    }
    // immutable files whose name is not zero padded to 5 digits (same number, other name)
    if rnd::chance(rng, 1, 4) {
        for _ in 0..rnd::range(rng, 1, 3) {
            let number = files[rnd::usize_below(rng, files.len())].number;
            let ext = EXTS[rnd::usize_below(rng, 3)];
            let name = if number < 10_000 && rnd::chance(rng, 1, 2) { format!("{number}.{ext}") } else { format!("{number:08}.{ext}") };
            if files.iter().all(|f| f.name != name) {
                let sz = file_size(rng);
                files.push(FileSpec { number, name, content: rnd::bytes(rng, sz) });
            }
        }
    }
    files
}

fn numbers(files: &[FileSpec]) -> Vec<u64> {
    let mut v: Vec<u64> = files.iter().map(|f| f.number).collect();
    v.sort();
    v.dedup();
    v
}

/// things that are not immutable files: must never influence the root
fn gen_extras(rng: &mut ChaCha20Rng, files: &[FileSpec]) -> Vec<Extra> {
    let max = files.iter().map(|f| f.number).max().unwrap_or(0);
    let min = files.iter().map(|f| f.number).min().unwrap_or(0);
    let pool: Vec<(String, bool)> = vec![
        ("immutable/README.md".into(), false),
        (format!("immutable/{min:05}.chunk.bak"), false),
        (format!("immutable/{:05}", min + 1), false),
        ("immutable/.hidden".into(), false),
        (format!("immutable/{min:05}.chunk~"), false),
        ("immutable/chunk".into(), false),
        (format!("immutable/{min:05}.CHUNK"), false),
        (format!("immutable/{min:05}.chunks"), false),
        (format!("immutable/{min:05}.primary.tmp"), false),
        ("immutable/digests.json".into(), false),
        ("immutable/nested".into(), true),
        (format!("immutable/nested/{min:05}.chunk"), false),
        (format!("immutable/nested/{:05}.secondary", max + 1), false),
        // a directory whose name looks like an immutable file
        (format!("immutable/{:05}.secondary", max + 50), true),
        (format!("immutable/{:05}.secondary/{min:05}.chunk", max + 50), false),
        ("ledger".into(), true),
        ("ledger/123456".into(), false),
        (format!("ledger/{min:05}.chunk"), false),
        ("volatile".into(), true),
        ("volatile/blocks-0.dat".into(), false),
        (format!("volatile/{min:05}.primary"), false),
        ("lock".into(), false),
        ("clean".into(), false),
        ("protocolMagicId".into(), false),
        (format!("{min:05}.chunk"), false),
        ("gsm".into(), true),
    ];
    let mut out = vec![];
    for (rel, is_dir) in pool {
        if rnd::chance(rng, 1, 2) {
            let sz = file_size(rng);
            out.push(Extra { rel, content: if is_dir { None } else { Some(rnd::bytes(rng, sz)) } });
        }
    }
    out
}

struct Db {
    root: PathBuf,
}
impl Db {
    fn immutable_dir(&self) -> PathBuf {
        self.root.join("immutable")
    }
    fn path_of(&self, f: &FileSpec) -> PathBuf {
        self.immutable_dir().join(&f.name)
    }
}

enum Create<'a> {
    File(&'a FileSpec),
    Extra(&'a Extra),
}

/// write a database: `order` = None: sorted by name, immutable files first; Some(rng): creation order shuffled
fn materialize(root: &Path, files: &[&FileSpec], extras: &[Extra], order: Option<&mut ChaCha20Rng>) -> std::io::Result<Db> {
    std::fs::create_dir_all(root)?;
    let mut ops: Vec<Create> = files.iter().map(|f| Create::File(f)).collect();
    ops.extend(extras.iter().map(Create::Extra));
    match order {
        Some(rng) => rnd::shuffle(rng, &mut ops),
        None => ops.sort_by_key(|o| match o {
            Create::File(f) => (0, f.name.clone()),
            Create::Extra(e) => (1, e.rel.clone()),
        }),
    }
    let db = Db { root: root.to_path_buf() };
    let mut immutable_created = false;
    for op in ops {
        match op {
            Create::File(f) => {
                std::fs::create_dir_all(db.immutable_dir())?;
                immutable_created = true;
                std::fs::write(db.path_of(f), &f.content)?;
            }
            Create::Extra(e) => {
                let p = root.join(&e.rel);
                match &e.content {
                    None => std::fs::create_dir_all(&p)?,
                    Some(c) => {
                        if let Some(parent) = p.parent() {
                            std::fs::create_dir_all(parent)?;
                        }
                        std::fs::write(&p, c)?;
                    }
                }
            }
        }
    }
    if !immutable_created {
        std::fs::create_dir_all(db.immutable_dir())?;
    }
    Ok(db)
}

// ---------------------------------------------------------------------------------------------
// observation of the real code

struct Env {
    rt: tokio::runtime::Runtime,
    logger: slog::Logger,
}

#[derive(Debug, Clone, PartialEq)]
enum Obs {
    Root(String),
    Err { class: String, msg: String },
    Panic(String),
}

impl Obs {
    fn short(&self) -> String {
        match self {
            Obs::Root(r) => format!("root {r}"),
            Obs::Err { class, msg } => format!("error {class}: {msg}"),
            Obs::Panic(p) => format!("panic {p}"),
        }
    }
    fn tag(&self) -> String {
        match self {
            Obs::Root(_) => "root".into(),
            Obs::Err { class, .. } => format!("error:{class}"),
            Obs::Panic(_) => "panic".into(),
        }
    }
}

fn err_class(e: &ImmutableDigesterError) -> &'static str {
    match e {
        ImmutableDigesterError::ListImmutablesError(_) => "ListImmutablesError",
        ImmutableDigesterError::NotEnoughImmutable { .. } => "NotEnoughImmutable",
        ImmutableDigesterError::DigestComputationError(_) => "DigestComputationError",
        ImmutableDigesterError::MerkleTreeComputationError(_) => "MerkleTreeComputationError",
    }
}

fn clip(s: String) -> String {
    s.chars().take(240).collect()
}

fn observe_tree(env: &Env, digester: &CardanoImmutableDigester, path: &Path, epoch: u64, beacon: u64) -> Obs {
    let b = CardanoDbBeacon::new(epoch, beacon);
    match catch(|| env.rt.block_on(digester.compute_merkle_tree(path, &b))) {
        Err(p) => Obs::Panic(p),
        Ok(Err(e)) => Obs::Err { class: err_class(&e).into(), msg: clip(format!("{e}")) },
        Ok(Ok(tree)) => match catch(|| tree.compute_root()) {
            Err(p) => Obs::Panic(p),
            Ok(Err(e)) => Obs::Err { class: "compute_root".into(), msg: clip(format!("{e:#}")) },
            Ok(Ok(r)) => Obs::Root(r.to_hex()),
        },
    }
}

fn observe_message(env: &Env, digester: Arc<CardanoImmutableDigester>, path: &Path, epoch: u64, beacon: u64) -> Obs {
    let builder = CardanoDatabaseSignableBuilder::new(digester, path, env.logger.clone());
    match catch(|| env.rt.block_on(builder.compute_protocol_message(CardanoDbBeacon::new(epoch, beacon)))) {
        Err(p) => Obs::Panic(p),
        Ok(Err(e)) => {
            let class = e
                .chain()
                .find_map(|c| c.downcast_ref::<ImmutableDigesterError>().map(err_class))
                .unwrap_or("signable_builder");
            Obs::Err { class: class.into(), msg: clip(format!("{e:#}")) }
        }
        Ok(Ok(m)) => match m.get_message_part(&ProtocolMessagePartKey::CardanoDatabaseMerkleRoot) {
            Some(r) => Obs::Root(r.clone()),
            None => Obs::Err { class: "no_merkle_root_part".into(), msg: "protocol message has no CardanoDatabaseMerkleRoot part".into() },
        },
    }
}

fn no_cache(env: &Env) -> Arc<CardanoImmutableDigester> {
    Arc::new(CardanoImmutableDigester::new(None, env.logger.clone()))
}

// ---------------------------------------------------------------------------------------------
// oracle

/// expectation for a beacon; cross-checks the harness's own tree against the repo's combiner
fn expectation(files: &[FileSpec], beacon: u64, mon: &mut Monitor) -> Expect {
    let e = reference::expect(files, beacon);
    if let Expect::Root(own) = &e {
        let leaves = reference::leaves(files, beacon);
        match reference::combine_with_repo_mktree(&leaves) {
            Some(r) if &r == own => mon.count("reference:own_tree_equals_repo_mktree_over_reference_leaves"),
            Some(r) => {
                mon.count("diag:own_tree_differs_from_repo_mktree");
                mon.inconclusive("the harness's own Merkle-mountain-range combiner differs from the repo's MKTree over the same reference leaves (tree combiner changed? not decided by C12) - expectation falls back on MKTree as final combiner");
                return Expect::Root(r);
            }
            None => {
                mon.count("diag:repo_mktree_failed_on_reference_leaves");
            }
        }
    }
    e
}

struct Ctx<'a> {
    shard: u64,
    world: u64,
    files_desc: &'a Value,
}

impl Ctx<'_> {
    fn replay(&self, context: &str, detail: &Value, exp: &Expect, obs: &Obs) -> Value {
        json!({"rng_label": "c12", "shard": self.shard, "world": self.world, "files": self.files_desc, "context": context,
               "step": detail, "expected": format!("{exp:?}"), "observed": obs.short()})
    }
}

/// Does the harness itself see on disk exactly the files of its model?  (false = environment trouble:
/// full disk, descriptor exhaustion, somebody cleaning the temp directory - never a verdict)
fn model_is_on_disk(probe: &Probe) -> bool {
    probe.files.iter().all(|f| matches!(std::fs::read(probe.immutable_dir.join(&f.name)), Ok(c) if c == f.content))
}

/// where the database of an observation lives and what the harness wrote there
struct Probe<'a> {
    immutable_dir: PathBuf,
    files: Vec<&'a FileSpec>,
}

/// Judge one observation against the reference. `context` names the class of the observation.
fn judge(mon: &mut Monitor, ctx: &Ctx, context: &str, detail: &Value, exp: &Expect, obs: &Obs, probe: &Probe) {
    mon.eval();
    mon.count(&format!("obs:{context}:{}", obs.tag()));
    match (exp, obs) {
        (_, Obs::Panic(p)) => mon.violation(
            &format!("C12 digest computation panics ({context})"),
            &format!("{p}; step {detail}"),
            ctx.replay(context, detail, exp, obs),
        ),
        (Expect::Root(r), Obs::Root(o)) => {
            if r != o {
                mon.violation(
                    &format!("C12 root differs from the reference over the covered files ({context})"),
                    &format!("expected {r}, observed {o}; step {detail}"),
                    ctx.replay(context, detail, exp, obs),
                );
            }
        }
        (Expect::Root(r), Obs::Err { class, msg }) => {
            if model_is_on_disk(probe) {
                mon.violation(
                    &format!("C12 computation fails although every covered file is present ({context}; {class})"),
                    &format!("expected root {r}, observed error {msg}; step {detail}"),
                    ctx.replay(context, detail, exp, obs),
                );
            } else {
                mon.inconclusive(&format!("the temp database is not readable as written by the harness (environment): {class}: {msg}"));
            }
        }
        (Expect::NoBeaconFile, Obs::Err { .. }) => mon.count("expected_error:no_file_numbered_as_the_beacon"),
        (Expect::NoBeaconFile, Obs::Root(_)) => mon.count("diag:root_returned_without_a_file_numbered_as_the_beacon"),
    }
    if let Expect::Root(r) = exp {
        mon.nontrivial_str(&format!("{r}|{context}|{detail}"));
    }
}

// ---------------------------------------------------------------------------------------------
// cache histories

#[derive(Clone, Copy, Debug, PartialEq)]
enum SlotKind {
    Mem,
    Json(usize),
    JsonViaBuilder(usize),
}

#[derive(Clone, Copy, Debug)]
enum OpKind {
    Tree,
    Message,
    /// compute_digests_for_range(lo..=beacon): leaves cache state behind, root not observed
    Range(u64),
}

#[derive(Clone, Debug)]
struct Op {
    slot: usize,
    kind: OpKind,
    beacon: u64,
}

struct Script {
    name: String,
    slots: Vec<SlotKind>,
    ops: Vec<Op>,
}

fn op(slot: usize, kind: OpKind, beacon: u64) -> Op {
    Op { slot, kind, beacon }
}

fn scripts_for(rng: &mut ChaCha20Rng, files: &[FileSpec], b: u64) -> Vec<Script> {
    let nums = numbers(files);
    let shorter: Vec<u64> = nums.iter().copied().filter(|n| *n < b).collect();
    let longer: Vec<u64> = nums.iter().copied().filter(|n| *n > b).collect();
    let (lo, hi) = (nums[0], *nums.last().unwrap());
    let mut out = vec![];
    for (kname, kind) in [("memory", SlotKind::Mem), ("json", SlotKind::Json(0))] {
        out.push(Script {
            name: format!("{kname}: cold, warm, warm through the signable builder"),
            slots: vec![kind],
            ops: vec![op(0, OpKind::Tree, b), op(0, OpKind::Tree, b), op(0, OpKind::Message, b)],
        });
        if !shorter.is_empty() {
            let s = *rnd::pick(rng, &shorter);
            out.push(Script {
                name: format!("{kname}: partially warm from a shorter earlier run"),
                slots: vec![kind],
                ops: vec![op(0, OpKind::Tree, s), op(0, OpKind::Tree, b)],
            });
        }
        if !longer.is_empty() {
            let l = *rnd::pick(rng, &longer);
            out.push(Script {
                name: format!("{kname}: warm from a longer earlier run"),
                slots: vec![kind],
                ops: vec![op(0, OpKind::Tree, l), op(0, OpKind::Tree, b), op(0, OpKind::Message, b)],
            });
        }
        {
            let a = rnd::range(rng, lo, hi);
            let c = rnd::range(rng, a, hi);
            out.push(Script {
                name: format!("{kname}: partially warm from a digest range computation"),
                slots: vec![kind],
                ops: vec![op(0, OpKind::Range(a), c), op(0, OpKind::Tree, b)],
            });
        }
        if !shorter.is_empty() && !longer.is_empty() {
            let s = *rnd::pick(rng, &shorter);
            let l = *rnd::pick(rng, &longer);
            out.push(Script {
                name: format!("{kname}: longer, shorter, target, longer, shorter"),
                slots: vec![kind],
                ops: vec![op(0, OpKind::Tree, l), op(0, OpKind::Tree, s), op(0, OpKind::Tree, b), op(0, OpKind::Tree, l), op(0, OpKind::Tree, s)],
            });
        }
    }
    // two digesters sharing one JSON cache file, used one after the other
    {
        let first = if shorter.is_empty() { b } else { *rnd::pick(rng, &shorter) };
        let mut ops = vec![op(0, OpKind::Tree, first), op(1, OpKind::Tree, b), op(0, OpKind::Tree, b), op(1, OpKind::Message, b)];
        if !longer.is_empty() {
            ops.push(op(1, OpKind::Tree, *rnd::pick(rng, &longer)));
            ops.push(op(0, OpKind::Tree, b));
        }
        out.push(Script { name: "json: two digesters sharing one cache file sequentially".into(), slots: vec![SlotKind::Json(0), SlotKind::Json(0)], ops });
    }
    // cache file left behind by an earlier process at another beacon
    {
        let other = if !longer.is_empty() && rnd::chance(rng, 1, 2) {
            *rnd::pick(rng, &longer)
        } else if !shorter.is_empty() {
            *rnd::pick(rng, &shorter)
        } else {
            b
        };
        out.push(Script {
            name: "json: cache file pre-existing from another beacon, provider rebuilt through the builder".into(),
            slots: vec![SlotKind::Json(0), SlotKind::JsonViaBuilder(0)],
            ops: vec![op(0, OpKind::Tree, other), op(1, OpKind::Tree, b), op(1, OpKind::Message, b)],
        });
    }
    // random history
    {
        let slots: Vec<SlotKind> = (0..rnd::range(rng, 2, 4))
            .map(|_| match rnd::below(rng, 4) {
                0 => SlotKind::Mem,
                1 => SlotKind::Json(1),
                _ => SlotKind::Json(0),
            })
            .collect();
        let mut ops = vec![];
        for _ in 0..rnd::range(rng, 3, 8) {
            let slot = rnd::usize_below(rng, slots.len());
            let beacon = *rnd::pick(rng, &nums);
            let kind = match rnd::below(rng, 5) {
                0 => OpKind::Range(rnd::range(rng, lo, beacon)),
                1 => OpKind::Message,
                _ => OpKind::Tree,
            };
            ops.push(op(slot, kind, beacon));
        }
        for s in 0..slots.len() {
            ops.push(op(s, OpKind::Tree, b));
        }
        out.push(Script { name: "random history over several providers".into(), slots, ops });
    }
    out
}

fn script_class(s: &Script) -> &'static str {
    let json = s.slots.iter().any(|k| !matches!(k, SlotKind::Mem));
    let mem = s.slots.iter().any(|k| matches!(k, SlotKind::Mem));
    let shared = s.slots.iter().enumerate().any(|(i, a)| {
        s.slots.iter().skip(i + 1).any(|b| match (a, b) {
            (SlotKind::Json(x) | SlotKind::JsonViaBuilder(x), SlotKind::Json(y) | SlotKind::JsonViaBuilder(y)) => x == y,
            _ => false,
        })
    });
    match (mem, json, shared) {
        (true, false, _) => "cache history, memory provider",
        (false, true, false) => "cache history, JSON provider",
        (false, true, true) => "cache history, JSON cache file shared by two digesters",
        _ => "cache history, several providers",
    }
}

fn run_script(env: &Env, mon: &mut Monitor, ctx: &Ctx, script: &Script, files: &[FileSpec], db: &Db, cache_dir: &Path, rng: &mut ChaCha20Rng) {
    let _ = std::fs::remove_dir_all(cache_dir);
    if std::fs::create_dir_all(cache_dir).is_err() {
        mon.inconclusive("cannot create a cache directory");
        return;
    }
    let mut digesters: Vec<Arc<CardanoImmutableDigester>> = vec![];
    for k in &script.slots {
        let provider: Arc<dyn ImmutableFileDigestCacheProvider> = match k {
            SlotKind::Mem => Arc::new(MemoryImmutableFileDigestCacheProvider::default()),
            SlotKind::Json(id) => Arc::new(JsonImmutableFileDigestCacheProvider::new(&cache_dir.join(format!("immutables_digests_{id}.json")))),
            SlotKind::JsonViaBuilder(id) => {
                let name = format!("immutables_digests_{id}.json");
                let built = env.rt.block_on(JsonImmutableFileDigestCacheProviderBuilder::new(cache_dir, &name).ensure_dir_exist().build());
                match built {
                    Ok(p) => Arc::new(p),
                    Err(_) => {
                        mon.inconclusive("JsonImmutableFileDigestCacheProviderBuilder failed");
                        return;
                    }
                }
            }
        };
        digesters.push(Arc::new(CardanoImmutableDigester::new(Some(provider), env.logger.clone())));
    }
    let class = script_class(script);
    mon.count(&format!("script:{}", script.name));
    let mut history: Vec<String> = vec![];
    for o in &script.ops {
        let d = &digesters[o.slot];
        let path = if rnd::chance(rng, 1, 3) { db.immutable_dir() } else { db.root.clone() };
        let epoch = rnd::below(rng, 600);
        match o.kind {
            OpKind::Range(lo) => {
                history.push(format!("slot{}:range({lo}..={})", o.slot, o.beacon));
                let range = lo..=o.beacon;
                match catch(|| env.rt.block_on(d.compute_digests_for_range(&path, &range))) {
                    Ok(Ok(res)) => {
                        mon.count("cache_op:range_ok");
                        // diagnostic only (the statement is about the root): per-file digests of the range
                        for (f, dg) in &res.entries {
                            let want = files.iter().find(|x| x.name == f.filename).map(|x| reference::sha256_hex(&x.content));
                            if want.as_deref() != Some(dg.as_str()) {
                                mon.count("diag:range_digest_differs_from_sha256_of_file");
                            }
                        }
                    }
                    Ok(Err(_)) => mon.count("cache_op:range_error"),
                    Err(p) => mon.violation(
                        &format!("C12 digest computation panics ({class})"),
                        &format!("compute_digests_for_range: {p}"),
                        json!({"shard": ctx.shard, "world": ctx.world, "files": ctx.files_desc, "script": script.name, "history": history}),
                    ),
                }
            }
            OpKind::Tree | OpKind::Message => {
                let via = if matches!(o.kind, OpKind::Tree) { "tree" } else { "message" };
                history.push(format!("slot{}:{via}({})", o.slot, o.beacon));
                let obs = match o.kind {
                    OpKind::Tree => observe_tree(env, d, &path, epoch, o.beacon),
                    _ => observe_message(env, d.clone(), &path, epoch, o.beacon),
                };
                let exp = expectation(files, o.beacon, mon);
                let detail = json!({"script": script.name, "slots": format!("{:?}", script.slots), "history": history, "beacon": o.beacon, "epoch": epoch});
                judge(mon, ctx, class, &detail, &exp, &obs, &Probe { immutable_dir: db.immutable_dir(), files: files.iter().collect() });
                if ctx.shard == 0 && ctx.world == 1 && history.len() == script.ops.len() && script.name.starts_with("json: two") && mon.wants_sample() {
                    mon.sample(json!({"space": class, "script": script.name, "history": history, "beacon": o.beacon, "observed": obs.short(), "expected": format!("{exp:?}")}));
                }
            }
        }
    }
}

// ---------------------------------------------------------------------------------------------
// perturbations (no cache)

enum Undo {
    Write(PathBuf, Vec<u8>),
    Remove(PathBuf),
}

fn undo(u: Undo) -> std::io::Result<()> {
    match u {
        Undo::Write(p, c) => std::fs::write(p, c),
        Undo::Remove(p) => std::fs::remove_file(p),
    }
}

/// (kind, description, files after the change, undo)
fn perturb_inside(rng: &mut ChaCha20Rng, db: &Db, files: &[FileSpec], b: u64) -> Option<(String, Value, Vec<FileSpec>, Undo)> {
    let idx: Vec<usize> = (0..files.len()).filter(|&i| files[i].number <= b).collect();
    let i = *rnd::pick(rng, &idx);
    let f = &files[i];
    let p = db.path_of(f);
    let mut after = files.to_vec();
    let kind = match rnd::below(rng, 8) {
        0 | 1 | 2 => "flip",
        3 => "flip_first",
        4 => "flip_last",
        5 => "append",
        6 => "truncate",
        _ => "remove",
    };
    let (kind, desc): (&str, Value) = match kind {
        "flip" | "flip_first" | "flip_last" if !f.content.is_empty() => {
            let pos = match kind {
                "flip_first" => 0,
                "flip_last" => f.content.len() - 1,
                _ => rnd::usize_below(rng, f.content.len()),
            };
            let x = 1 + rnd::below(rng, 255) as u8;
            after[i].content[pos] ^= x;
            ("single byte changed", json!({"file": f.name, "position": pos, "xor": x, "length": f.content.len()}))
        }
        "truncate" if !f.content.is_empty() => {
            after[i].content.pop();
            ("last byte removed", json!({"file": f.name, "length": f.content.len()}))
        }
        "remove" => {
            after.remove(i);
            ("covered file removed", json!({"file": f.name}))
        }
        _ => {
            let x = rnd::below(rng, 256) as u8;
            after[i].content.push(x);
            ("one byte appended", json!({"file": f.name, "byte": x, "length": f.content.len()}))
        }
    };
    let res = if kind == "covered file removed" { std::fs::remove_file(&p) } else { std::fs::write(&p, &after[i].content) };
    res.ok()?;
    Some((kind.to_string(), desc, after, Undo::Write(p, f.content.clone())))
}

fn perturb_outside(rng: &mut ChaCha20Rng, db: &Db, files: &[FileSpec], extras: &[Extra], b: u64) -> Option<(String, Value, Undo)> {
    let beyond: Vec<&FileSpec> = files.iter().filter(|f| f.number > b).collect();
    let extra_files: Vec<&Extra> = extras.iter().filter(|e| e.content.is_some()).collect();
    let max = files.iter().map(|f| f.number).max().unwrap();
    for _ in 0..8 {
        match rnd::below(rng, 6) {
            0 if !beyond.is_empty() => {
                let f = *rnd::pick(rng, &beyond);
                let mut c = f.content.clone();
                if c.is_empty() {
                    c.push(7);
                } else {
                    let pos = rnd::usize_below(rng, c.len());
                    c[pos] ^= 0x5a;
                }
                std::fs::write(db.path_of(f), &c).ok()?;
                return Some(("byte changed in a file beyond the beacon".into(), json!({"file": f.name}), Undo::Write(db.path_of(f), f.content.clone())));
            }
            1 if !beyond.is_empty() => {
                let f = *rnd::pick(rng, &beyond);
                std::fs::remove_file(db.path_of(f)).ok()?;
                return Some(("file beyond the beacon removed".into(), json!({"file": f.name}), Undo::Write(db.path_of(f), f.content.clone())));
            }
            2 => {
                let name = format!("{:05}.{}", max + 1 + rnd::below(rng, 3), EXTS[rnd::usize_below(rng, 3)]);
                let p = db.immutable_dir().join(&name);
                std::fs::write(&p, rnd::bytes(rng, 33)).ok()?;
                return Some(("new file beyond the beacon".into(), json!({"file": name}), Undo::Remove(p)));
            }
            3 if !extra_files.is_empty() => {
                let e = *rnd::pick(rng, &extra_files);
                let mut c = e.content.clone().unwrap();
                c.push(1);
                std::fs::write(db.root.join(&e.rel), &c).ok()?;
                return Some(("non-immutable file changed".into(), json!({"file": e.rel}), Undo::Write(db.root.join(&e.rel), e.content.clone().unwrap())));
            }
            4 if !extra_files.is_empty() => {
                let e = *rnd::pick(rng, &extra_files);
                std::fs::remove_file(db.root.join(&e.rel)).ok()?;
                return Some(("non-immutable file removed".into(), json!({"file": e.rel}), Undo::Write(db.root.join(&e.rel), e.content.clone().unwrap())));
            }
            5 => {
                let name = *rnd::pick(rng, &["immutable/notes.txt", "immutable/00000.chunk.part", "immutable/00001", "stray.primary.old", "immutable/zzz"]);
                let p = db.root.join(name);
                if p.exists() {
                    continue;
                }
                std::fs::write(&p, rnd::bytes(rng, 20)).ok()?;
                return Some(("new non-immutable file".into(), json!({"file": name}), Undo::Remove(p)));
            }
            _ => {}
        }
    }
    None
}

// ---------------------------------------------------------------------------------------------
// one world

fn files_desc(files: &[FileSpec]) -> Value {
    Value::Array(files.iter().map(|f| json!({"name": f.name, "number": f.number, "len": f.content.len(), "sha256": reference::sha256_hex(&f.content)})).collect())
}

fn run_world(env: &Env, mon: &mut Monitor, rng: &mut ChaCha20Rng, shard: u64, world: u64, dir: &Path, max_trios: u64, layouts: u64, perturbations: u64) {
    let files = gen_files(rng, max_trios);
    let nums = numbers(&files);
    // beacon: often not the last number, so that files beyond the beacon exist
    let b = match rnd::below(rng, 10) {
        0 => nums[0],
        1 | 2 => *nums.last().unwrap(),
        3 | 4 | 5 if nums.len() >= 2 => nums[nums.len() - 2],
        _ => *rnd::pick(rng, &nums),
    };
    let extras = gen_extras(rng, &files);
    let desc = files_desc(&files);
    let ctx = Ctx { shard, world, files_desc: &desc };
    let exp = expectation(&files, b, mon);
    let covered_n = files.iter().filter(|f| f.number <= b).count();
    let beyond_n = files.len() - covered_n;
    mon.count("worlds");
    mon.count_n("covered_files", covered_n as u64);
    mon.count_n("files_beyond_the_beacon", beyond_n as u64);
    if files.iter().filter(|f| f.number <= b).any(|f| f.content.is_empty()) {
        mon.count("worlds_with_an_empty_covered_file");
    }
    if nums.iter().any(|n| *n >= 100_000) && nums.iter().any(|n| *n < 100_000) {
        mon.count("worlds_crossing_99999_100000");
    }
    if files.iter().any(|f| f.name.split('.').next().map(|s| s.len()) != Some(5) && f.number <= b) {
        mon.count("worlds_with_unpadded_or_overpadded_covered_names");
    }
    let fail = |mon: &mut Monitor, e: std::io::Error| mon.inconclusive(&format!("harness i/o error while writing a database: {e}"));

    // A. clean: only the covered files, created in name order, nothing else
    {
        let only: Vec<&FileSpec> = files.iter().filter(|f| f.number <= b).collect();
        let root = dir.join("clean");
        match materialize(&root, &only, &[], None) {
            Ok(db) => {
                let d = no_cache(env);
                let obs = observe_tree(env, &d, &db.root, 1, b);
                judge(mon, &ctx, "no cache, only the covered files", &json!({"beacon": b, "layout": "clean"}), &exp, &obs, &Probe { immutable_dir: db.immutable_dir(), files: only.clone() });
                if mon.wants_sample() && shard < 2 && world == 0 && b > 0 {
                    mon.sample(json!({"space": "clean layout", "beacon": b, "covered_files": covered_n, "files_beyond": beyond_n,
                        "first_files": files.iter().take(4).map(|f| json!({"name": f.name, "len": f.content.len()})).collect::<Vec<_>>(),
                        "observed": obs.short(), "expected": format!("{exp:?}")}));
                }
            }
            Err(e) => fail(mon, e),
        }
        let _ = std::fs::remove_dir_all(&root);
    }

    // B. layouts: creation order, files beyond the beacon, other files, entry path, epoch of the beacon
    let mut full: Option<Db> = None;
    for l in 0..layouts {
        let with_beyond = l == 0 || rnd::chance(rng, 2, 3);
        let with_extras = l == 0 || rnd::chance(rng, 2, 3);
        let shuffled = l == 0 || rnd::chance(rng, 4, 5);
        let sel: Vec<&FileSpec> = files.iter().filter(|f| with_beyond || f.number <= b).collect();
        let ex: Vec<Extra> = if with_extras { extras.clone() } else { vec![] };
        let root = dir.join(format!("layout{l}"));
        let db = match materialize(&root, &sel, &ex, if shuffled { Some(&mut *rng) } else { None }) {
            Ok(db) => db,
            Err(e) => {
                fail(mon, e);
                continue;
            }
        };
        let d = no_cache(env);
        for (via, path) in [("db", db.root.clone()), ("immutable", db.immutable_dir())] {
            let epoch = rnd::below(rng, 600);
            let detail = json!({"beacon": b, "epoch": epoch, "creation_order": if shuffled { "shuffled" } else { "by name" },
                "files_beyond_the_beacon": if with_beyond { beyond_n } else { 0 }, "other_files": ex.iter().map(|e| e.rel.clone()).collect::<Vec<_>>(), "path": via, "layout": l});
            let obs = observe_tree(env, &d, &path, epoch, b);
            judge(mon, &ctx, "no cache, layout variant", &detail, &exp, &obs, &Probe { immutable_dir: db.immutable_dir(), files: sel.clone() });
            if via == "db" {
                let obs2 = observe_message(env, d.clone(), &path, epoch, b);
                judge(mon, &ctx, "no cache, layout variant, signable builder", &detail, &exp, &obs2, &Probe { immutable_dir: db.immutable_dir(), files: sel.clone() });
            }
        }
        if with_beyond {
            mon.count("layouts_with_files_beyond_the_beacon");
        }
        if with_extras {
            mon.count("layouts_with_other_files");
        }
        if l == 0 {
            full = Some(db);
        } else {
            let _ = std::fs::remove_dir_all(&root);
        }
    }
    let Some(db) = full else { return };

    // B'. other beacons on the full layout (every number that has files, plus one that has none)
    {
        let d = no_cache(env);
        let mut others: Vec<u64> = nums.clone();
        rnd::shuffle(rng, &mut others);
        others.truncate(3);
        others.push(nums.last().unwrap() + 1 + rnd::below(rng, 3));
        if let Some(g) = (nums[0]..*nums.last().unwrap()).find(|n| !nums.contains(n)) {
            others.push(g);
        }
        if nums[0] > 0 {
            others.push(nums[0] - 1);
        }
        for x in others {
            let e = expectation(&files, x, mon);
            let obs = observe_tree(env, &d, &db.root, 3, x);
            judge(mon, &ctx, "no cache, other beacon on the same directory", &json!({"beacon": x}), &e, &obs, &Probe { immutable_dir: db.immutable_dir(), files: files.iter().collect() });
        }
    }

    // C. cache histories on the full layout (files unchanged throughout)
    for (i, script) in scripts_for(rng, &files, b).iter().enumerate() {
        run_script(env, mon, &ctx, script, &files, &db, &dir.join(format!("cache{i}")), rng);
    }

    // D. perturbations, no cache
    let d = no_cache(env);
    let base = observe_tree(env, &d, &db.root, 2, b);
    judge(mon, &ctx, "no cache, layout variant", &json!({"beacon": b, "layout": "full, before perturbations"}), &exp, &base, &Probe { immutable_dir: db.immutable_dir(), files: files.iter().collect() });
    if let (Obs::Root(r0), Expect::Root(_)) = (&base, &exp) {
        for _ in 0..perturbations {
            // inside the covered set
            if let Some((kind, pdesc, after, u)) = perturb_inside(rng, &db, &files, b) {
                let obs = observe_tree(env, &d, &db.root, 2, b);
                mon.eval();
                mon.count(&format!("perturbation_inside:{kind}:{}", obs.tag()));
                let detail = json!({"beacon": b, "perturbation": kind, "where": pdesc});
                mon.nontrivial_str(&format!("{r0}|inside|{detail}"));
                if shard == 0 && world == 2 && mon.wants_sample() && mon.counter("sampled_inside") == 0 {
                    mon.count("sampled_inside");
                    mon.sample(json!({"space": "perturbation inside the covered set", "step": detail, "root_before": r0, "observed_after": obs.short()}));
                }
                match &obs {
                    Obs::Root(r) if r == r0 => mon.violation(
                        &format!("C12 root unchanged by a change inside the covered set (no cache; {kind})"),
                        &format!("root stays {r0} after: {detail}"),
                        ctx.replay("perturbation inside", &detail, &exp, &obs),
                    ),
                    Obs::Panic(p) => mon.violation(
                        "C12 digest computation panics (perturbed covered set)",
                        &format!("{p}; {detail}"),
                        ctx.replay("perturbation inside", &detail, &exp, &obs),
                    ),
                    _ => {}
                }
                // and the new root is the reference root of the changed database
                let e2 = expectation(&after, b, mon);
                judge(mon, &ctx, "no cache, after a change inside the covered set", &detail, &e2, &obs, &Probe { immutable_dir: db.immutable_dir(), files: after.iter().collect() });
                if undo(u).is_err() {
                    mon.inconclusive("harness i/o error while restoring a file");
                    return;
                }
            }
            // outside the covered set
            if let Some((kind, pdesc, u)) = perturb_outside(rng, &db, &files, &extras, b) {
                let obs = observe_tree(env, &d, &db.root, 2, b);
                mon.eval();
                mon.count(&format!("perturbation_outside:{kind}:{}", obs.tag()));
                let detail = json!({"beacon": b, "perturbation": kind, "where": pdesc});
                mon.nontrivial_str(&format!("{r0}|outside|{detail}"));
                if shard == 0 && world == 2 && mon.wants_sample() && mon.counter("sampled_outside") == 0 {
                    mon.count("sampled_outside");
                    mon.sample(json!({"space": "perturbation outside the covered set", "step": detail, "root_before": r0, "observed_after": obs.short()}));
                }
                if obs != base {
                    mon.violation(
                        &format!("C12 result changed by a change outside the covered set (no cache; {kind})"),
                        &format!("{} became {} after: {detail}", base.short(), obs.short()),
                        ctx.replay("perturbation outside", &detail, &exp, &obs),
                    );
                }
                if undo(u).is_err() {
                    mon.inconclusive("harness i/o error while restoring a file");
                    return;
                }
            }
        }
        // everything restored: same root again
        let again = observe_tree(env, &d, &db.root, 2, b);
        judge(mon, &ctx, "no cache, layout variant", &json!({"beacon": b, "layout": "full, after all perturbations were undone"}), &exp, &again, &Probe { immutable_dir: db.immutable_dir(), files: files.iter().collect() });
    }
}

fn run_shard(shard: u64, mon: &mut Monitor, base: &Path, worlds: u64, max_trios: u64, layouts: u64, perturbations: u64) {
    let rt = match tokio::runtime::Builder::new_multi_thread().worker_threads(1).max_blocking_threads(4).enable_all().build() {
        Ok(rt) => rt,
        Err(e) => {
            mon.inconclusive(&format!("cannot build a tokio runtime: {e}"));
            return;
        }
    };
    let env = Env { rt, logger: slog::Logger::root(slog::Discard, slog::o!()) };
    for w in 0..worlds {
        // one generator per world: a world can be rebuilt from (seed, shard, world) alone
        let mut rng = mon.rng("c12", shard * 1_000_000 + w);
        let dir = base.join(format!("s{shard}w{w}"));
        let _ = std::fs::remove_dir_all(&dir);
        run_world(&env, mon, &mut rng, shard, w, &dir, max_trios, layouts, perturbations);
        let _ = std::fs::remove_dir_all(&dir);
    }
}

fn main() {
    let args = vcore::parse_args();
    vcore::install_panic_hook();
    let mut mon = Monitor::new(&args);
    if args.prop != "C12" {
        eprintln!("mon-digest: unknown property {}", args.prop);
        std::process::exit(2);
    }
    let base = std::env::temp_dir().join(format!("verif-digest-{}", std::process::id()));
    let _ = std::fs::remove_dir_all(&base);
    if let Err(e) = std::fs::create_dir_all(&base) {
        mon.inconclusive(&format!("cannot create {}: {e}", base.display()));
    }
    let (shards, worlds, max_trios, layouts, perturbations) = match args.tier {
        Tier::Quick => (16u64, 20u64, 30u64, 4u64, 8u64),
        Tier::Thorough => (64, 300, 30, 6, 16),
    };
    let b = base.clone();
    vcore::run_shards(&mut mon, shards, vcore::default_threads(), |s, m| run_shard(s, m, &b, worlds, max_trios, layouts, perturbations));
    let _ = std::fs::remove_dir_all(&base);

    mon.finish(
        "databases = 2-30 immutable numbers starting at 0, 1, small, just below 100000 (name order != numeric order) or large; trios with occasionally a missing member or a whole missing number; file sizes 0-4096 incl. empty and duplicated contents; sometimes extra immutable files of the same number with unpadded / 8-digit names; beacon = first, last, last but one or random number. Observations (real digester on real temp directories, compared with the harness's own sha256 + own Merkle-mountain-range root over covered files sorted by (number, name)): (A) only the covered files created in name order; (B) layout variants: shuffled creation order, files beyond the beacon, non-immutable names inside immutable/ (other extensions, no extension, nested directory holding immutable-named files, directory named like an immutable file), sibling ledger/ volatile/ and root lock files holding immutable-named files, database root vs immutable directory as entry path, varying beacon epoch, through compute_merkle_tree and through CardanoDatabaseSignableBuilder::compute_protocol_message; other beacons on the same directory incl. numbers without files (error expected); (C) cache histories over unchanged files with memory and JSON providers: cold, warm, partially warm from a shorter run, warm from a longer run, partially warm from compute_digests_for_range, zig-zag over three beacons, two digesters sharing one JSON cache file sequentially, cache file pre-existing from another beacon with the provider rebuilt through its builder, random histories over 2-4 providers - every root computed along a history is checked; (D) no cache: single byte changed (any, first, last position) / appended / removed, covered file removed => root must differ from before (or error) and equal the reference of the changed database; byte changed in / removal of / addition of files beyond the beacon and non-immutable files => result identical. Non-trivial = an observation for which the reference expects a root (distinct = distinct (reference root, observation class, step description)) or a perturbation case.",
        &[
            "sha2 / blake2 crates as reference primitives; the repo's MKTree is used only to cross-check the harness's own tree combiner (a disagreement there makes the run inconclusive, not violated)",
            "no second directory named `immutable` anywhere else in the database; no symlinks",
            "files are never modified between a cached computation and a later one (the statement says unchanged files); perturbations are only observed without cache",
            "non-immutable files use names outside the extension filter (.chunk/.primary/.secondary with a non-numeric stem make the listing fail by design and are not generated)",
            "a beacon for which no file carries exactly that number legitimately errors (NotEnoughImmutable); a root returned there is only counted (diag)",
            "the digester has no compute_digest entry point in this tree: observed at compute_merkle_tree and compute_protocol_message",
        ],
        args.tier.pick(5_000, 200_000),
    );
}
