//! C12 reference: the root a database must have at a beacon, computed from the harness's in-memory
//! model of the files (never from the directory, never with the digester under test).
//!
//!   leaves = for every immutable file with number <= beacon, sorted by (number, file name):
//!            the 64 ASCII characters of hex(sha256(content))
//!   root   = Merkle mountain range over the leaves, inner node = blake2s256(left || right),
//!            peaks bagged from the right: acc = blake2s256(acc_right || peak_left)
//!
//! The tree combiner is written here from scratch; `combine_with_repo_mktree` is the repo's MKTree over
//! the same leaves and is only used to tell a combiner discrepancy (not C12's business, and a reason to
//! call the run inconclusive) from a digest discrepancy.
use blake2::Blake2s256;
use sha2::{Digest, Sha256};

#[derive(Clone, Debug)]
pub struct FileSpec {
    pub number: u64,
    pub name: String,
    pub content: Vec<u8>,
}

#[derive(Clone, Debug, PartialEq, Eq)]
pub enum Expect {
    /// every covered file present, a file numbered exactly `beacon` exists: this root
    Root(String),
    /// no file is numbered exactly `beacon` (or nothing at all is covered): the code legitimately errors
    NoBeaconFile,
}

pub fn sha256_hex(b: &[u8]) -> String {
    hex::encode(Sha256::digest(b))
}

pub fn covered<'a>(files: &'a [FileSpec], beacon: u64) -> Vec<&'a FileSpec> {
    let mut v: Vec<&FileSpec> = files.iter().filter(|f| f.number <= beacon).collect();
    v.sort_by(|a, b| a.number.cmp(&b.number).then(a.name.as_bytes().cmp(b.name.as_bytes())));
    v
}

pub fn leaves(files: &[FileSpec], beacon: u64) -> Vec<String> {
    covered(files, beacon).iter().map(|f| sha256_hex(&f.content)).collect()
}

fn h2(l: &[u8], r: &[u8]) -> Vec<u8> {
    let mut h = Blake2s256::new();
    h.update(l);
    h.update(r);
    h.finalize().to_vec()
}

fn perfect(leaves: &[Vec<u8>]) -> Vec<u8> {
    if leaves.len() == 1 {
        leaves[0].clone()
    } else {
        let (l, r) = leaves.split_at(leaves.len() / 2);
        h2(&perfect(l), &perfect(r))
    }
}

/// own Merkle-mountain-range root
pub fn mmr_root(leaves: &[String]) -> Option<String> {
    let n = leaves.len();
    if n == 0 {
        return None;
    }
    let raw: Vec<Vec<u8>> = leaves.iter().map(|s| s.as_bytes().to_vec()).collect();
    let mut peaks: Vec<Vec<u8>> = vec![];
    let mut at = 0usize;
    for bit in (0..usize::BITS).rev() {
        let sz = 1usize << bit;
        if n & sz != 0 {
            peaks.push(perfect(&raw[at..at + sz]));
            at += sz;
        }
    }
    while peaks.len() > 1 {
        let right = peaks.pop().unwrap();
        let left = peaks.pop().unwrap();
        peaks.push(h2(&right, &left));
    }
    Some(hex::encode(peaks.pop().unwrap()))
}

pub fn combine_with_repo_mktree(leaves: &[String]) -> Option<String> {
    use mithril_common::crypto_helper::{MKTree, MKTreeStoreInMemory};
    let t: MKTree<MKTreeStoreInMemory> = MKTree::new(leaves).ok()?;
    Some(t.compute_root().ok()?.to_hex())
}

pub fn expect(files: &[FileSpec], beacon: u64) -> Expect {
    if !files.iter().any(|f| f.number == beacon) {
        return Expect::NoBeaconFile;
    }
    match mmr_root(&leaves(files, beacon)) {
        Some(r) => Expect::Root(r),
        None => Expect::NoBeaconFile,
    }
}
