//! One history = one simulated node + one importing process (restarted at will) + the oracles.
//!
//! Oracle 1 (recomputation from scratch), after every import:
//!   * the import consulted the node (target above the highest stored block): the four tables must
//!     equal those of a FRESH importer on a FRESH database that imports the node's current chain
//!     once up to the same target (blocks / transactions at or above the highest prune threshold
//!     ever applied; block range roots always);
//!   * the import did not consult the node (target at or below the highest stored block, the
//!     importer returns early): the tables must be unchanged w.r.t. the last synchronisation, AND
//!     the part at or below the target (blocks <= T, range roots with end <= T+1) must equal a fresh
//!     import up to T of the node's current chain;
//!   after a restart / explicit prune: the tables must be unchanged (modulo pruned blocks).
//! Oracle 2 ("consequently" clause), for chosen beacons b <= T:
//!   (2a) the root the real signable builders offer at b from the stored state == the root offered
//!        by the fresh node of oracle 1 (same import depth);
//!   (2b) that root == the root offered by a fresh node that imported exactly up to b.
//!   Legacy beacons are only judged when b = 14 (mod 15): `CardanoTransactionsSigningConfig::
//!   compute_block_number_to_be_signed` only produces such beacons; v2 beacons can be any number
//!   (`CardanoBlocksTransactionsSigningConfig` has no alignment).
//! A history stops at its first oracle-1 violation (the state is corrupt afterwards).
use std::collections::{BTreeSet, HashMap};
use std::path::{Path, PathBuf};
use std::sync::atomic::{AtomicU64, Ordering};
use std::sync::{Arc, Mutex};

use mithril_cardano_node_chain::chain_importer::ChainDataPruner;
use mithril_common::entities::BlockNumber;
use rand_chacha::ChaCha20Rng;
use rand_core::{RngCore, SeedableRng};
use serde_json::{json, Value};
use sha2::{Digest, Sha256};
use vcore::rnd;
use vcore::Monitor;

use crate::node::{ChainProfile, Node};
use crate::oracle::{self, compare};
use crate::reader::MidImportReorg;
use crate::sut::{Flavour, Snapshot, Sut, SutConfig};

pub const KNOWN_V2: &str = "C13 v2 partial last range root depends on import depth";
pub const EARLY_RETURN: &str = "C13 import with a target at or below the highest stored block returns early and keeps data rolled back below the target";
const RANGE: u64 = 15;
/// pseudo shard number of the scripted scenarios of main.rs (replay files carry it)
pub const SCRIPTED_SHARD: u64 = 999;

#[derive(Clone, Copy, Debug)]
pub enum Step {
    Forward(usize),
    /// the node rolls back to its block with this number (and stays there until the next Forward)
    RollBackToNumber(u64),
    Import(u64, Via),
    /// import(target) whose `nth` write of a batch of blocks fails (injected store failure),
    /// followed by a retry of the same import in the same process
    ImportWithStoreFault(u64, i64),
    /// import(target) during which, after `reads` answers of the chain-sync server, the node
    /// switches to a fork that drops its last `depth` blocks and has `new_blocks` new ones
    ImportWithReorg(u64, usize, usize, usize),
    Restart,
    Prune(u64),
}

#[derive(Clone, Copy, Debug, PartialEq)]
pub enum Via {
    Importer,
    LegacyBuilder,
    V2Builder,
}

struct Expected {
    target: u64,
    hashes: BTreeSet<String>,
    snapshot: Snapshot,
    /// the fresh node of the last synchronisation, kept open for root queries
    sut: Sut,
}

pub struct History<'a> {
    mon: &'a mut Monitor,
    rng: ChaCha20Rng,
    shard: u64,
    index: u64,
    dir: PathBuf,
    template: Option<PathBuf>,
    node: Arc<Mutex<Node>>,
    cfg: SutConfig,
    profile: ChainProfile,
    db_path: PathBuf,
    sut: Option<Sut>,
    floor: Arc<AtomicU64>,
    events: Vec<Value>,
    expected: Option<Expected>,
    stored: Snapshot,
    first_import_after_restart: bool,
    perturbed: bool,
    last_target: Option<u64>,
    /// injected store failure armed for the next import (writes let through before the failure)
    arm_store_fault: Option<i64>,
    /// an injected store failure was reported and no import has consulted the node on the same
    /// connection since
    after_failed_write: bool,
    /// a known root cause fired during an import that was NOT judged (it ended with the injected
    /// store failure or the modelled chain-sync time-out): what it left behind is only seen by a
    /// later, judged import and is filed under the same root cause. Cleared when the store is wiped
    /// or found equal to a fresh import.
    taint: Option<&'static str>,
    ref_counter: u64,
    root_cache: HashMap<(String, u64), (String, String)>,
    dead: bool,
    reported_once: BTreeSet<String>,
    witnesses: u32,
    verbose: bool,
}

fn remove_db(path: &Path) {
    for suffix in ["", "-wal", "-shm", "-journal"] {
        let mut p = path.as_os_str().to_owned();
        p.push(suffix);
        let _ = std::fs::remove_file(PathBuf::from(p));
    }
}

impl<'a> History<'a> {
    pub fn new(mon: &'a mut Monitor, dir: &Path, template: Option<PathBuf>, shard: u64, index: u64, verbose: bool) -> History<'a> {
        let mut rng = mon.rng("c13-history", shard * 1_000_000 + index);
        let profile = ChainProfile {
            sparse_numbers: rnd::chance(&mut rng, 1, 3),
            empty_block_pct: *rnd::pick(&mut rng, &[0, 20, 50, 85]),
            drought_toggle_pct: *rnd::pick(&mut rng, &[0, 3, 8]),
            first_number: None,
        };
        let flavour = if rnd::chance(&mut rng, 1, 2) { Flavour::Signer } else { Flavour::Aggregator };
        let signer = flavour == Flavour::Signer;
        let cfg = SutConfig {
            flavour,
            pool_size: if signer { 1 } else { 1 + rnd::usize_below(&mut rng, 3) },
            prune_keep: if signer && rnd::chance(&mut rng, 1, 2) { Some(rnd::range(&mut rng, 0, 60)) } else { None },
            // ByChunk computes intermediate targets `highest stored + chunk`; with gaps in the numbering
            // these are not existing block numbers (cannot happen on Cardano, see node.rs), so the
            // decorator is only used with consecutive numbers
            chunk: if signer && !profile.sparse_numbers && rnd::chance(&mut rng, 2, 3) { Some(*rnd::pick(&mut rng, &[5, 10, 15, 16, 30, 50, 100])) } else { None },
            max_roll_forwards_per_poll: *rnd::pick(&mut rng, &[1, 2, 3, 7, 20, 100, 1000]),
            sqlite_mktree: signer && rnd::chance(&mut rng, 1, 4),
        };
        let node = Arc::new(Mutex::new(Node::new(profile.clone())));
        let db_path = dir.join(format!("sut-{shard}-{index}.db"));
        remove_db(&db_path);
        History {
            mon,
            rng,
            shard,
            index,
            dir: dir.to_path_buf(),
            template,
            node,
            cfg,
            profile,
            db_path,
            sut: None,
            floor: Arc::new(AtomicU64::new(0)),
            events: vec![],
            expected: None,
            stored: Snapshot::default(),
            first_import_after_restart: false,
            perturbed: false,
            last_target: None,
            arm_store_fault: None,
            after_failed_write: false,
            taint: None,
            ref_counter: 0,
            root_cache: HashMap::new(),
            dead: false,
            reported_once: BTreeSet::new(),
            witnesses: 0,
            verbose,
        }
    }

    fn chain_json(&self) -> Value {
        let n = self.node.lock().unwrap();
        Value::Array(n.chain.iter().map(|id| {
            let b = &n.blocks[*id];
            json!([b.number, b.slot, &b.hash_hex()[..8], b.txs.len()])
        }).collect())
    }

    fn replay(&self, details: Value) -> Value {
        json!({
            "seed": self.mon.seed, "shard": self.shard, "history": self.index,
            "how_to_replay": "mon-import C13 --replay <this file>   (re-runs history (shard, history) of the seed, verbose)",
            "sut_config": self.cfg.describe(),
            "chain_profile": {"sparse_block_numbers": self.profile.sparse_numbers, "empty_block_pct": self.profile.empty_block_pct, "drought_toggle_pct": self.profile.drought_toggle_pct},
            "events": self.events,
            "canonical_chain_now(number,slot,hash8,ntx)": self.chain_json(),
            "stored_now": summary(&self.stored),
            "prune_floor": self.floor.load(Ordering::SeqCst),
            "details": details,
        })
    }

    /// After an oracle-1 witness the stored state is corrupt: the store is wiped (new empty database,
    /// new importer, new connection) so that the rest of the history still explores something.
    fn reset_store(&mut self) {
        self.events.push(json!("store wiped by the harness after a witness"));
        self.mon.count("store wiped after a witness");
        self.sut = None;
        remove_db(&self.db_path);
        if let Some(x) = self.expected.take() {
            Self::drop_ref(x.sut);
        }
        self.stored = Snapshot::default();
        self.taint = None;
        self.floor.store(0, Ordering::SeqCst);
        self.first_import_after_restart = false;
        self.witnesses += 1;
        if self.witnesses >= 4 || !self.open_sut() {
            self.dead = true;
        }
    }

    /// a witness that does not corrupt the stored state (no wipe needed); reported once per history
    fn violate_keep(&mut self, signature: &str, what: &str, details: Value) {
        if self.reported_once.insert(signature.to_string()) {
            self.violate(signature, what, details);
        } else {
            self.mon.count(&format!("witness (repeated in the same history): {signature}"));
        }
    }

    fn violate(&mut self, signature: &str, what: &str, details: Value) {
        let r = self.replay(details);
        if self.verbose {
            println!("VIOLATION {signature}\n  {what}\n{}", serde_json::to_string_pretty(&r["details"]).unwrap_or_default());
        }
        self.mon.count(&format!("witness: {signature}"));
        // debugging aid: VERIF_C13_FOCUS=<substring> writes replay files for matching classes only
        if let Ok(f) = std::env::var("VERIF_C13_FOCUS") {
            if !signature.contains(&f) {
                return;
            }
        }
        self.mon.violation(signature, what, r);
    }

    fn open_sut(&mut self) -> bool {
        match Sut::open(&self.db_path, &self.cfg, self.node.clone(), self.floor.clone()) {
            Ok(s) => {
                self.sut = Some(s);
                true
            }
            Err(e) => {
                self.mon.inconclusive(&format!("harness: cannot open the database: {e:#}"));
                self.dead = true;
                false
            }
        }
    }

    /// fresh importer on a fresh database over a frozen view of the fork tree with `chain` as
    /// canonical chain
    fn fresh(&mut self, chain: &[usize]) -> Result<Sut, String> {
        self.ref_counter += 1;
        let path = self.dir.join(format!("ref-{}-{}-{}.db", self.shard, self.index, self.ref_counter));
        remove_db(&path);
        if let Some(t) = &self.template {
            std::fs::copy(t, &path).map_err(|e| format!("copy template: {e}"))?;
        }
        let view = self.node.lock().unwrap().with_chain(chain);
        Sut::open(&path, &SutConfig::reference(), Arc::new(Mutex::new(view)), Arc::new(AtomicU64::new(0))).map_err(|e| format!("{e:#}"))
    }

    fn drop_ref(s: Sut) {
        let p = s.path.clone();
        drop(s);
        remove_db(&p);
    }

    // ------------------------------------------------------------------------------------ events

    fn ev_forward(&mut self, n: usize) {
        let mut node = self.node.lock().unwrap();
        node.forward(n, &mut self.rng);
        let tip = node.tip().map(|b| (b.number, b.slot));
        drop(node);
        self.mon.count("event:forward");
        self.mon.count_n("blocks_produced", n as u64);
        self.events.push(json!({"forward": n, "tip(number,slot)": tip}));
    }

    fn ev_rollback(&mut self) {
        let (keep, requested) = {
            let node = self.node.lock().unwrap();
            let len = node.chain.len();
            if len == 0 {
                return;
            }
            let pos_of_stored = |b: Option<&(u64, u64, String)>| -> Option<usize> {
                let b = b?;
                let h = hex::decode(&b.2).ok()?;
                node.find_on_chain(b.1, &h).and_then(|id| node.pos_of(id))
            };
            let lowest = pos_of_stored(self.stored.lowest());
            let highest = pos_of_stored(self.stored.blocks.last());
            let mut choice: Option<(Option<usize>, &'static str)> = None;
            for _ in 0..6 {
                let c = match rnd::below(&mut self.rng, 100) {
                    0..=19 => Some((Some(rnd::usize_below(&mut self.rng, len)), "any earlier point")),
                    20..=31 => len.checked_sub(2 + rnd::usize_below(&mut self.rng, 5)).map(|p| (Some(p), "shallow")),
                    32..=33 => Some((None, "origin")),
                    34..=47 => lowest.map(|p| (Some(p), "first stored block")),
                    48..=52 => match lowest {
                        Some(0) => Some((None, "before the first stored block")),
                        Some(p) => Some((Some(rnd::usize_below(&mut self.rng, p)), "before the first stored block")),
                        None => None,
                    },
                    53..=69 => highest.and_then(|p| match rnd::below(&mut self.rng, 3) {
                        0 => Some((Some(p), "highest stored block")),
                        1 => p.checked_sub(1).map(|q| (Some(q), "highest stored block - 1")),
                        _ => (p + 1 < len).then_some((Some(p + 1), "highest stored block + 1")),
                    }),
                    70..=89 => {
                        // a block next to a block range boundary, preferably within what is stored
                        let hi = highest.unwrap_or(len - 1);
                        let cands: Vec<usize> = (0..len).filter(|p| *p <= hi && matches!(node.at(*p).number % RANGE, 13 | 14 | 0 | 1)).collect();
                        (!cands.is_empty()).then(|| (Some(cands[rnd::usize_below(&mut self.rng, cands.len())]), "range boundary +-1"))
                    }
                    _ => self.last_target.and_then(|t| node.pos_at_or_below_number(t)).map(|p| (Some(p), "last import target")),
                };
                if let Some((k, _)) = c {
                    // rolling back to the tip is not a roll-back
                    if k != Some(len - 1) {
                        choice = c;
                        break;
                    }
                }
            }
            match choice {
                Some(c) => c,
                None => return,
            }
        };
        let removed = self.apply_rollback(keep, requested);
        // A real node only switches to a longer chain: most of the time the new fork is longer than
        // what was removed; sometimes the history lets the importer look at the node while the new
        // fork is still shorter, or before it has any block.
        match rnd::below(&mut self.rng, 10) {
            0..=6 => {
                let n = removed + 1 + rnd::usize_below(&mut self.rng, 10);
                self.ev_forward(n);
            }
            7..=8 => {
                let n = 1 + rnd::usize_below(&mut self.rng, removed.max(1));
                self.ev_forward(n);
            }
            _ => {}
        }
    }

    fn apply_rollback(&mut self, keep: Option<usize>, requested: &str) -> usize {
        // effect relative to what is stored
        let (effect, point, boundary) = {
            let node = self.node.lock().unwrap();
            let point = keep.map(|p| (node.at(p).number, node.at(p).slot));
            let effect = match (point, self.stored.lowest(), self.stored.blocks.last()) {
                (_, None, _) | (_, _, None) => "nothing stored",
                (None, _, _) => "to origin",
                (Some((_, s)), Some(lo), Some(hi)) => {
                    if s < lo.1 {
                        "below the first stored block"
                    } else if s == lo.1 {
                        "at the first stored block"
                    } else if s == hi.1 {
                        "at the highest stored block"
                    } else if s > hi.1 {
                        "above the highest stored block"
                    } else {
                        "inside the stored blocks"
                    }
                }
            };
            let boundary = match point.map(|p| p.0 % RANGE) {
                Some(14) => "last block of a range",
                Some(0) => "first block of a range",
                Some(13) => "range end - 1",
                Some(1) => "range start + 1",
                _ => "inside a range",
            };
            (effect, point, boundary)
        };
        let removed = self.node.lock().unwrap().roll_back(keep);
        self.mon.count("event:roll_back");
        self.mon.count(&format!("roll_back requested: {requested}"));
        self.mon.count(&format!("roll_back effect: {effect}"));
        self.mon.count(&format!("roll_back point: {boundary}"));
        if !matches!(effect, "nothing stored" | "above the highest stored block") {
            self.perturbed = true;
        }
        self.events.push(json!({"roll_back": {"to(number,slot)": point, "class": requested, "effect_on_store": effect, "blocks_removed": removed}}));
        removed
    }

    async fn ev_restart(&mut self) {
        self.sut = None;
        self.mon.count("event:restart");
        self.events.push(json!("restart"));
        self.perturbed = true;
        if !self.open_sut() {
            return;
        }
        self.first_import_after_restart = true;
        self.after_failed_write = false;
        self.check_unchanged("a restart").await;
    }

    async fn ev_reconnect(&mut self) {
        if let Some(s) = &self.sut {
            s.kill_connection().await;
        }
        self.mon.count("event:connection_lost");
        self.events.push(json!("connection lost"));
        self.perturbed = true;
        self.after_failed_write = false;
    }

    async fn ev_prune(&mut self, keep: u64) {
        let Some(s) = &self.sut else { return };
        let r = s.pruner.prune(BlockNumber(keep)).await;
        self.mon.count("event:prune");
        self.events.push(json!({"prune": {"keep": keep, "floor_after": self.floor.load(Ordering::SeqCst), "error": r.as_ref().err().map(|e| format!("{e:#}"))}}));
        if let Err(e) = r {
            self.violate("C13 explicit prune fails", &format!("prune({keep}) returned an error: {e:#}"), json!({}));
            self.reset_store();
            return;
        }
        self.perturbed = true;
        self.check_unchanged("an explicit prune").await;
    }

    async fn check_unchanged(&mut self, after_what: &str) {
        let snap = match Snapshot::read(&self.db_path) {
            Ok(s) => s,
            Err(e) => {
                self.mon.inconclusive(&format!("harness: cannot read the database: {e:#}"));
                self.dead = true;
                return;
            }
        };
        self.stored = snap;
        let floor = self.floor.load(Ordering::SeqCst);
        let Some(exp) = &self.expected else { return };
        self.mon.eval();
        self.mon.count("comparisons:state unchanged");
        let d = compare(&self.stored, &exp.snapshot, floor, None, &exp.hashes);
        if !d.is_empty() {
            let sig = format!("{} (state changed by {after_what}, no import in between)", d.class(floor));
            let what = format!("after {after_what} the stored state differs from the state of the last synchronisation (target {})", exp.target);
            let details = json!({"diff": d.to_json()});
            self.violate(&sig, &what, details);
            self.reset_store();
        }
    }

    fn pick_target(&mut self) -> Option<u64> {
        let tip = self.node.lock().unwrap().tip_number()?;
        let h = self.stored.highest_number();
        let t = match rnd::below(&mut self.rng, 100) {
            0..=34 => tip,
            35..=49 => tip.saturating_sub(rnd::below(&mut self.rng, 5)),
            50..=64 => match h {
                Some(h) if h < tip => rnd::range(&mut self.rng, h + 1, tip),
                _ => tip,
            },
            65..=79 => {
                let k = rnd::range(&mut self.rng, 0, tip / RANGE + 1) * RANGE;
                let c = match rnd::below(&mut self.rng, 3) {
                    0 => k.saturating_sub(1),
                    1 => k,
                    _ => k + 1,
                };
                c.min(tip)
            }
            80..=89 => match h {
                Some(h) => rnd::range(&mut self.rng, 0, h.min(tip)),
                None => rnd::range(&mut self.rng, 0, tip),
            },
            _ => rnd::range(&mut self.rng, 0, tip),
        };
        // target 0 is left out: ChainDataImporterByChunk starts from `highest stored or 0` and loops
        // `while intermediate < target`, so import(0) on an empty store is a no-op there while the
        // plain importer stores a block numbered 0 (noted in the report, not a roll-back matter)
        Some(self.existing_number(t.max(1)))
    }

    /// number of the canonical block at or below `t` (the first block's number when there is none):
    /// every block number <= tip exists on Cardano, so a target is always an existing number
    fn existing_number(&self, t: u64) -> u64 {
        let n = self.node.lock().unwrap();
        match n.pos_at_or_below_number(t) {
            Some(p) => n.at(p).number,
            None => n.chain.first().map(|id| n.blocks[*id].number).unwrap_or(t),
        }
    }

    async fn ev_import(&mut self, target: u64, via: Via, reorg: Option<(usize, usize, usize)>) {
        if self.sut.is_none() {
            return;
        }
        let before = self.stored.clone();
        let non_monotone = before.highest_number().map(|h| target <= h).unwrap_or(false);
        if non_monotone {
            self.perturbed = true;
        }
        let sut = self.sut.as_ref().unwrap();
        {
            let mut l = sut.log.lock().unwrap();
            l.relayed.clear();
        }
        if let Some((reads, depth, newb)) = reorg {
            let mut seed = [0u8; 32];
            self.rng.fill_bytes(&mut seed);
            *sut.script.lock().unwrap() = Some(MidImportReorg { reads_left: reads, depth, new_blocks: newb, rng: ChaCha20Rng::from_seed(seed) });
        }
        let armed = self.arm_store_fault.take();
        if let Some(n) = armed {
            sut.store_fault_fired.store(false, Ordering::SeqCst);
            sut.store_fault.store(n, Ordering::SeqCst);
        }
        let res: Result<Option<String>, String> = match via {
            Via::Importer => sut.importer.import(BlockNumber(target)).await.map(|_| None).map_err(|e| format!("{e:#}")),
            Via::LegacyBuilder | Via::V2Builder => {
                let s = if via == Via::LegacyBuilder { sut.sign_legacy(target).await } else { sut.sign_v2(target).await };
                match s.import_error {
                    Some(e) => Err(e),
                    None => Ok(Some(s.root)),
                }
            }
        };
        sut.store_fault.store(-1, Ordering::SeqCst);
        let store_fault_fired = armed.is_some() && sut.store_fault_fired.swap(false, Ordering::SeqCst);
        if store_fault_fired {
            self.perturbed = true;
            self.mon.count("injected store failure fired");
        } else if armed.is_some() {
            self.mon.count("injected store failure armed but the import ended before it");
        }
        // a scripted re-organisation that did not fire is cancelled
        let reorg_fired = reorg.is_some() && sut.script.lock().unwrap().take().is_none();
        if reorg_fired {
            self.perturbed = true;
            self.mon.count("mid_import_reorg_fired");
        }
        let root_cause: Option<&'static str>;
        let (cause, relayed, consulted, timeout, buffer_rb) = {
            let l = sut.log.lock().unwrap();
            let consulted = !l.relayed.is_empty();
            let timeout = l.relayed.iter().any(|r| matches!(r, crate::reader::Relayed::Timeout));
            // a roll-back to a block relayed earlier in the same import (candidate for the
            // streamer's in-buffer handling)
            let mut fw = BTreeSet::new();
            let mut buffer_rb = false;
            for r in &l.relayed {
                match r {
                    crate::reader::Relayed::Forward { slot, .. } => {
                        fw.insert(*slot);
                    }
                    crate::reader::Relayed::Backward { slot, .. } => {
                        if fw.contains(slot) {
                            buffer_rb = true;
                        }
                    }
                    _ => {}
                }
            }
            root_cause = oracle::root_cause(&l, &before, self.after_failed_write).or(self.taint);
            (oracle::cause(&l, &before, self.first_import_after_restart), oracle::relayed_json(&l), consulted, timeout, buffer_rb)
        };
        if buffer_rb {
            self.mon.count("roll_back to a block forwarded in the same import");
        }
        let after = match Snapshot::read(&self.db_path) {
            Ok(s) => s,
            Err(e) => {
                self.mon.inconclusive(&format!("harness: cannot read the database: {e:#}"));
                self.dead = true;
                return;
            }
        };
        self.stored = after.clone();
        self.last_target = Some(target);
        let via_s = format!("{via:?}");
        self.mon.count("event:import");
        self.mon.count(&format!("import via {via_s}"));
        self.mon.count(if consulted { "import consulted the node" } else { "import did not consult the node" });
        for part in cause.split("; ") {
            self.mon.count(&format!("import context: {part}"));
        }
        self.events.push(json!({"import": {"target": target, "via": via_s, "mid_import_reorg(after_reads,depth,new_blocks)": reorg, "reorg_fired": reorg_fired,
            "injected_store_failure(after_writes)": armed, "injected_store_failure_fired": store_fault_fired,
            "result": match &res { Ok(r) => json!({"ok": r}), Err(e) => json!({"error": e}) },
            "chain_sync": relayed, "stored_after": summary(&after), "prune_floor": self.floor.load(Ordering::SeqCst)}}));
        if self.verbose {
            println!("{}", serde_json::to_string(self.events.last().unwrap()).unwrap());
        }
        let was_first_after_restart = self.first_import_after_restart;
        if consulted {
            self.first_import_after_restart = false;
            self.after_failed_write = false;
        }
        let floor = self.floor.load(Ordering::SeqCst);

        // ---------------------------------------------------------------- import failed
        let builder_root = match res {
            Ok(r) => r,
            Err(e) => {
                if timeout {
                    // modelled chainsync time-out (client waiting at the tip, nothing new): the real
                    // reader fails the same way; the state is whatever was stored so far
                    self.mon.count("import_error:model_timeout");
                    if root_cause.is_some() && self.taint.is_none() {
                        self.taint = root_cause;
                        self.mon.count("known root cause fired in an import that ended with the modelled time-out (carried over)");
                    }
                    if std::env::var("VERIF_C13_DEBUG").is_ok() {
                        eprintln!("MODEL TIMEOUT shard {} history {} cfg {} events {}", self.shard, self.index, self.cfg.describe(), serde_json::to_string(&self.events).unwrap_or_default());
                    }
                    self.expected.take().map(|x| Self::drop_ref(x.sut));
                    return;
                }
                if store_fault_fired && e.contains(crate::sut::INJECTED_STORE_FAULT) {
                    // the injected failure was reported to the caller: the state is whatever was stored
                    // before the failing write; the retry that follows is the judged step
                    self.mon.count("import_error:injected store failure reported");
                    self.after_failed_write = true;
                    if root_cause.is_some() && self.taint.is_none() {
                        self.taint = root_cause;
                        self.mon.count("known root cause fired in an import that ended with the injected store failure (carried over)");
                    }
                    self.expected.take().map(|x| Self::drop_ref(x.sut));
                    return;
                }
                let label = if e.contains("FOREIGN KEY") {
                    "foreign key constraint"
                } else if e.contains("UNIQUE") {
                    "unique constraint"
                } else {
                    "other error"
                };
                self.mon.eval();
                self.note_nontrivial("import-error");
                let sig = match root_cause {
                    Some(rc) => rc.to_string(),
                    None => format!("C13 import fails: {label} ({cause})"),
                };
                self.violate(&sig, &format!("import({target}) via {via_s} returned an error ({label}; {cause}): {e}"), json!({"error": e, "stored_before": summary(&before)}));
                self.reset_store();
                return;
            }
        };

        // ---------------------------------------------------------------- oracle 1
        let chain_now = self.node.lock().unwrap().chain.clone();
        let hashes_now: BTreeSet<String> = {
            let n = self.node.lock().unwrap();
            chain_now.iter().map(|id| n.blocks[*id].hash_hex()).collect()
        };
        let rsut = match self.fresh(&chain_now) {
            Ok(s) => s,
            Err(e) => {
                self.mon.inconclusive(&format!("harness: reference database: {e}"));
                self.dead = true;
                return;
            }
        };
        // Depth the store is compared at. An import that consulted the node with a target below the
        // highest stored block (the pinned importer never does: it returns early; a repaired one may)
        // legitimately keeps the canonical blocks above its target: the state must then equal a
        // fresh import up to the highest stored block.
        let depth = if consulted { target.max(after.highest_number().unwrap_or(0)) } else { target };
        if let Err(e) = rsut.importer.import(BlockNumber(depth)).await {
            // the fresh import of the canonical chain itself fails: not a convergence verdict
            self.mon.inconclusive(&format!("reference import failed: {e:#}"));
            self.dead = true;
            Self::drop_ref(rsut);
            return;
        }
        let rsnap = match Snapshot::read(&rsut.path) {
            Ok(s) => s,
            Err(e) => {
                self.mon.inconclusive(&format!("harness: cannot read the reference database: {e:#}"));
                self.dead = true;
                Self::drop_ref(rsut);
                return;
            }
        };
        self.mon.eval();
        if self.perturbed {
            self.note_nontrivial("o1");
        }
        // the fresh import itself against the specification model (catches what a fresh run and the
        // perturbed run would get wrong alike)
        {
            let model = {
                let n = self.node.lock().unwrap();
                crate::model::expected(&n, &chain_now, depth)
            };
            match model {
                Ok(m) => {
                    self.mon.count("comparisons:fresh import vs specification model");
                    let d = compare(&rsnap, &m, 0, None, &hashes_now);
                    if !d.is_empty() {
                        let sig = format!("C13 fresh import differs from the specification model: {}", d.class(0));
                        let what = format!("a fresh importer on a fresh database importing the canonical chain once up to {depth} does not leave the state the specification model states");
                        self.violate_keep(&sig, &what, json!({"diff(stored=fresh import, expected=model)": d.to_json(), "fresh_import": summary(&rsnap), "model": summary(&m)}));
                    }
                }
                Err(e) => self.mon.inconclusive(&format!("harness: model: {e}")),
            }
        }
        let mut prefix_ref: Option<Sut> = None;
        if consulted && depth > target {
            // Only reachable with an importer that asks the node although its target is below the
            // highest stored block (not the pinned one). The statement does not say what must be
            // stored above the target then; the lenient reading is judged: (a) the part at or below
            // the target equals a fresh import up to the target, (b) everything stored is part of a
            // fresh import up to the highest stored block (roots of ranges that are complete only
            // above the target may be absent). No root comparison at this step.
            self.mon.count("comparisons:consulted import below the highest stored block (lenient)");
            let mut dd = compare(&after, &rsnap, floor, None, &hashes_now);
            dd.roots_missing.retain(|r| r.1 <= target + 1);
            dd.legacy_missing.retain(|r| r.1 <= target + 1);
            let mut bad = if dd.is_empty() { None } else { Some(dd) };
            if bad.is_none() {
                match self.fresh(&chain_now) {
                    Ok(t_ref) => {
                        if t_ref.importer.import(BlockNumber(target)).await.is_ok() {
                            if let Ok(tsnap) = Snapshot::read(&t_ref.path) {
                                let d = compare(&after, &tsnap, floor, Some(target), &hashes_now);
                                if !d.is_empty() {
                                    bad = Some(d);
                                }
                            }
                        }
                        Self::drop_ref(t_ref);
                    }
                    Err(e) => self.mon.inconclusive(&format!("harness: reference database: {e}")),
                }
            }
            Self::drop_ref(rsut);
            if let Some(x) = self.expected.take() {
                Self::drop_ref(x.sut);
            }
            if let Some(d) = bad {
                let sig = match root_cause {
                    Some(rc) => rc.to_string(),
                    None if d.class(floor) == oracle::PRUNED_ROOTS_CLASS => oracle::PRUNED_RANGE.to_string(),
                    None => format!("{} ({cause})", d.class(floor)),
                };
                let what = format!("after import({target}) via {via_s}, which consulted the node with a target below the highest stored block ({depth}), the stored state is not a fresh import up to {target} plus canonical data up to {depth}: {} ({cause})", d.class(floor));
                self.violate(&sig, &what, json!({"diff": d.to_json(), "stored_before": summary(&before)}));
                self.reset_store();
            }
            return;
        }
        if consulted {
            self.mon.count("comparisons:full state vs fresh import");
            let d = compare(&after, &rsnap, floor, None, &hashes_now);
            if !d.is_empty() {
                let sig = match root_cause {
                    Some(rc) => rc.to_string(),
                    None if d.class(floor) == oracle::PRUNED_ROOTS_CLASS => oracle::PRUNED_RANGE.to_string(),
                    None => format!("{} ({cause})", d.class(floor)),
                };
                let what = format!(
                    "after import({target}) via {via_s} the stored state differs from a fresh import of the canonical chain up to {depth} (blocks compared from number {floor}): {} ({cause})",
                    d.class(floor)
                );
                let details = json!({"diff": d.to_json(), "stored_before": summary(&before), "fresh_import": summary(&rsnap),
                    "first_import_after_restart": was_first_after_restart});
                self.violate(&sig, &what, details);
                self.reset_store();
                Self::drop_ref(rsut);
                return;
            }
            // the store equals a fresh import: nothing is left of an earlier unjudged import
            self.taint = None;
            if let Some(old) = self.expected.replace(Expected { target: depth, hashes: hashes_now.clone(), snapshot: rsnap.clone(), sut: rsut }) {
                Self::drop_ref(old.sut);
            }
        } else {
            if let Some(exp) = &self.expected {
                self.mon.count("comparisons:state unchanged");
                let d = compare(&after, &exp.snapshot, floor, None, &exp.hashes);
                if !d.is_empty() {
                    let sig = format!("{} (state changed by an import that did not consult the node)", d.class(floor));
                    let what = format!("import({target}) did not consult the node but the stored state no longer equals the state of the last synchronisation (target {})", exp.target);
                    let details = json!({"diff": d.to_json()});
                    self.violate(&sig, &what, details);
                    self.reset_store();
                    Self::drop_ref(rsut);
                    return;
                }
            }
            self.mon.count("comparisons:part at or below the target vs fresh import");
            let d = compare(&after, &rsnap, floor, Some(target), &hashes_now);
            if !d.is_empty() {
                // one cause, one class: whatever differs, it differs because the importer returned
                // early without asking the node
                let sig = EARLY_RETURN.to_string();
                let what = format!(
                    "after import({target}) via {via_s} (which returned early: highest stored block {:?} >= target) the stored blocks <= {target} / range roots ending <= {} differ from a fresh import of the canonical chain up to {target}: {}",
                    before.highest_number(), target + 1, d.class(floor)
                );
                let details = json!({"diff": d.to_json(), "stored_before": summary(&before), "fresh_import": summary(&rsnap)});
                self.violate(&sig, &what, details);
                self.reset_store();
                Self::drop_ref(rsut);
                return;
            }
            prefix_ref = Some(rsut);
        }

        // ---------------------------------------------------------------- oracle 2
        self.oracle2(target, via, builder_root, &chain_now).await;
        if let Some(p) = prefix_ref {
            Self::drop_ref(p);
        }
    }

    fn note_nontrivial(&mut self, tag: &str) {
        let mut h = Sha256::new();
        h.update(tag.as_bytes());
        h.update(serde_json::to_vec(&self.events).unwrap_or_default());
        h.update(serde_json::to_vec(&self.cfg.describe()).unwrap_or_default());
        let d = h.finalize();
        self.mon.nontrivial(&d);
    }

    fn beacons(&mut self, target: u64, first_number: u64) -> Vec<u64> {
        let rs = target / RANGE * RANGE;
        let mut c = vec![
            target.saturating_sub(1), rs, rs.saturating_sub(1), rs + 1, rs + 7, rs.saturating_sub(RANGE), rs.saturating_sub(RANGE + 1), rs.saturating_sub(8),
            14, 15, 16, 29, 30, first_number, first_number + 1,
        ];
        for _ in 0..3 {
            c.push(rnd::range(&mut self.rng, 0, target));
        }
        c.retain(|b| *b < target);
        c.sort();
        c.dedup();
        rnd::shuffle(&mut self.rng, &mut c);
        c.truncate(8);
        c.push(target);
        c.sort();
        c
    }

    /// roots offered by a fresh node that imports exactly up to `b` (through the real builders, the
    /// way a signer does: compute_protocol_message imports, then computes the root)
    async fn exact_roots(&mut self, chain: &[usize], b: u64) -> Option<(String, String, String)> {
        let key = {
            let n = self.node.lock().unwrap();
            let view_tip = chain.iter().map(|id| &n.blocks[*id]).take_while(|x| x.number <= b).last().map(|x| x.hash_hex()).unwrap_or_else(|| "origin".into());
            (view_tip, b)
        };
        if let Some(v) = self.root_cache.get(&key) {
            self.mon.count("exact-depth reference roots (cached)");
            return Some((key.0, v.0.clone(), v.1.clone()));
        }
        let s = match self.fresh(chain) {
            Ok(s) => s,
            Err(e) => {
                self.mon.inconclusive(&format!("harness: reference database: {e}"));
                self.dead = true;
                return None;
            }
        };
        // the v2 builder imports and offers its root; the legacy root is then read without a second
        // import (with gaps in the block numbering a second import would scan again and could run
        // into the modelled chainsync time-out at the tip)
        let sv = s.sign_v2(b).await;
        if let Some(e) = sv.import_error {
            self.mon.inconclusive(&format!("reference import (exact depth {b}) failed: {e}"));
            self.dead = true;
            Self::drop_ref(s);
            return None;
        }
        let v = sv.root;
        let l = s.root_legacy(b).await;
        Self::drop_ref(s);
        self.mon.count("exact-depth reference imports");
        // the fresh exact-depth node against the specification model of the beacon roots
        {
            let (m_l, m_v) = {
                let n = self.node.lock().unwrap();
                crate::model::beacon_roots(&n, chain, b)
            };
            let same = |real: &str, model: &str| if model == "error" { real.starts_with("error") } else { real == model };
            self.mon.count("comparisons:exact-depth root vs specification model");
            if !same(&v, &m_v) {
                self.violate_keep("C13 v2 root offered by a fresh node that imported exactly to the beacon differs from the specification model",
                    &format!("beacon {b}: the real builder over a fresh exact-depth import offers {v}, the model states {m_v}"), json!({"beacon": b}));
            }
            if let Some(m_l) = m_l {
                if !same(&l, &m_l) {
                    self.violate_keep("C13 legacy root offered by a fresh node that imported exactly to the beacon differs from the specification model",
                        &format!("beacon {b}: the real builder over a fresh exact-depth import offers {l}, the model states {m_l}"), json!({"beacon": b}));
                }
            }
        }
        self.root_cache.insert(key.clone(), (l.clone(), v.clone()));
        Some((key.0, l, v))
    }

    async fn oracle2(&mut self, target: u64, via: Via, builder_root: Option<String>, chain_now: &[usize]) {
        let first_number = {
            let n = self.node.lock().unwrap();
            chain_now.first().map(|id| n.blocks[*id].number).unwrap_or(0)
        };
        let beacons = self.beacons(target, first_number);
        for b in beacons {
            if self.dead {
                return;
            }
            let (s_l, s_v) = {
                let sut = self.sut.as_ref().unwrap();
                (sut.root_legacy(b).await, sut.root_v2(b).await)
            };
            // (2a) same depth
            let (depth, d_l, d_v, deep_roots) = match &self.expected {
                Some(exp) => (exp.target, exp.sut.root_legacy(b).await, exp.sut.root_v2(b).await, exp.snapshot.roots.clone()),
                // no synchronisation state known (the store was wiped, or an import failed on a
                // modelled time-out, and no import has consulted the node since)
                None => return,
            };
            self.mon.eval();
            self.mon.count_n("comparisons:root offered vs fresh node at the same depth", 2);
            if b == target {
                if let Some(r) = &builder_root {
                    let same = match via {
                        Via::LegacyBuilder => *r == s_l,
                        Via::V2Builder => *r == s_v,
                        Via::Importer => true,
                    };
                    if !same {
                        self.violate("C13 root returned by the importing builder differs from the root recomputed from the store",
                            &format!("beacon {b}: compute_protocol_message (with import) returned {r}, the same builder without import returns legacy={s_l} v2={s_v}"), json!({"beacon": b}));
                    }
                }
            }
            // A pruning node computes the on-the-fly root of a partial last range from blocks it
            // may have pruned already when the beacon lies below its prune threshold. Beacons that
            // old are never signed by a pruning signer (the pruner keeps `network_security_parameter`
            // blocks below the highest range root), so this is recorded as a diagnostic only.
            let floor = self.floor.load(Ordering::SeqCst);
            let pruned_partial = b % RANGE != RANGE - 1 && floor > b / RANGE * RANGE;
            if s_l == d_l && s_v != d_v && pruned_partial {
                self.mon.count("diag: v2 root at a partial beacon below the prune threshold differs (on-the-fly range root over pruned blocks)");
            } else if s_l != d_l || s_v != d_v {
                let which = if s_v != d_v { "v2" } else { "legacy" };
                let sig = format!("C13 {which} root offered differs from a fresh node that imported to the same depth");
                let what = format!("beacon {b}: stored state offers legacy={s_l} v2={s_v}; a fresh node that imported the same chain to {depth} offers legacy={d_l} v2={d_v}");
                self.violate(&sig, &what, json!({"beacon": b, "depth": depth}));
                self.reset_store();
                return;
            }
            // (2b) exact depth
            let Some((tiph, e_l, e_v)) = self.exact_roots(chain_now, b).await else { return };
            self.mon.count_n("comparisons:root offered vs fresh node that imported exactly to the beacon", 2);
            let partial = b % RANGE != RANGE - 1;
            let covering = deep_roots.iter().any(|r| r.0 <= b && b < r.1);
            if depth > b {
                // distinct (chain prefix up to the beacon, depth, beacon)
                self.mon.nontrivial_str(&format!("o2|{tiph}|{depth}|{b}"));
            }
            if partial && covering {
                self.mon.count("beacons strictly inside a block range whose full root is already stored");
            }
            if d_v != e_v {
                let details = json!({"beacon": b, "import_depth": depth, "v2_root_at_depth": d_v, "v2_root_after_importing_exactly_to_the_beacon": e_v,
                    "beacon_is_last_block_of_a_range": !partial, "a_stored_root_covers_the_beacon": covering,
                    "stored_v2_ranges": deep_roots.iter().map(|r| (r.0, r.1)).collect::<Vec<_>>()});
                let what = format!("v2 (CardanoBlocksTransactions) Merkle root at beacon {b}: {d_v} on a node that imported to {depth}, {e_v} on a node that imported exactly to {b}");
                if partial && covering {
                    self.mon.count("v2 root depends on import depth (partial beacon covered by a stored full range root)");
                    self.violate(KNOWN_V2, &what, details);
                } else {
                    self.violate("C13 v2 root depends on import depth although no stored full range root covers a partial beacon", &what, details);
                }
            } else {
                self.mon.count("v2 root independent of import depth");
            }
            if d_l != e_l {
                if !partial {
                    let what = format!("legacy (CardanoTransactions) Merkle root at range-aligned beacon {b}: {d_l} at depth {depth}, {e_l} after importing exactly to {b}");
                    self.violate("C13 legacy root at a range-aligned beacon depends on import depth", &what, json!({"beacon": b, "import_depth": depth}));
                } else {
                    // outside the domain: the legacy signing configuration never produces such a beacon
                    self.mon.count("diag: legacy root at a non-aligned beacon depends on import depth (beacon never produced by the signing config)");
                }
            } else {
                self.mon.count("legacy root independent of import depth");
            }
        }
    }

    // ------------------------------------------------------------------------------------ driver

    /// scripted history over a chain with consecutive block numbers (first block 1 or 0) and at
    /// least one transaction per block; used for the fixed, hand-sized scenarios of main.rs
    pub fn scripted(mon: &'a mut Monitor, dir: &Path, template: Option<PathBuf>, index: u64, cfg: SutConfig, verbose: bool) -> History<'a> {
        let mut h = History::new(mon, dir, template, SCRIPTED_SHARD, index, verbose);
        h.profile = ChainProfile { sparse_numbers: false, empty_block_pct: 0, drought_toggle_pct: 0, first_number: Some(1) };
        h.node = Arc::new(Mutex::new(Node::new(h.profile.clone())));
        h.cfg = cfg;
        h
    }

    pub async fn run_script(&mut self, name: &str, script: &[Step]) {
        if !self.open_sut() {
            return;
        }
        self.events.push(json!({"scripted_scenario": name}));
        for st in script {
            if self.dead {
                break;
            }
            match st {
                Step::Forward(n) => self.ev_forward(*n),
                Step::RollBackToNumber(n) => {
                    let keep = self.node.lock().unwrap().pos_at_or_below_number(*n);
                    self.apply_rollback(keep, "scripted");
                }
                Step::Import(t, via) => self.ev_import(*t, *via, None).await,
                Step::ImportWithStoreFault(t, nth) => {
                    self.arm_store_fault = Some(*nth);
                    self.ev_import(*t, Via::Importer, None).await;
                    self.ev_import(*t, Via::Importer, None).await;
                }
                Step::ImportWithReorg(t, reads, depth, newb) => self.ev_import(*t, Via::Importer, Some((*reads, *depth, *newb))).await,
                Step::Restart => self.ev_restart().await,
                Step::Prune(k) => self.ev_prune(*k).await,
            }
        }
        self.mon.count("scripted scenarios");
        let r = self.replay(json!(null));
        self.mon.sample(json!({"scripted_scenario": name, "sut_config": r["sut_config"], "events": r["events"]}));
        if let Some(x) = self.expected.take() {
            Self::drop_ref(x.sut);
        }
        self.sut = None;
        remove_db(&self.db_path);
    }

    pub async fn run(&mut self) {
        if !self.open_sut() {
            return;
        }
        let initial = rnd::range(&mut self.rng, 20, 120) as usize;
        self.ev_forward(initial);
        // most histories start with an import, so that the roll-backs that follow meet stored data
        if rnd::chance(&mut self.rng, 4, 5) {
            if let Some(t) = self.pick_target() {
                self.ev_import(t, Via::Importer, None).await;
            }
        }
        let steps = rnd::range(&mut self.rng, 8, 26);
        for _ in 0..steps {
            if self.dead {
                break;
            }
            let len = self.node.lock().unwrap().chain.len();
            match rnd::below(&mut self.rng, 100) {
                0..=21 => {
                    let n = if len > 300 { 1 + rnd::usize_below(&mut self.rng, 3) } else { 1 + rnd::usize_below(&mut self.rng, 40) };
                    self.ev_forward(n);
                }
                22..=43 => self.ev_rollback(),
                44..=71 => {
                    // nothing new on the node since the last import: let it produce blocks first
                    let (tip, h) = (self.node.lock().unwrap().tip_number(), self.stored.highest_number());
                    if tip.is_some() && h >= tip && rnd::chance(&mut self.rng, 3, 4) {
                        let n = 1 + rnd::usize_below(&mut self.rng, 40);
                        self.ev_forward(n);
                    }
                    if let Some(t) = self.pick_target() {
                        let via = *rnd::pick(&mut self.rng, &[Via::Importer, Via::Importer, Via::LegacyBuilder, Via::V2Builder, Via::V2Builder]);
                        self.ev_import(t, via, None).await;
                    }
                }
                72..=79 => {
                    // the chain re-organises while the streamer is polling; target at / near the tip
                    let (tip, h) = (self.node.lock().unwrap().tip_number(), self.stored.highest_number());
                    if let Some(tip) = tip {
                        let back = rnd::below(&mut self.rng, 3);
                        let t = self.existing_number(tip.saturating_sub(back));
                        let to_read = t.saturating_sub(h.unwrap_or(0)) as usize;
                        let reads = rnd::usize_below(&mut self.rng, to_read + 3);
                        let depth = 1 + rnd::usize_below(&mut self.rng, 12);
                        let newb = depth + rnd::usize_below(&mut self.rng, 6);
                        self.ev_import(t, Via::Importer, Some((reads, depth, newb))).await;
                    }
                }
                80..=83 => {
                    // one write of a batch of blocks fails in the middle of an import; the import is
                    // retried in the same process (what the state machines do on their next cycle)
                    let (tip, h) = (self.node.lock().unwrap().tip_number(), self.stored.highest_number());
                    if tip.is_some() && h >= tip {
                        let n = 5 + rnd::usize_below(&mut self.rng, 60);
                        self.ev_forward(n);
                    }
                    let tip = self.node.lock().unwrap().tip_number();
                    if let Some(tip) = tip {
                        let back = rnd::below(&mut self.rng, 3);
                        let t = self.existing_number(tip.saturating_sub(back));
                        let via = *rnd::pick(&mut self.rng, &[Via::Importer, Via::Importer, Via::LegacyBuilder, Via::V2Builder]);
                        // batches are `max_roll_forwards_per_poll` blocks: aim inside the import
                        let to_read = t.saturating_sub(h.unwrap_or(0)) as usize;
                        let batches = to_read / self.cfg.max_roll_forwards_per_poll.max(1) + 1;
                        self.arm_store_fault = Some(rnd::usize_below(&mut self.rng, batches + 1) as i64);
                        self.ev_import(t, via, None).await;
                        if !self.dead {
                            self.ev_import(t, via, None).await;
                        }
                    }
                }
                84..=89 => self.ev_restart().await,
                90..=91 => self.ev_reconnect().await,
                _ => {
                    let keep = rnd::range(&mut self.rng, 0, 60);
                    self.ev_prune(keep).await;
                }
            }
        }
        // convergence at the end: import up to the tip
        if !self.dead {
            let tip = self.node.lock().unwrap().tip_number();
            if let Some(tip) = tip {
                self.ev_import(tip, Via::V2Builder, None).await;
            }
        }
        self.mon.count("histories");
        self.mon.count_n("steps", self.events.len() as u64);
        if self.dead {
            self.mon.count("histories stopped at a violation");
        }
        if self.mon.wants_sample() && self.index < 2 && self.shard < 3 {
            let r = self.replay(json!(null));
            self.mon.sample(r);
        }
        // cleanup
        if let Some(x) = self.expected.take() {
            Self::drop_ref(x.sut);
        }
        self.sut = None;
        remove_db(&self.db_path);
    }
}

pub fn summary(s: &Snapshot) -> Value {
    json!({
        "blocks": s.blocks.len(), "lowest(number,slot)": s.blocks.first().map(|b| (b.0, b.1)), "highest(number,slot)": s.blocks.last().map(|b| (b.0, b.1)),
        "txs": s.txs.len(),
        "v2_ranges": s.roots.iter().map(|r| r.0).collect::<Vec<_>>(),
        "legacy_ranges": s.legacy_roots.iter().map(|r| r.0).collect::<Vec<_>>(),
    })
}
