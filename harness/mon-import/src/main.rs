fn main() {}
