//! mon-import: runtime monitor for C13 "imported chain data converges to the canonical chain under
//! any roll-backs". See history.rs (oracles), reader.rs (chain-sync model), sut.rs (wiring of the
//! real importer / streamer / sqlite repositories / signable builders).
mod history;
mod model;
mod node;
mod oracle;
mod reader;
mod sut;

use std::path::{Path, PathBuf};
use std::sync::atomic::AtomicU64;
use std::sync::{Arc, Mutex};

use mithril_common::entities::BlockNumber;
use serde_json::json;
use vcore::{Monitor, Tier};

use crate::history::History;
use crate::node::{ChainProfile, Node};
use crate::sut::{Sut, SutConfig};

fn base_dir() -> PathBuf {
    let shm = Path::new("/dev/shm");
    let root = if shm.is_dir() { shm.to_path_buf() } else { std::env::temp_dir() };
    root.join(format!("verif-c13-{}", std::process::id()))
}

const WORKER_THREAD: &str = "c13-import-worker";
static WORKER_PANICS: std::sync::atomic::AtomicU64 = std::sync::atomic::AtomicU64::new(0);
static WORKER_PANIC_SITES: Mutex<std::collections::BTreeMap<String, u64>> = Mutex::new(std::collections::BTreeMap::new());

fn runtime() -> tokio::runtime::Runtime {
    tokio::runtime::Builder::new_current_thread().enable_all().max_blocking_threads(4).thread_name(WORKER_THREAD).build().expect("tokio runtime")
}

/// `CardanoChainDataImporter::import` runs on a tokio blocking thread; a panic there (e.g. the
/// `EntityCursor` of mithril-persistence panics on a sqlite constraint failure) is turned by tokio
/// into the error "worker thread crashed", which the harness sees and judges. The hook keeps these
/// panics off stderr and records where they happened instead.
fn install_worker_panic_hook() {
    let previous = std::panic::take_hook();
    std::panic::set_hook(Box::new(move |info| {
        if std::thread::current().name() == Some(WORKER_THREAD) {
            WORKER_PANICS.fetch_add(1, std::sync::atomic::Ordering::SeqCst);
            let loc = info.location().map(|l| format!("{}:{}", l.file(), l.line())).unwrap_or_else(|| "?".into());
            if let Ok(mut m) = WORKER_PANIC_SITES.lock() {
                *m.entry(loc).or_insert(0) += 1;
            }
        } else {
            previous(info);
        }
    }));
}

/// a freshly migrated, empty database file that fresh reference databases are copied from
fn make_template(dir: &Path) -> Option<PathBuf> {
    let p = dir.join("template.db");
    let node = Arc::new(Mutex::new(Node::new(ChainProfile { sparse_numbers: false, empty_block_pct: 0, drought_toggle_pct: 0, first_number: None })));
    match Sut::open(&p, &SutConfig::reference(), node, Arc::new(AtomicU64::new(0))) {
        Ok(s) => {
            drop(s);
            Some(p)
        }
        Err(e) => {
            eprintln!("cannot build the template database: {e:#}");
            None
        }
    }
}

/// Fixed scenario of the design probe, on the real sqlite repositories: consecutive chain of 50
/// blocks; node B imports to 44; for a few beacons compare the v2 root B offers with the root of a
/// node that imports exactly to the beacon.
async fn fixed_probe(mon: &mut Monitor, dir: &Path, template: &Option<PathBuf>) {
    let mut rng = mon.rng("c13-probe", 0);
    let mut node = Node::new(ChainProfile { sparse_numbers: false, empty_block_pct: 0, drought_toggle_pct: 0, first_number: Some(1) });
    node.forward(50, &mut rng);
    let first = node.at(0).number;
    let node = Arc::new(Mutex::new(node));
    let fresh = |name: &str| -> Option<Sut> {
        let p = dir.join(name);
        if let Some(t) = template {
            std::fs::copy(t, &p).ok()?;
        }
        Sut::open(&p, &SutConfig::reference(), node.clone(), Arc::new(AtomicU64::new(0))).ok()
    };
    let Some(deep) = fresh("probe-deep.db") else {
        mon.inconclusive("probe: cannot open a database");
        return;
    };
    let depth = first + 43;
    if let Err(e) = deep.importer.import(BlockNumber(depth)).await {
        mon.inconclusive(&format!("probe: import failed: {e:#}"));
        return;
    }
    let mut rows = vec![];
    for b in [14u64, 15, 24, 29, 30, 40, depth] {
        let Some(exact) = fresh(&format!("probe-{b}.db")) else { continue };
        let e_v = exact.sign_v2(b).await.root;
        let e_l = exact.sign_legacy(b).await.root;
        let d_v = deep.root_v2(b).await;
        let d_l = deep.root_legacy(b).await;
        mon.eval();
        mon.nontrivial_str(&format!("probe|{b}"));
        rows.push(json!({"beacon": b, "v2_root_node_imported_to_beacon": e_v, "v2_root_node_imported_to_depth": d_v, "v2_equal": e_v == d_v,
            "legacy_equal": e_l == d_l, "beacon_mod_15": b % 15}));
        if e_v != d_v {
            let partial = b % 15 != 14;
            let sig = if partial { history::KNOWN_V2 } else { "C13 v2 root depends on import depth although no stored full range root covers a partial beacon" };
            mon.violation(
                sig,
                &format!("fixed probe: consecutive chain of blocks {first}..{}, v2 root at beacon {b}: {e_v} on a node that imported exactly to {b}, {d_v} on a node that imported to {depth}", first + 49),
                json!({"probe": "consecutive chain, 1 or more transactions per block", "first_block": first, "last_block": first + 49, "beacon": b, "deep_import_target": depth,
                    "root_exact": e_v, "root_deep": d_v}),
            );
        }
        if e_l != d_l && b % 15 == 14 {
            mon.violation("C13 legacy root at a range-aligned beacon depends on import depth", &format!("fixed probe: beacon {b}: {e_l} vs {d_l}"), json!({"beacon": b}));
        }
        let p = exact.path.clone();
        drop(exact);
        let _ = std::fs::remove_file(p);
    }
    mon.sample(json!({"fixed_probe": {"chain": format!("blocks {first}..{} consecutive", first + 49), "deep_import_target": depth, "beacons": rows}}));
    let p = deep.path.clone();
    drop(deep);
    let _ = std::fs::remove_file(p);
}

/// Hand-sized deterministic histories (consecutive block numbers 1.., at least one transaction per
/// block): one per witness class seen on the pinned tree, so that every run re-observes (or stops
/// observing, once repaired) each of them on a readable example.
async fn scripted_scenarios(mon: &mut Monitor, dir: &Path, template: &Option<PathBuf>, only: Option<u64>) {
    use crate::history::Step::*;
    use crate::history::Via;
    use crate::sut::Flavour;
    let aggregator = SutConfig { flavour: Flavour::Aggregator, pool_size: 2, prune_keep: None, chunk: None, max_roll_forwards_per_poll: 100, sqlite_mktree: false };
    let signer = SutConfig { flavour: Flavour::Signer, pool_size: 1, prune_keep: None, chunk: None, max_roll_forwards_per_poll: 100, sqlite_mktree: false };
    let scenarios: Vec<(&str, SutConfig, Vec<history::Step>)> = vec![
        (
            "restart while the resume point (highest stored block) is on an abandoned fork: chain 1..40, import(30), node switches at block 20 to a fork 21'..45', restart, import(40)",
            aggregator.clone(),
            vec![Forward(40), Import(30, Via::Importer), RollBackToNumber(20), Forward(25), Restart, Import(40, Via::Importer)],
        ),
        (
            "import with a target below the highest stored block after a roll-back below that target: chain 1..60, import(50), node switches at block 20 to a fork 21'..70', sign beacon 45",
            aggregator.clone(),
            vec![Forward(60), Import(50, Via::Importer), RollBackToNumber(20), Forward(50), Import(45, Via::V2Builder)],
        ),
        (
            "the node re-organises back to the importer's resume point while the importer is streaming: chain 1..30, import(20), chain grows to 40, import(35) during which (after blocks 21..25 were relayed) the node switches at block 20 to a fork 21'..45'",
            aggregator.clone(),
            vec![Forward(30), Import(20, Via::Importer), Forward(10), ImportWithReorg(35, 6, 20, 25)],
        ),
        (
            "roll-back into a block range whose first blocks are pruned: chain 1..100, import(100), prune keeping 10 blocks (threshold 65, range [60,75) partly pruned), node switches at block 70 to a fork 71'..110', import(110)",
            signer.clone(),
            vec![Forward(100), Import(100, Via::Importer), Prune(10), RollBackToNumber(70), Forward(40), Import(110, Via::Importer)],
        ),
        (
            "roll-back to a block below the pruned part of the store: chain 1..100, import(100), prune keeping 10 blocks (blocks < 65 removed), node switches at block 50 to a fork 51'..110', import(105)",
            signer.clone(),
            vec![Forward(100), Import(100, Via::Importer), Prune(10), RollBackToNumber(50), Forward(60), Import(105, Via::Importer)],
        ),
        (
            "a write of a batch of blocks fails in the middle of an import and the import is retried in the same process: chain 1..44, import(10), import(44) in batches of 10 whose second write fails, import(44) again",
            SutConfig { max_roll_forwards_per_poll: 10, ..aggregator.clone() },
            vec![Forward(44), Import(10, Via::Importer), ImportWithStoreFault(44, 1)],
        ),
    ];
    for (i, (name, cfg, script)) in scenarios.into_iter().enumerate() {
        if only.is_some() && only != Some(i as u64) {
            continue;
        }
        let mut h = History::scripted(mon, dir, template.clone(), i as u64, cfg, only.is_some());
        h.run_script(name, &script).await;
    }
}

fn main() {
    let args = vcore::parse_args();
    vcore::install_panic_hook();
    install_worker_panic_hook();
    if args.prop != "C13" {
        eprintln!("mon-import: unknown property {}", args.prop);
        std::process::exit(2);
    }
    let mut mon = Monitor::new(&args);
    let dir = base_dir();
    let _ = std::fs::remove_dir_all(&dir);
    if let Err(e) = std::fs::create_dir_all(&dir) {
        mon.inconclusive(&format!("cannot create {}: {e}", dir.display()));
    }
    let template = make_template(&dir);

    // --replay FILE: re-run one history verbosely
    if let Some(f) = &args.replay {
        let doc: serde_json::Value = std::fs::read_to_string(f).ok().and_then(|t| serde_json::from_str(&t).ok()).unwrap_or(json!(null));
        let r = if doc.get("replay").is_some() { &doc["replay"] } else { &doc };
        let (Some(seed), Some(shard), Some(index)) = (r["seed"].as_u64(), r["shard"].as_u64(), r["history"].as_u64()) else {
            eprintln!("replay file has no seed/shard/history");
            let _ = std::fs::remove_dir_all(&dir);
            std::process::exit(2);
        };
        let mut m = Monitor::with("C13", args.tier, seed);
        if shard == history::SCRIPTED_SHARD {
            runtime().block_on(scripted_scenarios(&mut m, &dir, &template, Some(index)));
        } else {
            runtime().block_on(async {
                let mut h = History::new(&mut m, &dir, template.clone(), shard, index, true);
                h.run().await;
            });
        }
        let _ = std::fs::remove_dir_all(&dir);
        m.finish("replay of a single history", &[], 0);
    }

    match sut::flavours_identical() {
        Some(true) => {
            mon.extra.insert("aggregator_and_signer_ChainDataStore_impls_textually_identical".into(), json!(true));
        }
        Some(false) => {
            mon.extra.insert("aggregator_and_signer_ChainDataStore_impls_textually_identical".into(), json!(false));
            mon.inconclusive("the aggregator's impl ChainDataStore no longer equals the signer's: the aggregator flavour is not represented by this harness any more");
        }
        None => {
            mon.extra.insert("aggregator_and_signer_ChainDataStore_impls_textually_identical".into(), json!("could not be checked"));
        }
    }

    match runtime().block_on(reader::self_check()) {
        Ok(()) => {
            mon.extra.insert("chain_sync_model_self_check".into(), json!("passed (sequences of the repo's pallas_chain_reader tests + origin roll-back on a new connection + fork switch)"));
        }
        Err(e) => mon.inconclusive(&e),
    }
    mon.max_samples = 9;
    runtime().block_on(fixed_probe(&mut mon, &dir, &template));
    runtime().block_on(scripted_scenarios(&mut mon, &dir, &template, None));

    let (shards, per, budget_s): (u64, u64, f64) = match args.tier {
        Tier::Quick => (16, 19, 100.0),
        Tier::Thorough => (64, 190, 28.0 * 60.0),
    };
    let start = std::time::Instant::now();
    let dir2 = dir.clone();
    let template2 = template.clone();
    vcore::run_shards(&mut mon, shards, vcore::default_threads(), |shard, m| {
        let sdir = dir2.join(format!("s{shard}"));
        let _ = std::fs::create_dir_all(&sdir);
        let rt = runtime();
        for index in 0..per {
            if start.elapsed().as_secs_f64() > budget_s {
                m.count("histories skipped: time budget");
                continue;
            }
            let r = vcore::catch(|| {
                rt.block_on(async {
                    let mut h = History::new(m, &sdir, template2.clone(), shard, index, false);
                    h.run().await;
                })
            });
            if let Err(p) = r {
                // a panic inside the code under test or the harness: reported, never silently dropped
                m.violation("C13 panic while importing", &format!("history (shard {shard}, index {index}) panicked: {p}"), json!({"seed": m.seed, "shard": shard, "history": index, "panic": p}));
            }
        }
        let _ = std::fs::remove_dir_all(&sdir);
    });
    let _ = std::fs::remove_dir_all(&dir);
    mon.extra.insert(
        "panics_inside_import_worker_threads(site -> count)".into(),
        json!(WORKER_PANIC_SITES.lock().map(|m| m.clone()).unwrap_or_default()),
    );

    mon.finish(
        "histories = seeded random sequences of (forward batch 1-40 | roll-back to: any earlier point, shallow, origin, first stored block, before the first stored block, highest stored block +-1, a block next to a 15-block range boundary, last import target; followed by a longer / shorter / no new fork | import(target <= tip, an existing block number) through the plain importer / the legacy / the v2 signable builder, targets: tip, near tip, above the highest stored block, range boundary +-1, at or below the highest stored block | import during which the node switches fork while the streamer polls | restart (database re-opened, new importer, new chain-sync connection) | connection lost | explicit prune keeping 0-60 blocks) over a simulated node (fork tree; consecutive block numbers, or in 1/3 of the histories gaps that depend on the height only incl. whole empty ranges; sparse slots; transaction droughts; transactions of abandoned blocks re-included), started and ended by an import; plus 1 fixed probe (design probe on sqlite) and 5 scripted hand-sized histories. System under test = real CardanoChainDataImporter (+ByChunk/WithPruner decorators for the signer flavour) + real CardanoBlockScanner/ChainReaderBlockStreamer + real file-backed sqlite repository (signer / aggregator connection options) + real signable builders, fed by the chain-sync server model of reader.rs; tables read through an independent read-only sqlite connection. Oracle 1: tables == tables of a fresh importer on a fresh database importing the current canonical chain once to the same target (early-return case: unchanged + part at or below the target), and that fresh import == specification model (model.rs); after restart / prune: unchanged. Oracle 2: roots at <=9 beacons per import: stored state == fresh node at the same depth == fresh node that imported exactly to the beacon == specification model. After an oracle-1 witness the store is wiped and the history goes on. Non-trivial = an import check preceded by at least one perturbation (roll-back that touches stored blocks, restart, lost connection, prune, non-monotone target, mid-import fork switch), distinct by (configuration, event sequence so far); plus every distinct (chain prefix, import depth > beacon, beacon) triple judged by oracle 2.",
        &[
            "chain-sync model of reader.rs stands for a Cardano node + PallasChainReader (follower semantics of ouroboros-consensus, pallas client agency rules); the node never re-adopts an abandoned fork",
            "import targets are <= the node's tip at the time of the call",
            "the reference (fresh importer on a fresh database) is the real code itself, run without perturbation",
            "legacy beacons are judged only when = 14 mod 15 (the only values compute_block_number_to_be_signed produces)",
            "aggregator flavour = signer repository type with the aggregator's connection options (the two ChainDataStore impls are textually identical, checked at start-up)",
        ],
        match args.tier {
            Tier::Quick => 150,
            Tier::Thorough => 3000,
        },
    );
}
