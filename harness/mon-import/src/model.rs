//! Specification model of the stored state: a pure function of (canonical chain, target).
//!
//! Oracle 1 compares the stored state with a fresh run of the real importer; that alone cannot see
//! an error that the fresh run makes as well (e.g. a wrong selection of the block ranges to
//! compute). The model states independently WHAT a from-scratch import must leave in the tables:
//!   * blocks / transactions: those of the canonical chain with block number <= target;
//!   * a v2 root for every block range [15k, 15k+15) with 15k+15 <= target+1 that contains at least
//!     one block: Merkle root over the range's `CardanoBlockTransactionMkTreeNode`s in their `Ord`
//!     order (block leaf + one leaf per transaction);
//!   * a legacy root for every such range that contains at least one transaction: Merkle root over
//!     the transactions ordered by (block number, transaction hash).
//! The Merkle tree itself is the library's (`MKTree`, property C09's subject), used as a primitive.
use std::collections::BTreeSet;

use mithril_common::crypto_helper::{MKTree, MKTreeStoreInMemory};
use mithril_common::entities::{BlockNumber, CardanoBlockTransactionMkTreeNode, CardanoBlockWithTransactions, CardanoTransaction, SlotNumber};

use crate::node::Node;
use crate::sut::Snapshot;

const RANGE: u64 = 15;

pub fn expected(node: &Node, chain: &[usize], target: u64) -> Result<Snapshot, String> {
    let mut s = Snapshot::default();
    let blocks: Vec<_> = chain.iter().map(|id| &node.blocks[*id]).take_while(|b| b.number <= target).collect();
    for b in &blocks {
        s.blocks.push((b.number, b.slot, b.hash_hex()));
        for t in &b.txs {
            s.txs.push((t.clone(), b.hash_hex()));
        }
    }
    s.blocks.sort_by(|a, b| (a.0, &a.2).cmp(&(b.0, &b.2)));
    s.txs.sort();
    let mut k = 0u64;
    while (k + 1) * RANGE <= target + 1 {
        let (start, end) = (k * RANGE, (k + 1) * RANGE);
        k += 1;
        let in_range: Vec<_> = blocks.iter().filter(|b| b.number >= start && b.number < end).collect();
        if in_range.is_empty() {
            continue;
        }
        let nodes: BTreeSet<CardanoBlockTransactionMkTreeNode> = in_range
            .iter()
            .flat_map(|b| CardanoBlockWithTransactions::new(b.hash_hex(), BlockNumber(b.number), SlotNumber(b.slot), b.txs.clone()).into_mk_tree_node())
            .collect();
        let root = MKTree::<MKTreeStoreInMemory>::new_from_iter(nodes).and_then(|t| t.compute_root()).map_err(|e| format!("model: {e:#}"))?;
        s.roots.push((start, end, root.to_hex()));
        let mut txs: Vec<(u64, String, CardanoTransaction)> = in_range
            .iter()
            .flat_map(|b| b.txs.iter().map(|t| (b.number, t.clone(), CardanoTransaction::new(t.clone(), BlockNumber(b.number), SlotNumber(b.slot), b.hash_hex()))))
            .collect();
        if txs.is_empty() {
            continue;
        }
        txs.sort_by(|a, b| (a.0, &a.1).cmp(&(b.0, &b.1)));
        let root = MKTree::<MKTreeStoreInMemory>::new_from_iter(txs.into_iter().map(|t| t.2)).and_then(|t| t.compute_root()).map_err(|e| format!("model: {e:#}"))?;
        s.legacy_roots.push((start, end, root.to_hex()));
    }
    Ok(s)
}

/// Roots a node must offer at beacon `b` according to the statement ("depends only on the
/// canonical chain up to that beacon"): a Merkle map keyed by block range over
///   v2:     every range that contains a block <= b  ->  Merkle root over the leaves of its blocks <= b
///           (so the last range is partial when b is not the last block of a range);
///   legacy: every COMPLETE range (end <= b+1) with a transaction -> Merkle root over its transactions;
///           only defined for b = 14 mod 15 (the only beacons the legacy signing config produces).
/// "error" stands for "nothing to certify yet" (the builders fail on an empty map).
pub fn beacon_roots(node: &Node, chain: &[usize], b: u64) -> (Option<String>, String) {
    use mithril_common::crypto_helper::{MKMap, MKMapNode, MKTreeNode};
    use mithril_common::entities::BlockRange;
    type Map = MKMap<BlockRange, MKMapNode<BlockRange, MKTreeStoreInMemory>, MKTreeStoreInMemory>;
    let blocks: Vec<_> = chain.iter().map(|id| &node.blocks[*id]).take_while(|x| x.number <= b).collect();
    let mut v2: Vec<(BlockRange, MKMapNode<BlockRange, MKTreeStoreInMemory>)> = vec![];
    let mut legacy: Vec<(BlockRange, MKMapNode<BlockRange, MKTreeStoreInMemory>)> = vec![];
    let mut k = 0u64;
    while k * RANGE <= b {
        let (start, end) = (k * RANGE, (k + 1) * RANGE);
        k += 1;
        let in_range: Vec<_> = blocks.iter().filter(|x| x.number >= start && x.number < end).collect();
        if in_range.is_empty() {
            continue;
        }
        let nodes: BTreeSet<CardanoBlockTransactionMkTreeNode> = in_range
            .iter()
            .flat_map(|x| CardanoBlockWithTransactions::new(x.hash_hex(), BlockNumber(x.number), SlotNumber(x.slot), x.txs.clone()).into_mk_tree_node())
            .collect();
        let Ok(root) = MKTree::<MKTreeStoreInMemory>::new_from_iter(nodes).and_then(|t| t.compute_root()) else { return (None, "error".into()) };
        let range = BlockRange::from_block_number(BlockNumber(start));
        v2.push((range.clone(), MKMapNode::TreeNode(root)));
        if end <= b + 1 {
            let mut txs: Vec<(u64, String, CardanoTransaction)> = in_range
                .iter()
                .flat_map(|x| x.txs.iter().map(|t| (x.number, t.clone(), CardanoTransaction::new(t.clone(), BlockNumber(x.number), SlotNumber(x.slot), x.hash_hex()))))
                .collect();
            if !txs.is_empty() {
                txs.sort_by(|a, b| (a.0, &a.1).cmp(&(b.0, &b.1)));
                if let Ok(r) = MKTree::<MKTreeStoreInMemory>::new_from_iter(txs.into_iter().map(|t| t.2)).and_then(|t| t.compute_root()) {
                    legacy.push((range, MKMapNode::TreeNode(r)));
                }
            }
        }
    }
    let root = |entries: Vec<(BlockRange, MKMapNode<BlockRange, MKTreeStoreInMemory>)>| -> String {
        match Map::new_from_iter(entries).and_then(|m| m.compute_root()) {
            Ok(r) => MKTreeNode::to_hex(&r),
            Err(_) => "error".into(),
        }
    };
    let l = (b % RANGE == RANGE - 1).then(|| root(legacy));
    (l, root(v2))
}
