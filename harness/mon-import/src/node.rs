//! The simulated Cardano node: a fork tree (arena of every block ever produced) plus the node's
//! current (canonical) chain.
//!
//! Modelling decisions
//! * A block is (hash, block number, slot, transaction hashes, parent). Hashes are 32 bytes and
//!   depend on the parent hash and a fork salt, so two forks never share a block after their fork
//!   point (as on the real chain, where the hash commits to the predecessor).
//! * Slots are strictly increasing along a chain and sparse (>= 1; slot 0 is reserved for the
//!   origin point, like `RawCardanoPoint::origin()`).
//! * Block numbers: in `dense` mode they are consecutive (what Cardano does); in `sparse` mode the
//!   generator leaves gaps, up to whole empty block ranges (the design asks for it). The gaps are a
//!   function of the HEIGHT only (`height_numbers`): every fork numbers its h-th block alike, as
//!   on Cardano where number = height. Fork-dependent gaps were tried first and only produced
//!   artefacts that cannot happen on a chain with consecutive numbers (a new fork putting a block
//!   into an already complete block range above the resume point; an import target that is not an
//!   existing block number, which makes the streamer consume two blocks past the target and lose
//!   one of them when the second poll reaches the tip). For the same reason import targets are
//!   always numbers of existing blocks in sparse mode (history.rs).
//! * A transaction hash lives in at most one block of a chain, but a transaction of an abandoned
//!   block can be included again in a block of the new fork (what a real mempool does).
//! * `roll_back` only truncates the current chain; blocks produced afterwards form a new fork. The
//!   node never re-adopts an abandoned fork.
use rand_chacha::ChaCha20Rng;
use sha2::{Digest, Sha256};
use vcore::rnd;

#[derive(Clone, Debug)]
pub struct Blk {
    #[allow(dead_code)]
    pub id: usize,
    pub parent: Option<usize>,
    pub number: u64,
    pub slot: u64,
    pub hash: [u8; 32],
    pub txs: Vec<String>,
}

impl Blk {
    pub fn hash_hex(&self) -> String {
        hex::encode(self.hash)
    }
}

#[derive(Clone, Debug)]
pub struct ChainProfile {
    /// gaps in block numbers (false = consecutive numbers, like Cardano)
    pub sparse_numbers: bool,
    /// probability (in 1/100) that a block has no transaction outside a drought
    pub empty_block_pct: u64,
    /// probability (in 1/100) per block to toggle a "transaction drought" (stretch of blocks without
    /// transactions: gives empty legacy block ranges even with consecutive block numbers)
    pub drought_toggle_pct: u64,
    /// number of the first block (None = drawn: 0 or 1 with consecutive numbers, 0..20 with gaps)
    pub first_number: Option<u64>,
}

#[derive(Clone)]
pub struct Node {
    pub blocks: Vec<Blk>,
    /// canonical chain, block ids from the first block to the tip
    pub chain: Vec<usize>,
    /// position on the canonical chain per block id
    pos: Vec<Option<u32>>,
    pub profile: ChainProfile,
    orphan_txs: Vec<String>,
    tx_counter: u64,
    salt: u64,
    drought: bool,
    /// block number per height (position on a chain), shared by all forks
    height_numbers: Vec<u64>,
    /// number of changes of the canonical chain (diagnostic)
    pub version: u64,
}

impl Node {
    pub fn new(profile: ChainProfile) -> Node {
        Node { blocks: vec![], chain: vec![], pos: vec![], profile, orphan_txs: vec![], tx_counter: 0, salt: 0, drought: false, height_numbers: vec![], version: 0 }
    }

    /// a node with the same fork tree whose canonical chain is `chain` (used to serve a frozen
    /// view of the chain to a reference importer)
    pub fn with_chain(&self, chain: &[usize]) -> Node {
        let mut n = self.clone();
        n.chain = chain.to_vec();
        n.pos = vec![None; n.blocks.len()];
        for (i, id) in n.chain.iter().enumerate() {
            n.pos[*id] = Some(i as u32);
        }
        n
    }

    pub fn tip(&self) -> Option<&Blk> {
        self.chain.last().map(|id| &self.blocks[*id])
    }
    pub fn tip_number(&self) -> Option<u64> {
        self.tip().map(|b| b.number)
    }
    pub fn pos_of(&self, id: usize) -> Option<usize> {
        self.pos.get(id).copied().flatten().map(|p| p as usize)
    }
    pub fn at(&self, pos: usize) -> &Blk {
        &self.blocks[self.chain[pos]]
    }
    /// block of the canonical chain with this slot and hash (chain-sync intersection lookup)
    pub fn find_on_chain(&self, slot: u64, hash: &[u8]) -> Option<usize> {
        // the chain is sorted by slot
        let i = self.chain.partition_point(|id| self.blocks[*id].slot < slot);
        let id = *self.chain.get(i)?;
        let b = &self.blocks[id];
        (b.slot == slot && b.hash[..] == *hash).then_some(id)
    }
    /// successor on the canonical chain of a point of the canonical chain (None = origin)
    pub fn next_after(&self, point: Option<usize>) -> Option<usize> {
        match point {
            None => self.chain.first().copied(),
            Some(id) => {
                let p = self.pos_of(id)?;
                self.chain.get(p + 1).copied()
            }
        }
    }
    /// most recent ancestor-or-self of `id` that is on the canonical chain (None = origin)
    pub fn ancestor_on_chain(&self, id: usize) -> Option<usize> {
        let mut cur = Some(id);
        while let Some(c) = cur {
            if self.pos_of(c).is_some() {
                return Some(c);
            }
            cur = self.blocks[c].parent;
        }
        None
    }
    /// highest position whose block number is <= n
    pub fn pos_at_or_below_number(&self, n: u64) -> Option<usize> {
        let i = self.chain.partition_point(|id| self.blocks[*id].number <= n);
        i.checked_sub(1)
    }

    fn fresh_tx(&mut self) -> String {
        self.tx_counter += 1;
        let mut h = Sha256::new();
        h.update(b"tx");
        h.update(self.tx_counter.to_le_bytes());
        hex::encode(h.finalize())
    }

    /// produce `n` blocks on top of the current tip
    pub fn forward(&mut self, n: usize, rng: &mut ChaCha20Rng) {
        for _ in 0..n {
            let parent = self.chain.last().copied();
            let (pslot, phash) = match parent {
                Some(p) => (self.blocks[p].slot, self.blocks[p].hash),
                None => (0, [0u8; 32]),
            };
            let height = self.chain.len();
            while self.height_numbers.len() <= height {
                let n = match self.height_numbers.last() {
                    None if self.profile.first_number.is_some() => self.profile.first_number.unwrap(),
                    None => {
                        if self.profile.sparse_numbers {
                            rnd::below(rng, 21)
                        } else {
                            rnd::below(rng, 2)
                        }
                    }
                    Some(p) => {
                        let gap = if !self.profile.sparse_numbers {
                            0
                        } else {
                            match rnd::below(rng, 100) {
                                0..=74 => 0,
                                75..=92 => 1 + rnd::below(rng, 3),
                                93..=96 => 4 + rnd::below(rng, 12),
                                _ => 16 + rnd::below(rng, 30),
                            }
                        };
                        p + 1 + gap
                    }
                };
                self.height_numbers.push(n);
            }
            let number = self.height_numbers[height];
            let slot = pslot + 1 + if rnd::chance(rng, 1, 12) { 20 + rnd::below(rng, 400) } else { rnd::below(rng, 20) };
            if rnd::below(rng, 100) < self.profile.drought_toggle_pct {
                self.drought = !self.drought;
            }
            let ntx = if self.drought || rnd::below(rng, 100) < self.profile.empty_block_pct { 0 } else { 1 + rnd::below(rng, 3) };
            let mut txs = vec![];
            for _ in 0..ntx {
                if !self.orphan_txs.is_empty() && rnd::chance(rng, 1, 2) {
                    let i = rnd::usize_below(rng, self.orphan_txs.len());
                    txs.push(self.orphan_txs.swap_remove(i));
                } else {
                    txs.push(self.fresh_tx());
                }
            }
            self.salt += 1;
            let mut h = Sha256::new();
            h.update(b"blk");
            h.update(phash);
            h.update(number.to_le_bytes());
            h.update(slot.to_le_bytes());
            h.update(self.salt.to_le_bytes());
            let hash: [u8; 32] = h.finalize().into();
            let id = self.blocks.len();
            self.blocks.push(Blk { id, parent, number, slot, hash, txs });
            self.pos.push(Some(self.chain.len() as u32));
            self.chain.push(id);
        }
        if n > 0 {
            self.version += 1;
        }
    }

    /// truncate the canonical chain so that the block at `keep_pos` becomes the tip
    /// (`None` = back to the origin)
    pub fn roll_back(&mut self, keep_pos: Option<usize>) -> usize {
        let keep = keep_pos.map(|p| p + 1).unwrap_or(0);
        let removed: Vec<usize> = self.chain.drain(keep.min(self.chain.len())..).collect();
        for id in &removed {
            self.pos[*id] = None;
            let txs = self.blocks[*id].txs.clone();
            self.orphan_txs.extend(txs);
        }
        if !removed.is_empty() {
            self.version += 1;
        }
        removed.len()
    }
}
