//! Comparison of the stored state with the state recomputed from scratch, and classification of a
//! disagreement into a witness class (signature).
use std::collections::{BTreeMap, BTreeSet};

use serde_json::{json, Value};

use crate::reader::{ReaderLog, Relayed};
use crate::sut::Snapshot;

#[derive(Debug, Default)]
pub struct Diff {
    /// stored blocks that are not on the chain the reference imported
    pub abandoned_blocks: Vec<(u64, u64, String)>,
    /// stored blocks that are on that chain but above the reference's target
    pub blocks_above_target: Vec<(u64, u64, String)>,
    /// blocks of the reference that are not stored
    pub missing_blocks: Vec<(u64, u64, String)>,
    pub tx_missing: Vec<(String, String)>,
    pub tx_extra: Vec<(String, String)>,
    pub roots_extra: Vec<(u64, u64, String)>,
    pub roots_missing: Vec<(u64, u64, String)>,
    pub roots_different: Vec<(u64, u64, String, String)>,
    pub legacy_extra: Vec<(u64, u64, String)>,
    pub legacy_missing: Vec<(u64, u64, String)>,
    pub legacy_different: Vec<(u64, u64, String, String)>,
}

impl Diff {
    pub fn is_empty(&self) -> bool {
        self.abandoned_blocks.is_empty()
            && self.blocks_above_target.is_empty()
            && self.missing_blocks.is_empty()
            && self.tx_missing.is_empty()
            && self.tx_extra.is_empty()
            && self.roots_extra.is_empty()
            && self.roots_missing.is_empty()
            && self.roots_different.is_empty()
            && self.legacy_extra.is_empty()
            && self.legacy_missing.is_empty()
            && self.legacy_different.is_empty()
    }

    /// the witness class, most fundamental disagreement first
    pub fn class(&self, floor: u64) -> &'static str {
        let only_roots = self.abandoned_blocks.is_empty()
            && self.missing_blocks.is_empty()
            && self.blocks_above_target.is_empty()
            && self.tx_missing.is_empty()
            && self.tx_extra.is_empty();
        let wrong_roots: Vec<u64> = self
            .roots_different
            .iter()
            .map(|r| r.0)
            .chain(self.roots_extra.iter().map(|r| r.0))
            .chain(self.roots_missing.iter().map(|r| r.0))
            .chain(self.legacy_different.iter().map(|r| r.0))
            .chain(self.legacy_extra.iter().map(|r| r.0))
            .chain(self.legacy_missing.iter().map(|r| r.0))
            .collect();
        if only_roots && !wrong_roots.is_empty() && wrong_roots.iter().all(|start| *start < floor) {
            // every wrong root belongs to a range that starts below the prune threshold: it was
            // (re)computed while some of its blocks were already pruned
            return PRUNED_ROOTS_CLASS;
        }
        if !self.abandoned_blocks.is_empty() {
            "C13 blocks of an abandoned fork remain stored"
        } else if !self.missing_blocks.is_empty() {
            "C13 canonical blocks missing from the store"
        } else if !self.blocks_above_target.is_empty() {
            "C13 blocks above the import target stored"
        } else if !self.tx_missing.is_empty() || !self.tx_extra.is_empty() {
            "C13 stored transactions differ from the canonical chain"
        } else if !self.roots_different.is_empty() || !self.roots_extra.is_empty() {
            "C13 stale block range root after roll-back"
        } else if !self.roots_missing.is_empty() {
            "C13 block range root missing"
        } else if !self.legacy_different.is_empty() || !self.legacy_extra.is_empty() {
            "C13 stale legacy block range root after roll-back"
        } else {
            "C13 legacy block range root missing"
        }
    }

    pub fn to_json(&self) -> Value {
        fn cap<T: serde::Serialize>(v: &[T]) -> Value {
            json!({"count": v.len(), "first": v.iter().take(6).collect::<Vec<_>>()})
        }
        json!({
            "abandoned_blocks_stored": cap(&self.abandoned_blocks), "canonical_blocks_above_target_stored": cap(&self.blocks_above_target),
            "canonical_blocks_missing": cap(&self.missing_blocks),
            "tx_missing": cap(&self.tx_missing), "tx_extra_or_wrong_block": cap(&self.tx_extra),
            "roots_extra": cap(&self.roots_extra), "roots_missing": cap(&self.roots_missing), "roots_different(start,end,stored,expected)": cap(&self.roots_different),
            "legacy_roots_extra": cap(&self.legacy_extra), "legacy_roots_missing": cap(&self.legacy_missing), "legacy_roots_different(start,end,stored,expected)": cap(&self.legacy_different),
        })
    }
}

/// * `floor`: blocks / transactions are compared at or above this block number only (pruning)
/// * `limit`: Some(T) = prefix comparison: blocks with number <= T, range roots with end <= T+1
/// * `chain_hashes`: hashes of the chain the reference imported (to tell abandoned blocks from
///   canonical blocks above the target)
pub fn compare(stored: &Snapshot, reference: &Snapshot, floor: u64, limit: Option<u64>, chain_hashes: &BTreeSet<String>) -> Diff {
    let mut d = Diff::default();
    let keep_block = |b: &(u64, u64, String)| b.0 >= floor && limit.map(|l| b.0 <= l).unwrap_or(true);
    let s_blocks: BTreeSet<&(u64, u64, String)> = stored.blocks.iter().filter(|b| keep_block(b)).collect();
    let r_blocks: BTreeSet<&(u64, u64, String)> = reference.blocks.iter().filter(|b| keep_block(b)).collect();
    for b in s_blocks.difference(&r_blocks) {
        if chain_hashes.contains(&b.2) && reference.blocks.iter().all(|r| r.2 != b.2) {
            d.blocks_above_target.push((*b).clone());
        } else {
            d.abandoned_blocks.push((*b).clone());
        }
    }
    for b in r_blocks.difference(&s_blocks) {
        d.missing_blocks.push((*b).clone());
    }
    // transactions of the compared blocks
    let s_hashes: BTreeSet<&str> = s_blocks.iter().map(|b| b.2.as_str()).collect();
    let r_hashes: BTreeSet<&str> = r_blocks.iter().map(|b| b.2.as_str()).collect();
    let s_tx: BTreeSet<&(String, String)> = stored.txs.iter().filter(|t| s_hashes.contains(t.1.as_str())).collect();
    let r_tx: BTreeSet<&(String, String)> = reference.txs.iter().filter(|t| r_hashes.contains(t.1.as_str())).collect();
    // only report transaction differences of blocks both sides have (the block differences are
    // reported above)
    for t in s_tx.difference(&r_tx) {
        if r_hashes.contains(t.1.as_str()) {
            d.tx_extra.push((*t).clone());
        }
    }
    for t in r_tx.difference(&s_tx) {
        if s_hashes.contains(t.1.as_str()) {
            d.tx_missing.push((*t).clone());
        }
    }
    // transactions stored without their block being stored cannot exist with foreign keys on; a
    // transaction row pointing to a block that is not stored is reported as extra
    if limit.is_none() {
        let all_stored_blocks: BTreeSet<&str> = stored.blocks.iter().map(|b| b.2.as_str()).collect();
        for t in &stored.txs {
            if !all_stored_blocks.contains(t.1.as_str()) {
                d.tx_extra.push(t.clone());
            }
        }
    }
    let keep_root = |r: &(u64, u64, String)| limit.map(|l| r.1 <= l + 1).unwrap_or(true);
    let roots = |s: &[(u64, u64, String)]| -> BTreeMap<(u64, u64), String> {
        s.iter().filter(|r| keep_root(r)).map(|r| ((r.0, r.1), r.2.clone())).collect()
    };
    type Triple = Vec<(u64, u64, String)>;
    let cmp = |s: BTreeMap<(u64, u64), String>, r: BTreeMap<(u64, u64), String>| -> (Triple, Triple, Vec<(u64, u64, String, String)>) {
        let (mut extra, mut missing, mut different) = (vec![], vec![], vec![]);
        for (k, v) in &s {
            match r.get(k) {
                None => extra.push((k.0, k.1, v.clone())),
                Some(e) if e != v => different.push((k.0, k.1, v.clone(), e.clone())),
                _ => {}
            }
        }
        for (k, v) in &r {
            if !s.contains_key(k) {
                missing.push((k.0, k.1, v.clone()));
            }
        }
        (extra, missing, different)
    };
    (d.roots_extra, d.roots_missing, d.roots_different) = cmp(roots(&stored.roots), roots(&reference.roots));
    (d.legacy_extra, d.legacy_missing, d.legacy_different) = cmp(roots(&stored.legacy_roots), roots(&reference.legacy_roots));
    d
}

/// What the chain-sync model relayed during the import, relative to what was stored before it.
/// Fixed strings only (they become part of the signature).
pub const NOT_CONSULTED: &str = "import did not consult the node: target at or below the highest stored block";

pub const BEFORE_FIRST: &str = "C13 roll-back to a point before the first stored block is ignored by the store";
pub const LOST_AFTER_FAILED_WRITE: &str = "C13 blocks polled before a failed write are lost when the resume point is no longer on the node's chain";
pub const STREAMER_SKIP: &str = "C13 roll-back to the streamer's starting point received after roll-forwards is skipped by the streamer";
pub const PRUNED_RANGE: &str = "C13 block range root recomputed over pruned blocks after a roll-back into a partly pruned range";
pub const PRUNED_ROOTS_CLASS: &str = "C13 block range root recomputed over pruned blocks";

struct Walk {
    labels: Vec<&'static str>,
    not_found: bool,
    no_agency: bool,
    /// a RollBackward to the starting point of the current streamer arrived after that streamer
    /// had already been given roll-forwards: `ChainReaderBlockStreamer` skips it all the same
    skipped_genuine: bool,
    before_first: bool,
}

fn walk(log: &ReaderLog, before: &Snapshot) -> Walk {
    let stored_slots: BTreeSet<u64> = before.blocks.iter().map(|b| b.1).collect();
    let mut w = Walk { labels: vec![], not_found: false, no_agency: false, skipped_genuine: false, before_first: false };
    let mut seen = BTreeSet::new();
    // the streamer skips RollBackward(slot of ITS starting point); every set_chain_point is the
    // start of a new streamer (ByChunk makes several per import)
    let mut from_slot: Option<u64> = None;
    let mut forwards_since_set_point = 0u64;
    for r in &log.relayed {
        match r {
            Relayed::SetPoint { slot, found, agency } => {
                from_slot = Some(*slot);
                forwards_since_set_point = 0;
                if !*agency {
                    w.no_agency = true;
                } else if !*found {
                    w.not_found = true;
                }
            }
            Relayed::Forward { .. } => forwards_since_set_point += 1,
            Relayed::Backward { slot, number } => {
                if Some(*slot) == from_slot {
                    if forwards_since_set_point > 0 {
                        w.skipped_genuine = true;
                        let c = "roll-back to the streamer's starting point relayed after roll-forwards";
                        if seen.insert(c) {
                            w.labels.push(c);
                        }
                    }
                    continue;
                }
                let c = if stored_slots.is_empty() {
                    "roll-back relayed while nothing is stored"
                } else if number.is_none() {
                    w.before_first = true;
                    "roll-back to origin relayed"
                } else if *slot < *stored_slots.iter().next().unwrap() {
                    w.before_first = true;
                    "roll-back to a point before the first stored block relayed"
                } else if *slot > *stored_slots.iter().next_back().unwrap() {
                    "roll-back to a point above the highest stored block relayed"
                } else if stored_slots.contains(slot) {
                    "roll-back to a stored block relayed"
                } else {
                    "roll-back to a point between stored blocks that is not stored relayed"
                };
                if seen.insert(c) {
                    w.labels.push(c);
                }
            }
            _ => {}
        }
    }
    w
}

/// description of what happened on the chain-sync connection during the import
pub fn cause(log: &ReaderLog, before: &Snapshot, first_import_after_restart: bool) -> String {
    if log.relayed.is_empty() {
        return NOT_CONSULTED.to_string();
    }
    let w = walk(log, before);
    let mut parts = w.labels.clone();
    if parts.is_empty() {
        parts.push("no roll-back relayed");
    }
    if w.not_found {
        parts.push("intersection with the resume point not found");
    }
    if w.no_agency {
        parts.push("resumed without agency (client was awaiting at the tip)");
    }
    if first_import_after_restart {
        parts.push("first import after a restart");
    }
    parts.join("; ")
}

/// One signature per root cause: when the import saw one of the two triggers below, whatever
/// disagreement follows (abandoned blocks, foreign key failure, wrong roots) is filed under it.
///
/// `after_failed_write`: the previous import of this process (same chain-sync connection) ended
/// with a reported store failure after blocks had been polled. The importer's resume cursor was
/// (rightly) not advanced, but the connection's read pointer was; when the cursor is no longer on
/// the node's chain `find_intersect` misses, `PallasChainReader` ignores the miss and the stream
/// goes on AFTER the blocks that were never written.
pub fn root_cause(log: &ReaderLog, before: &Snapshot, after_failed_write: bool) -> Option<&'static str> {
    let w = walk(log, before);
    if w.skipped_genuine {
        Some(STREAMER_SKIP)
    } else if w.before_first {
        Some(BEFORE_FIRST)
    } else if after_failed_write && w.not_found {
        Some(LOST_AFTER_FAILED_WRITE)
    } else {
        None
    }
}

pub fn relayed_json(log: &ReaderLog) -> Value {
    // compress runs of forwards
    let mut out: Vec<Value> = vec![];
    let mut run: Option<(u64, u64, u64)> = None; // first number, last number, count
    let flush = |run: &mut Option<(u64, u64, u64)>, out: &mut Vec<Value>| {
        if let Some((a, b, n)) = run.take() {
            out.push(json!({"forward": {"from_block": a, "to_block": b, "blocks": n}}));
        }
    };
    for r in &log.relayed {
        match r {
            Relayed::Forward { number, .. } => {
                run = Some(match run {
                    None => (*number, *number, 1),
                    Some((a, _, n)) => (a, *number, n + 1),
                })
            }
            Relayed::SetPoint { slot, found, agency } => {
                flush(&mut run, &mut out);
                out.push(json!({"set_chain_point": {"slot": slot, "intersection_found": found, "client_has_agency": agency}}));
            }
            Relayed::Backward { slot, number } => {
                flush(&mut run, &mut out);
                out.push(json!({"backward": {"slot": slot, "block": number}}));
            }
            Relayed::Await => {
                flush(&mut run, &mut out);
                out.push(json!("await"));
            }
            Relayed::Timeout => {
                flush(&mut run, &mut out);
                out.push(json!("timeout"));
            }
        }
    }
    flush(&mut run, &mut out);
    Value::Array(out)
}
