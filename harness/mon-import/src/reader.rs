//! Harness `ChainBlockReader`: a small model of what `PallasChainReader` relays from the
//! Ouroboros chain-sync (node-to-client) server of a Cardano node.
//!
//! What is modelled, and where it comes from
//! * `PallasChainReader` keeps ONE client (= one chain-sync connection) across calls and opens it
//!   lazily (`get_client`); it drops it on any error / timeout (`drop_client`). A restart of the
//!   process is a new reader, hence a new connection.
//! * Server side follower (ouroboros-consensus `ChainDB` follower): a new follower is in state
//!   "roll back to genesis" - its first instruction is `RollBackward(Origin)`. `FindIntersect(p)`:
//!   when `p` is on the server's current chain the follower becomes "roll back to p" (next
//!   instruction `RollBackward(p)`); otherwise `IntersectNotFound` and the follower is unchanged.
//!   `pallas` returns `Ok((None, tip))` for not-found and `PallasChainReader::find_intersect_point`
//!   ignores the value (`Ok(Ok(_)) => {}`), i.e. the miss is swallowed.
//! * `RequestNext`: follower point no longer on the server's chain => `RollBackward(most recent
//!   common point)`; pending roll-back => `RollBackward(point)`; otherwise the successor =>
//!   `RollForward(block)`; at the tip => `AwaitReply`, relayed as `Ok(None)`.
//! * After `AwaitReply` the pallas client is in `MustReply`: it has no agency. The reader then
//!   (a) SKIPS `find_intersect` in `set_chain_point` ("Doesn't have agency, no need to find
//!   intersect point") and (b) `get_next_chain_block` waits (`recv_while_must_reply`) for the
//!   server's next instruction; when nothing arrives within the time-out it returns an error and
//!   drops the client. Modelled: `must_reply` flag; if the chain has not moved, `Err` + connection
//!   dropped.
//! * The roll-back evaluation is lazy (computed when the client asks). This is observationally
//!   equivalent to the eager follower update of the real node as long as the node never
//!   re-adopts an abandoned fork, which `Node` never does.
//!
//! Optional mid-import re-organisation: a script "after k more `get_next_chain_block` calls the
//! node switches to a longer fork" lets chain events happen WHILE the streamer is polling (the
//! only way to reach the streamer's in-buffer roll-back handling).
use std::sync::{Arc, Mutex};

use async_trait::async_trait;
use mithril_cardano_node_chain::chain_reader::ChainBlockReader;
use mithril_cardano_node_chain::entities::{ChainBlockNextAction, RawCardanoPoint, ScannedBlock};
use mithril_common::entities::{BlockNumber, SlotNumber};
use mithril_common::StdResult;
use rand_chacha::ChaCha20Rng;

use crate::node::Node;

#[derive(Clone, Debug, PartialEq)]
pub enum Relayed {
    /// `set_chain_point(point)` (= start of a new streamer): `found` = the intersection was found;
    /// `agency` = false when the client was in MustReply and find_intersect was skipped
    SetPoint { slot: u64, found: bool, agency: bool },
    Forward { number: u64, slot: u64 },
    /// `number` = block number of the roll-back point (None = origin)
    Backward { slot: u64, number: Option<u64> },
    Await,
    Timeout,
}

#[derive(Default, Debug)]
pub struct ReaderLog {
    pub connections_opened: u64,
    pub set_point_calls: u64,
    pub intersect_found: u64,
    pub intersect_not_found: u64,
    pub set_point_without_agency: u64,
    /// every call / everything relayed since the harness last cleared it (i.e. during the current
    /// import), in order
    pub relayed: Vec<Relayed>,
    pub mid_import_reorgs_applied: u64,
}

pub struct MidImportReorg {
    pub reads_left: usize,
    pub depth: usize,
    pub new_blocks: usize,
    pub rng: ChaCha20Rng,
}

struct Conn {
    /// follower point: None = origin
    point: Option<usize>,
    pending_rollback: bool,
    must_reply: bool,
}

pub struct ModelChainReader {
    node: Arc<Mutex<Node>>,
    conn: Option<Conn>,
    log: Arc<Mutex<ReaderLog>>,
    script: Arc<Mutex<Option<MidImportReorg>>>,
}

impl ModelChainReader {
    pub fn new(node: Arc<Mutex<Node>>, log: Arc<Mutex<ReaderLog>>, script: Arc<Mutex<Option<MidImportReorg>>>) -> Self {
        ModelChainReader { node, conn: None, log, script }
    }

    fn conn(&mut self) -> &mut Conn {
        if self.conn.is_none() {
            self.log.lock().unwrap().connections_opened += 1;
            // new follower: "roll back to genesis" is its first instruction
            self.conn = Some(Conn { point: None, pending_rollback: true, must_reply: false });
        }
        self.conn.as_mut().unwrap()
    }

    fn raw_point(node: &Node, p: Option<usize>) -> RawCardanoPoint {
        match p {
            None => RawCardanoPoint::origin(),
            Some(id) => RawCardanoPoint::new(SlotNumber(node.blocks[id].slot), node.blocks[id].hash.to_vec()),
        }
    }
}

/// what `drop_client` of the real reader does; exposed so that the harness can model a lost
/// connection between two imports
pub struct ConnectionKiller(pub Arc<tokio::sync::Mutex<ModelChainReader>>);
impl ConnectionKiller {
    pub async fn kill(&self) {
        self.0.lock().await.conn = None;
    }
}

#[async_trait]
impl ChainBlockReader for ModelChainReader {
    async fn set_chain_point(&mut self, point: &RawCardanoPoint) -> StdResult<()> {
        let node = self.node.clone();
        let log = self.log.clone();
        let conn = self.conn();
        let mut log = log.lock().unwrap();
        log.set_point_calls += 1;
        if conn.must_reply {
            // no agency: PallasChainReader skips find_intersect
            log.set_point_without_agency += 1;
            log.relayed.push(Relayed::SetPoint { slot: *point.slot_number, found: false, agency: false });
            return Ok(());
        }
        let node = node.lock().unwrap();
        let found = if point.is_origin() { Some(None) } else { node.find_on_chain(*point.slot_number, &point.block_hash).map(Some) };
        match found {
            Some(p) => {
                conn.point = p;
                conn.pending_rollback = true;
                log.intersect_found += 1;
                log.relayed.push(Relayed::SetPoint { slot: *point.slot_number, found: true, agency: true });
            }
            None => {
                // IntersectNotFound: follower unchanged, the miss is swallowed by the real reader
                log.intersect_not_found += 1;
                log.relayed.push(Relayed::SetPoint { slot: *point.slot_number, found: false, agency: true });
            }
        }
        Ok(())
    }

    async fn get_next_chain_block(&mut self) -> StdResult<Option<ChainBlockNextAction>> {
        let node = self.node.clone();
        let log = self.log.clone();
        let script = self.script.clone();
        {
            // chain events scripted to happen while the client is polling
            let mut s = script.lock().unwrap();
            let fire = match s.as_mut() {
                Some(r) if r.reads_left == 0 => true,
                Some(r) => {
                    r.reads_left -= 1;
                    false
                }
                None => false,
            };
            if fire {
                let mut r = s.take().unwrap();
                let mut n = node.lock().unwrap();
                let len = n.chain.len();
                let depth = r.depth.min(len);
                let keep = (len - depth).checked_sub(1);
                let old_tip = n.tip_number();
                n.roll_back(keep);
                // the node only switches to a chain that is at least as long (and, with gaps in
                // the numbering, whose tip number is not lower: import targets stay <= tip)
                n.forward(r.new_blocks.max(depth), &mut r.rng);
                while n.tip_number() < old_tip {
                    n.forward(1, &mut r.rng);
                }
                log.lock().unwrap().mid_import_reorgs_applied += 1;
            }
        }
        let conn = self.conn();
        let node = node.lock().unwrap();
        let mut log = log.lock().unwrap();
        // follower point on an abandoned fork: roll back to the most recent common point
        if let Some(id) = conn.point {
            if node.pos_of(id).is_none() {
                let anc = node.ancestor_on_chain(id);
                conn.point = anc;
                conn.pending_rollback = false;
                conn.must_reply = false;
                let rp = Self::raw_point(&node, anc);
                log.relayed.push(Relayed::Backward { slot: *rp.slot_number, number: anc.map(|a| node.blocks[a].number) });
                return Ok(Some(ChainBlockNextAction::RollBackward { rollback_point: rp }));
            }
        }
        if conn.pending_rollback {
            conn.pending_rollback = false;
            conn.must_reply = false;
            let rp = Self::raw_point(&node, conn.point);
            log.relayed.push(Relayed::Backward { slot: *rp.slot_number, number: conn.point.map(|a| node.blocks[a].number) });
            return Ok(Some(ChainBlockNextAction::RollBackward { rollback_point: rp }));
        }
        match node.next_after(conn.point) {
            Some(next) => {
                conn.point = Some(next);
                conn.must_reply = false;
                let b = &node.blocks[next];
                log.relayed.push(Relayed::Forward { number: b.number, slot: b.slot });
                let parsed_block = ScannedBlock::new(b.hash.to_vec(), BlockNumber(b.number), SlotNumber(b.slot), b.txs.clone());
                Ok(Some(ChainBlockNextAction::RollForward { parsed_block }))
            }
            None => {
                if conn.must_reply {
                    // recv_while_must_reply would block until the chainsync time-out, then the real
                    // reader returns an error and drops its client
                    log.relayed.push(Relayed::Timeout);
                    drop(log);
                    drop(node);
                    self.conn = None;
                    return Err(anyhow::anyhow!("model: PallasChainReader timed out waiting for next chain block from the Cardano node"));
                }
                conn.must_reply = true;
                log.relayed.push(Relayed::Await);
                Ok(None)
            }
        }
    }
}

/// Conformance of the model with the behaviour the repo's own `pallas_chain_reader` tests record
/// for the real reader against a scripted chain-sync server:
///  * `get_next_chain_block_rolls_backward`: after a found intersection the next action is
///    `RollBackward(that point)`;
///  * `get_next_chain_block_rolls_forward`: then blocks are rolled forward;
///  * `get_next_chain_block_has_no_agency`: after an await reply `set_chain_point` is harmless (no
///    intersection is looked for) and the next action is the server's next instruction (a
///    `RollForward` of the new block, NOT a `RollBackward` to the point just given);
///  * `cached_client_is_dropped_when_get_next_chain_block_times_out`: nothing new while awaiting =>
///    error, and the client is dropped (the next call works on a new connection, whose first
///    instruction is a roll-back to the intersection / origin).
pub async fn self_check() -> Result<(), String> {
    use crate::node::ChainProfile;
    use rand_core::SeedableRng;
    let mut rng = ChaCha20Rng::from_seed([7u8; 32]);
    let mut n = Node::new(ChainProfile { sparse_numbers: false, empty_block_pct: 0, drought_toggle_pct: 0, first_number: Some(1) });
    n.forward(3, &mut rng);
    let p = |n: &Node, pos: usize| RawCardanoPoint::new(SlotNumber(n.at(pos).slot), n.at(pos).hash.to_vec());
    let (p1, p2) = (p(&n, 0), p(&n, 1));
    let node = Arc::new(Mutex::new(n));
    let mut r = ModelChainReader::new(node.clone(), Arc::new(Mutex::new(ReaderLog::default())), Arc::new(Mutex::new(None)));
    let e = |s: &str| Err(format!("chain-sync model self-check failed: {s}"));
    r.set_chain_point(&p2).await.map_err(|e| e.to_string())?;
    match r.get_next_chain_block().await {
        Ok(Some(ChainBlockNextAction::RollBackward { rollback_point })) if rollback_point == p2 => {}
        _ => return e("expected RollBackward(intersection)"),
    }
    match r.get_next_chain_block().await {
        Ok(Some(ChainBlockNextAction::RollForward { parsed_block })) if *parsed_block.block_number == 3 => {}
        _ => return e("expected RollForward(block 3)"),
    }
    if !matches!(r.get_next_chain_block().await, Ok(None)) {
        return e("expected await at the tip");
    }
    // no agency: harmless set_chain_point, then the server's next instruction
    r.set_chain_point(&p1).await.map_err(|e| e.to_string())?;
    node.lock().unwrap().forward(1, &mut rng);
    match r.get_next_chain_block().await {
        Ok(Some(ChainBlockNextAction::RollForward { parsed_block })) if *parsed_block.block_number == 4 => {}
        _ => return e("expected RollForward(block 4) after an await reply"),
    }
    if !matches!(r.get_next_chain_block().await, Ok(None)) {
        return e("expected await at the tip (2)");
    }
    if r.get_next_chain_block().await.is_ok() {
        return e("expected a time-out error while awaiting with nothing new");
    }
    // new connection: unknown point => swallowed, first instruction = roll back to origin
    r.set_chain_point(&RawCardanoPoint::new(SlotNumber(999_999), vec![1u8; 32])).await.map_err(|e| e.to_string())?;
    match r.get_next_chain_block().await {
        Ok(Some(ChainBlockNextAction::RollBackward { rollback_point })) if rollback_point.is_origin() => {}
        _ => return e("expected RollBackward(origin) on a new connection without intersection"),
    }
    // follower on an abandoned fork => roll back to the most recent common point
    for _ in 0..4 {
        let _ = r.get_next_chain_block().await;
    }
    {
        let mut n = node.lock().unwrap();
        n.roll_back(Some(1));
        n.forward(3, &mut rng);
    }
    match r.get_next_chain_block().await {
        Ok(Some(ChainBlockNextAction::RollBackward { rollback_point })) if rollback_point == p2 => Ok(()),
        _ => e("expected RollBackward(common ancestor) after a fork switch"),
    }
}
