//! The system under test, wired like the signer / the aggregator wire it:
//!
//!   ModelChainReader (harness, chain-sync model)  ->  REAL CardanoBlockScanner -> REAL
//!   ChainReaderBlockStreamer -> REAL CardanoChainDataImporter (+ REAL ChainDataImporterWithPruner /
//!   ChainDataImporterByChunk decorators for the signer flavour) -> REAL
//!   SignerCardanoChainDataRepository over a REAL file-backed sqlite database built by the REAL
//!   ConnectionBuilder with the cardano-transaction migrations (foreign keys on; WAL for the
//!   aggregator flavour, like `dependency_injection/builder/support/sqlite.rs`).
//!
//! The aggregator's `AggregatorCardanoChainDataRepository` implements `ChainDataStore` with the
//! same delegations to the shared `CardanoTransactionRepository` as the signer's (checked textually
//! at start-up by `flavours_identical`), so the signer's type is used for both flavours and the
//! aggregator (several minutes of link time) is not linked.
//!
//! In-memory sqlite is NOT usable here: `CardanoTransactionRepository::optimize` renews the pool's
//! connections (`build_without_migrations`), which for ":memory:" yields a new empty database.
use std::path::{Path, PathBuf};
use std::sync::atomic::{AtomicBool, AtomicI64, AtomicU64, Ordering};
use std::sync::{Arc, Mutex};

use async_trait::async_trait;
use mithril_cardano_node_chain::chain_importer::{
    CardanoChainDataImporter, ChainDataImporter, ChainDataImporterByChunk, ChainDataImporterWithPruner, ChainDataPruner, ChainDataStore,
};
use mithril_cardano_node_chain::chain_reader::ChainBlockReader;
use mithril_cardano_node_chain::chain_scanner::CardanoBlockScanner;
use mithril_common::crypto_helper::MKTreeStoreInMemory;
use mithril_common::entities::{BlockNumber, BlockNumberOffset, ProtocolMessagePartKey};
use mithril_common::signable_builder::{
    BlocksTransactionsImporter, CardanoBlocksTransactionsSignableBuilder, CardanoTransactionsSignableBuilder, SignableBuilder,
    TransactionsImporter,
};
use mithril_common::StdResult;
use mithril_persistence::database::ApplicationNodeType;
use mithril_persistence::sqlite::{ConnectionBuilder, ConnectionOptions};
use mithril_signer::database::repository::SignerCardanoChainDataRepository;
use mithril_signer::services::SignerChainDataImporter;
use mithril_signer::store::MKTreeStoreSqlite;

use crate::node::Node;
use crate::reader::{MidImportReorg, ModelChainReader, ReaderLog};

#[derive(Clone, Copy, Debug, PartialEq)]
pub enum Flavour {
    Signer,
    Aggregator,
}

#[derive(Clone, Debug)]
pub struct SutConfig {
    pub flavour: Flavour,
    pub pool_size: usize,
    /// `ChainDataImporterWithPruner` decorator (signer: `enable_transaction_pruning` with
    /// `network_security_parameter` blocks kept)
    pub prune_keep: Option<u64>,
    /// `ChainDataImporterByChunk` decorator (signer: `transactions_import_block_chunk_size`)
    pub chunk: Option<u64>,
    pub max_roll_forwards_per_poll: usize,
    /// signer flavour: use the signer's MKTreeStoreSqlite in the signable builders
    pub sqlite_mktree: bool,
}

impl SutConfig {
    pub fn reference() -> SutConfig {
        SutConfig { flavour: Flavour::Aggregator, pool_size: 1, prune_keep: None, chunk: None, max_roll_forwards_per_poll: 100, sqlite_mktree: false }
    }
    pub fn describe(&self) -> serde_json::Value {
        serde_json::json!({"flavour": format!("{:?}", self.flavour), "pool_size": self.pool_size, "prune_keep": self.prune_keep,
            "chunk": self.chunk, "max_roll_forwards_per_poll": self.max_roll_forwards_per_poll, "sqlite_mktree": self.sqlite_mktree})
    }
}

/// Observability glue around the real pruner: records the highest threshold below which blocks
/// were ever pruned (the oracle compares blocks at or above it only) and delegates to the real
/// `ChainDataPruner` implementation of the repository.
pub struct RecordingPruner {
    inner: Arc<SignerCardanoChainDataRepository>,
    pub floor: Arc<AtomicU64>,
    pub calls: Arc<AtomicU64>,
}

#[async_trait]
impl ChainDataPruner for RecordingPruner {
    async fn prune(&self, number_of_blocks_to_keep: BlockNumber) -> StdResult<()> {
        if let Some(start) = self.inner.get_prune_blocks_threshold().await? {
            // same expression as CardanoTransactionRepository::prune_transaction (saturating)
            let threshold = start - number_of_blocks_to_keep;
            self.floor.fetch_max(*threshold, Ordering::SeqCst);
        }
        self.calls.fetch_add(1, Ordering::SeqCst);
        ChainDataPruner::prune(self.inner.as_ref(), number_of_blocks_to_keep).await
    }
}

/// marker carried by the error of an injected store failure
pub const INJECTED_STORE_FAULT: &str = "verif: injected store failure";

/// Fault injection at the store boundary: delegates every call to the real repository, except
/// that the `countdown`-th call of `store_blocks_and_transactions` after arming fails BEFORE
/// anything is written (what an aborted sqlite transaction - disk full, SQLITE_BUSY - looks like to
/// the importer). Disarmed (negative countdown) it is a pure pass-through.
pub struct FaultyStore {
    inner: Arc<SignerCardanoChainDataRepository>,
    pub countdown: Arc<AtomicI64>,
    pub fired: Arc<AtomicBool>,
}

#[async_trait]
impl ChainDataStore for FaultyStore {
    async fn get_highest_beacon(&self) -> StdResult<Option<mithril_common::entities::ChainPoint>> {
        ChainDataStore::get_highest_beacon(self.inner.as_ref()).await
    }
    async fn get_highest_block_range(&self) -> StdResult<Option<mithril_common::entities::BlockRange>> {
        ChainDataStore::get_highest_block_range(self.inner.as_ref()).await
    }
    async fn get_highest_legacy_block_range(&self) -> StdResult<Option<mithril_common::entities::BlockRange>> {
        ChainDataStore::get_highest_legacy_block_range(self.inner.as_ref()).await
    }
    async fn store_blocks_and_transactions(&self, b: Vec<mithril_common::entities::CardanoBlockWithTransactions>) -> StdResult<()> {
        if self.countdown.load(Ordering::SeqCst) >= 0 && self.countdown.fetch_sub(1, Ordering::SeqCst) == 0 {
            self.fired.store(true, Ordering::SeqCst);
            return Err(anyhow::anyhow!(INJECTED_STORE_FAULT));
        }
        ChainDataStore::store_blocks_and_transactions(self.inner.as_ref(), b).await
    }
    async fn get_blocks_and_transactions_in_range(
        &self,
        range: std::ops::Range<BlockNumber>,
    ) -> StdResult<std::collections::BTreeSet<mithril_common::entities::CardanoBlockTransactionMkTreeNode>> {
        ChainDataStore::get_blocks_and_transactions_in_range(self.inner.as_ref(), range).await
    }
    async fn get_transactions_in_range(&self, range: std::ops::Range<BlockNumber>) -> StdResult<Vec<mithril_common::entities::CardanoTransaction>> {
        ChainDataStore::get_transactions_in_range(self.inner.as_ref(), range).await
    }
    async fn store_block_range_roots(&self, r: Vec<(mithril_common::entities::BlockRange, mithril_common::crypto_helper::MKTreeNode)>) -> StdResult<()> {
        ChainDataStore::store_block_range_roots(self.inner.as_ref(), r).await
    }
    async fn store_legacy_block_range_roots(&self, r: Vec<(mithril_common::entities::BlockRange, mithril_common::crypto_helper::MKTreeNode)>) -> StdResult<()> {
        ChainDataStore::store_legacy_block_range_roots(self.inner.as_ref(), r).await
    }
    async fn remove_rolled_chain_data_and_block_range(&self, slot: mithril_common::entities::SlotNumber) -> StdResult<()> {
        ChainDataStore::remove_rolled_chain_data_and_block_range(self.inner.as_ref(), slot).await
    }
    async fn optimize(&self) -> StdResult<()> {
        ChainDataStore::optimize(self.inner.as_ref()).await
    }
}

/// importer that does nothing: lets the signable builders be asked for the root of a beacon
/// without touching the store
struct NoImport;
#[async_trait]
impl TransactionsImporter for NoImport {
    async fn import(&self, _: BlockNumber) -> StdResult<()> {
        Ok(())
    }
}
#[async_trait]
impl BlocksTransactionsImporter for NoImport {
    async fn import(&self, _: BlockNumber) -> StdResult<()> {
        Ok(())
    }
}

/// Observability glue around the signer's real adapter (`SignerChainDataImporter`): remembers
/// whether the import step of `compute_protocol_message` failed, so that an import failure can be
/// told apart from a failure of the root computation (e.g. "empty MMR" when nothing is certifiable
/// yet, which every honest node reports alike).
struct RecordingImporter {
    inner: SignerChainDataImporter,
    last_error: Arc<Mutex<Option<String>>>,
}
#[async_trait]
impl TransactionsImporter for RecordingImporter {
    async fn import(&self, b: BlockNumber) -> StdResult<()> {
        let r = TransactionsImporter::import(&self.inner, b).await;
        *self.last_error.lock().unwrap() = r.as_ref().err().map(|e| format!("{e:#}"));
        r
    }
}
#[async_trait]
impl BlocksTransactionsImporter for RecordingImporter {
    async fn import(&self, b: BlockNumber) -> StdResult<()> {
        let r = BlocksTransactionsImporter::import(&self.inner, b).await;
        *self.last_error.lock().unwrap() = r.as_ref().err().map(|e| format!("{e:#}"));
        r
    }
}

/// outcome of `compute_protocol_message` of a real builder wired to the real importer
pub struct Signed {
    /// Some(error) when the import step failed
    pub import_error: Option<String>,
    /// the Merkle root offered, or "error: ..." when the root computation failed
    pub root: String,
}

pub struct Sut {
    pub path: PathBuf,
    #[allow(dead_code)]
    pub cfg: SutConfig,
    #[allow(dead_code)]
    pub repo: Arc<SignerCardanoChainDataRepository>,
    pub importer: Arc<dyn ChainDataImporter>,
    pub reader: Arc<tokio::sync::Mutex<ModelChainReader>>,
    pub log: Arc<Mutex<ReaderLog>>,
    pub script: Arc<Mutex<Option<MidImportReorg>>>,
    pub pruner: Arc<RecordingPruner>,
    /// injected store failure: number of `store_blocks_and_transactions` calls to let through
    /// before one fails (negative = disarmed) / whether it fired
    pub store_fault: Arc<AtomicI64>,
    pub store_fault_fired: Arc<AtomicBool>,
    last_import_error: Arc<Mutex<Option<String>>>,
    legacy_real: Arc<dyn SignableBuilder<BlockNumber>>,
    v2_real: Arc<dyn SignableBuilder<(BlockNumber, BlockNumberOffset)>>,
    legacy_query: Arc<dyn SignableBuilder<BlockNumber>>,
    v2_query: Arc<dyn SignableBuilder<(BlockNumber, BlockNumberOffset)>>,
}

fn logger() -> slog::Logger {
    slog::Logger::root(slog::Discard, slog::o!())
}

impl Sut {
    /// open (or re-open) the database file and build a new reader / scanner / importer on top
    pub fn open(path: &Path, cfg: &SutConfig, node: Arc<Mutex<Node>>, floor: Arc<AtomicU64>) -> StdResult<Sut> {
        let options: Vec<ConnectionOptions> = match cfg.flavour {
            Flavour::Signer => vec![ConnectionOptions::EnableForeignKeys],
            Flavour::Aggregator => vec![ConnectionOptions::EnableForeignKeys, ConnectionOptions::EnableWriteAheadLog],
        };
        let pool = ConnectionBuilder::open_file(path)
            .with_node_type(match cfg.flavour {
                Flavour::Signer => ApplicationNodeType::Signer,
                Flavour::Aggregator => ApplicationNodeType::Aggregator,
            })
            .with_migrations(mithril_persistence::database::cardano_transaction_migration::get_migrations())
            .with_options(&options)
            .with_logger(logger())
            .build_pool(cfg.pool_size)?;
        let repo = Arc::new(SignerCardanoChainDataRepository::new(Arc::new(pool)));
        let log = Arc::new(Mutex::new(ReaderLog::default()));
        let script = Arc::new(Mutex::new(None));
        let reader = Arc::new(tokio::sync::Mutex::new(ModelChainReader::new(node, log.clone(), script.clone())));
        let dyn_reader: Arc<tokio::sync::Mutex<dyn ChainBlockReader>> = reader.clone();
        let scanner = Arc::new(CardanoBlockScanner::new(dyn_reader, cfg.max_roll_forwards_per_poll, logger()));
        let store_fault = Arc::new(AtomicI64::new(-1));
        let store_fault_fired = Arc::new(AtomicBool::new(false));
        let store = Arc::new(FaultyStore { inner: repo.clone(), countdown: store_fault.clone(), fired: store_fault_fired.clone() });
        let base: Arc<dyn ChainDataImporter> = Arc::new(CardanoChainDataImporter::new(scanner, store, logger()));
        let pruner = Arc::new(RecordingPruner { inner: repo.clone(), floor, calls: Arc::new(AtomicU64::new(0)) });
        let mut importer = base;
        if cfg.flavour == Flavour::Signer {
            // same decorator order as mithril-signer's dependency builder
            importer = Arc::new(ChainDataImporterWithPruner::new(cfg.prune_keep.map(BlockNumber), pruner.clone(), importer, logger()));
            if let Some(chunk) = cfg.chunk {
                importer = Arc::new(ChainDataImporterByChunk::new(repo.clone(), importer, BlockNumber(chunk), logger()));
            }
        }
        let last_import_error = Arc::new(Mutex::new(None));
        let adapter = Arc::new(RecordingImporter { inner: SignerChainDataImporter::new(importer.clone()), last_error: last_import_error.clone() });
        let (legacy_real, v2_real): (Arc<dyn SignableBuilder<BlockNumber>>, Arc<dyn SignableBuilder<(BlockNumber, BlockNumberOffset)>>) =
            if cfg.sqlite_mktree {
                (
                    Arc::new(CardanoTransactionsSignableBuilder::<MKTreeStoreSqlite>::new(adapter.clone(), repo.clone())),
                    Arc::new(CardanoBlocksTransactionsSignableBuilder::<MKTreeStoreSqlite>::new(adapter.clone(), repo.clone())),
                )
            } else {
                (
                    Arc::new(CardanoTransactionsSignableBuilder::<MKTreeStoreInMemory>::new(adapter.clone(), repo.clone())),
                    Arc::new(CardanoBlocksTransactionsSignableBuilder::<MKTreeStoreInMemory>::new(adapter.clone(), repo.clone())),
                )
            };
        let legacy_query: Arc<dyn SignableBuilder<BlockNumber>> =
            Arc::new(CardanoTransactionsSignableBuilder::<MKTreeStoreInMemory>::new(Arc::new(NoImport), repo.clone()));
        let v2_query: Arc<dyn SignableBuilder<(BlockNumber, BlockNumberOffset)>> =
            Arc::new(CardanoBlocksTransactionsSignableBuilder::<MKTreeStoreInMemory>::new(Arc::new(NoImport), repo.clone()));
        Ok(Sut { path: path.to_path_buf(), cfg: cfg.clone(), repo, importer, reader, log, script, pruner, store_fault, store_fault_fired, last_import_error, legacy_real, v2_real, legacy_query, v2_query })
    }

    /// import + root through the real legacy signable builder (what a signer does at a beacon)
    pub async fn sign_legacy(&self, beacon: u64) -> Signed {
        *self.last_import_error.lock().unwrap() = None;
        let r = self.legacy_real.compute_protocol_message(BlockNumber(beacon)).await;
        let import_error = self.last_import_error.lock().unwrap().take();
        let root = match r {
            Ok(m) => m.get_message_part(&ProtocolMessagePartKey::CardanoTransactionsMerkleRoot).cloned().unwrap_or_default(),
            Err(e) => format!("error: {e}"),
        };
        Signed { import_error, root }
    }
    /// import + root through the real v2 signable builder
    pub async fn sign_v2(&self, beacon: u64) -> Signed {
        *self.last_import_error.lock().unwrap() = None;
        let r = self.v2_real.compute_protocol_message((BlockNumber(beacon), BlockNumberOffset(0))).await;
        let import_error = self.last_import_error.lock().unwrap().take();
        let root = match r {
            Ok(m) => m.get_message_part(&ProtocolMessagePartKey::CardanoBlocksTransactionsMerkleRoot).cloned().unwrap_or_default(),
            Err(e) => format!("error: {e}"),
        };
        Signed { import_error, root }
    }
    /// root offered at `beacon` from what is stored now (no import)
    pub async fn root_legacy(&self, beacon: u64) -> String {
        match self.legacy_query.compute_protocol_message(BlockNumber(beacon)).await {
            Ok(m) => m.get_message_part(&ProtocolMessagePartKey::CardanoTransactionsMerkleRoot).cloned().unwrap_or_default(),
            Err(e) => format!("error: {e}"),
        }
    }
    pub async fn root_v2(&self, beacon: u64) -> String {
        match self.v2_query.compute_protocol_message((BlockNumber(beacon), BlockNumberOffset(0))).await {
            Ok(m) => m.get_message_part(&ProtocolMessagePartKey::CardanoBlocksTransactionsMerkleRoot).cloned().unwrap_or_default(),
            Err(e) => format!("error: {e}"),
        }
    }
    pub async fn kill_connection(&self) {
        crate::reader::ConnectionKiller(self.reader.clone()).kill().await
    }
}

/// full contents of the four tables, read through an independent read-only connection
#[derive(Clone, Debug, Default, PartialEq)]
pub struct Snapshot {
    /// (block_number, slot_number, block_hash) ordered by number, hash
    pub blocks: Vec<(u64, u64, String)>,
    /// (transaction_hash, block_hash) ordered by transaction hash
    pub txs: Vec<(String, String)>,
    /// (start, end, merkle_root)
    pub roots: Vec<(u64, u64, String)>,
    pub legacy_roots: Vec<(u64, u64, String)>,
}

impl Snapshot {
    pub fn read(path: &Path) -> StdResult<Snapshot> {
        let c = sqlite::Connection::open_with_flags(path, sqlite::OpenFlags::new().with_read_only())?;
        let mut s = Snapshot::default();
        let mut st = c.prepare("select block_number, slot_number, block_hash from cardano_block order by block_number, block_hash")?;
        while let sqlite::State::Row = st.next()? {
            s.blocks.push((st.read::<i64, _>(0)? as u64, st.read::<i64, _>(1)? as u64, st.read::<String, _>(2)?));
        }
        let mut st = c.prepare("select transaction_hash, block_hash from cardano_tx order by transaction_hash")?;
        while let sqlite::State::Row = st.next()? {
            s.txs.push((st.read::<String, _>(0)?, st.read::<String, _>(1)?));
        }
        for (table, out) in [("block_range_root", &mut s.roots), ("block_range_root_legacy", &mut s.legacy_roots)] {
            let mut st = c.prepare(format!("select start, end, merkle_root from {table} order by start, end"))?;
            while let sqlite::State::Row = st.next()? {
                out.push((st.read::<i64, _>(0)? as u64, st.read::<i64, _>(1)? as u64, st.read::<String, _>(2)?));
            }
        }
        Ok(s)
    }
    pub fn highest_number(&self) -> Option<u64> {
        self.blocks.last().map(|b| b.0)
    }
    pub fn lowest(&self) -> Option<&(u64, u64, String)> {
        self.blocks.first()
    }
}

/// textual check that the aggregator's `impl ChainDataStore` is the signer's (modulo the type name)
pub fn flavours_identical() -> Option<bool> {
    fn extract(path: &str, name: &str) -> Option<String> {
        let txt = std::fs::read_to_string(path).ok()?;
        let start = txt.find(&format!("impl ChainDataStore for {name}"))?;
        let rest = &txt[start..];
        let end = rest.find("#[async_trait::async_trait]").unwrap_or(rest.len());
        Some(rest[..end].replace(name, "X").split_whitespace().collect::<Vec<_>>().join(" "))
    }
    let a = extract("/repo/mithril-aggregator/src/database/repository/cardano_transaction_repository.rs", "AggregatorCardanoChainDataRepository")?;
    let s = extract("/repo/mithril-signer/src/database/repository/cardano_transaction_repository.rs", "SignerCardanoChainDataRepository")?;
    Some(a == s)
}
