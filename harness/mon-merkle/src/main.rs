use mithril_merkle_tree::*;
fn main() {
    let leaves: Vec<MKTreeNode> = (0..5).map(|i| MKTreeNode::new(format!("leaf-{i}").into_bytes())).collect();
    let t = MKTree::<MKTreeStoreInMemory>::new(&leaves).unwrap();
    let p = t.compute_proof(&leaves[1..3]).unwrap();
    println!("{}", serde_json::to_string(&p).unwrap());
    #[cfg(feature = "full")]
    {
        use mithril_common::entities::BlockRange;
        let m: MKMap<BlockRange, MKMapNode<BlockRange, MKTreeStoreInMemory>, MKTreeStoreInMemory> =
            MKMap::new(&[(BlockRange::from(0..15), t.into()), (BlockRange::from(15..30), MKTree::<MKTreeStoreInMemory>::new(&["a", "b"]).unwrap().into())]).unwrap();
        let mp = m.compute_proof(&[leaves[1].clone(), MKTreeNode::from("a")]).unwrap();
        println!("{}", serde_json::to_string(&mp).unwrap());
        println!("{:?}", mp.to_bytes().unwrap());
    }
}
