//! mon-merkle: runtime monitor for C09 - "Merkle membership proofs cannot vouch for anything outside
//! the committed set" - over (a) the STM signer-registration tree, (b) MKTree/MKProof, (c) nested
//! MKMap/MKMapProof and the MkSetProof entities.
//!
//!   mon-merkle C09 --tier quick|thorough [--replay FILE]
//!   mon-merkle C09 --miri-workload          (tiny deterministic workload for `cargo miri run`, see below)
//!
//! Miri sub-mode (pure Rust parts (b)/(c) only, no blst in the dependency graph):
//!   cd /verif/harness && MIRIFLAGS="-Zmiri-disable-isolation" CARGO_TARGET_DIR=/verif/harness/target-merkle-miri \
//!     cargo +nightly miri run --offline -p mon-merkle --no-default-features -- C09 --miri-workload
#![cfg_attr(not(feature = "full"), allow(dead_code))]
mod mk;
mod mkmap;
mod refs;
mod viol;
#[cfg(feature = "full")]
mod setproof;
#[cfg(feature = "full")]
mod stm;

use mk::TreeCtx;
use serde_json::{json, Value};
use vcore::{rnd, Monitor, Tier};

#[derive(Clone, Debug)]
enum Task {
    #[cfg(feature = "full")]
    StmExhaustive { n: usize, chunk: u64, nchunks: u64 },
    #[cfg(feature = "full")]
    StmSampled { shard: u64 },
    MkExhaustive { n: usize, chunk: u64, nchunks: u64 },
    MkSampled { shard: u64 },
    MapExhaustive { shard: u64, nshards: u64 },
    MapSampled { shard: u64 },
    #[cfg(feature = "full")]
    SetProof { shard: u64 },
}

struct Sizes {
    exhaustive_n: usize,
    pairs: usize,
    stm_sampled_shards: u64,
    stm_trees: usize,
    mk_sampled_shards: u64,
    mk_trees: usize,
    map_exh_max_ranges: usize,
    map_sampled_shards: u64,
    map_worlds: usize,
    set_shards: u64,
    set_worlds: usize,
}

fn sizes(t: Tier) -> Sizes {
    match t {
        Tier::Quick => Sizes {
            exhaustive_n: 12,
            pairs: 2,
            stm_sampled_shards: 16,
            stm_trees: 8,
            mk_sampled_shards: 16,
            mk_trees: 8,
            map_exh_max_ranges: 2,
            map_sampled_shards: 16,
            map_worlds: 16,
            set_shards: 16,
            set_worlds: 16,
        },
        Tier::Thorough => Sizes {
            exhaustive_n: 14,
            pairs: 40,
            stm_sampled_shards: 128,
            stm_trees: 30,
            mk_sampled_shards: 128,
            mk_trees: 30,
            map_exh_max_ranges: 3,
            map_sampled_shards: 256,
            map_worlds: 40,
            set_shards: 128,
            set_worlds: 40,
        },
    }
}

/// subsets of {0..n-1} as bit masks 1..2^n-1, the ones of this chunk
fn chunk_masks(n: usize, chunk: u64, nchunks: u64) -> impl Iterator<Item = u64> {
    (1u64..(1u64 << n)).filter(move |m| m % nchunks == chunk)
}
fn mask_to_sel(mask: u64, n: usize) -> Vec<usize> {
    (0..n).filter(|i| mask >> i & 1 == 1).collect()
}

fn sampled_sizes(rng: &mut rand_chacha::ChaCha20Rng, max: usize, count: usize) -> Vec<usize> {
    // boundary shapes (2^k - 1, 2^k, 2^k + 1) and random sizes above the exhaustive range
    let mut pool: Vec<usize> = vec![13, 14, 15, 16, 17, 23, 31, 32, 33, 63, 64, 65, 100, 127, 128, 129, 255, 256, 257, 511, 512, 513, 600, 1023, 1024, 1025, 2000];
    pool.retain(|x| *x <= max);
    (0..count).map(|i| if i % 2 == 0 { *rnd::pick(rng, &pool) } else { 13 + rnd::usize_below(rng, max - 12) }).collect()
}

fn random_selection(rng: &mut rand_chacha::ChaCha20Rng, n: usize) -> Vec<usize> {
    let k = match rnd::below(rng, 6) {
        0 => 1,
        1 => n.min(2),
        2 => n.min(1 + rnd::usize_below(rng, 16)),
        3 => n.min(1 + rnd::usize_below(rng, 6)),
        // a contiguous run (many siblings inside the batch)
        4 => n.min(2 + rnd::usize_below(rng, 10)),
        _ => n.min(1 + rnd::usize_below(rng, 4)),
    };
    let mut s: Vec<usize> = if rnd::chance(rng, 1, 3) {
        let start = rnd::usize_below(rng, n - k + 1);
        (start..start + k).collect()
    } else {
        (0..k).map(|_| rnd::usize_below(rng, n)).collect()
    };
    // always exercise the right edge now and then (last leaf, padding neighbour)
    if rnd::chance(rng, 1, 4) {
        s.push(n - 1);
    }
    s.sort();
    s.dedup();
    s
}

#[cfg(feature = "full")]
fn run_stm_exhaustive(pool: &[mithril_stm::VerificationKeyForConcatenation], n: usize, chunk: u64, nchunks: u64, pairs: usize, mon: &mut Monitor) {
    let mut trng = mon.rng("a-exhaustive-tree", n as u64);
    let ctx = stm::Ctx::gen(pool, n, false, &mut trng);
    let Some((tree, commitment)) = stm::open_tree(&ctx, mon) else { return };
    let mut rng = mon.rng("a-exhaustive", (n as u64) << 32 | chunk);
    for mask in chunk_masks(n, chunk, nchunks) {
        stm::run_selection(&ctx, &tree, &commitment, &mask_to_sel(mask, n), true, pairs, &mut rng, mon);
        mon.count(&format!("a:exhaustive_subsets_n={n:02}"));
    }
}

#[cfg(feature = "full")]
fn run_stm_sampled(pool: &[mithril_stm::VerificationKeyForConcatenation], shard: u64, sz: &Sizes, mon: &mut Monitor) {
    let mut rng = mon.rng("a-sampled", shard);
    for n in sampled_sizes(&mut rng, 600, sz.stm_trees) {
        let ctx = stm::Ctx::gen(pool, n, rnd::chance(&mut rng, 1, 6), &mut rng);
        let Some((tree, commitment)) = stm::open_tree(&ctx, mon) else { continue };
        mon.count("a:sampled_trees");
        for _ in 0..4 {
            let sel = random_selection(&mut rng, n);
            stm::run_selection(&ctx, &tree, &commitment, &sel, false, sz.pairs * 4, &mut rng, mon);
        }
    }
}

fn run_mk_exhaustive(n: usize, chunk: u64, nchunks: u64, pairs: usize, mon: &mut Monitor) {
    let mut trng = mon.rng("b-exhaustive-tree", n as u64);
    let leaves = mk::gen_leaves(&mut trng, n, n as u64, &format!("t{n}"));
    let foreign = mk::gen_leaves(&mut trng, 3, n as u64, "foreign");
    let ctx = TreeCtx::new(&format!("exh{n}"), leaves, foreign);
    let Ok(tree) = ctx.build_real() else {
        mon.inconclusive("MKTree::new failed");
        return;
    };
    let mut rng = mon.rng("b-exhaustive", (n as u64) << 32 | chunk);
    if chunk == 0 {
        mk::run_alt_preimages(&ctx, &mut rng, 6, mon);
        check_construction_orders(&ctx, mon);
    }
    for mask in chunk_masks(n, chunk, nchunks) {
        mk::run_selection(&ctx, &tree, &mask_to_sel(mask, n), true, pairs, &mut rng, mon);
        mon.count(&format!("b:exhaustive_subsets_n={n:02}"));
    }
}

/// root of the library tree is the reference root whether built at once or by appends
fn check_construction_orders(ctx: &TreeCtx, mon: &mut Monitor) {
    use mithril_merkle_tree::MKTreeNode;
    let nodes: Vec<MKTreeNode> = ctx.leaves.iter().map(|l| MKTreeNode::new(l.clone())).collect();
    let at_once = mk::Tree::new(&nodes).and_then(|t| t.compute_root());
    let appended = mk::Tree::new(&nodes[..1]).and_then(|mut t| {
        for x in &nodes[1..] {
            t.append(std::slice::from_ref(x))?;
        }
        t.compute_root()
    });
    mon.eval();
    match (at_once, appended) {
        (Ok(a), Ok(b)) if a.as_slice() == ctx.root.as_slice() && b.as_slice() == ctx.root.as_slice() => mon.count("b:root_equals_reference_mmr(two constructions)"),
        (a, b) => mon.violation(
            "C09 MKTree root disagrees with the reference MMR root",
            &format!("at once: {:?}, appended: {:?}, reference: {}", a.map(|x| x.to_hex()).ok(), b.map(|x| x.to_hex()).ok(), hex::encode(&ctx.root)),
            json!({"kind": "mkproof-gen", "tree": ctx.to_json()}),
        ),
    }
}

fn run_mk_sampled(shard: u64, sz: &Sizes, mon: &mut Monitor) {
    let mut rng = mon.rng("b-sampled", shard);
    for (i, n) in sampled_sizes(&mut rng, 2000, sz.mk_trees).into_iter().enumerate() {
        let style = shard + i as u64;
        let leaves = mk::gen_leaves(&mut rng, n, style, &format!("s{shard}t{i}"));
        let foreign = mk::gen_leaves(&mut rng, 3, style, "foreign");
        let ctx = TreeCtx::new(&format!("s{shard}t{i}"), leaves, foreign);
        let Ok(tree) = ctx.build_real() else { continue };
        mon.count("b:sampled_trees");
        check_construction_orders(&ctx, mon);
        mk::run_alt_preimages(&ctx, &mut rng, 3, mon);
        for _ in 0..4 {
            let sel = random_selection(&mut rng, n);
            mk::run_selection(&ctx, &tree, &sel, false, sz.pairs * 4, &mut rng, mon);
        }
    }
}

/// all maps with 1..=max_ranges ranges of 1..=3 leaves, all non-empty selections of their leaves
fn run_map_exhaustive(shard: u64, nshards: u64, max_ranges: usize, pairs: usize, mon: &mut Monitor) {
    let mut shapes: Vec<Vec<usize>> = vec![];
    for r in 1..=max_ranges {
        let mut idx = vec![1usize; r];
        loop {
            shapes.push(idx.clone());
            let mut p = 0;
            while p < r {
                idx[p] += 1;
                if idx[p] <= 3 {
                    break;
                }
                idx[p] = 1;
                p += 1;
            }
            if p == r {
                break;
            }
        }
    }
    for (si, shape) in shapes.iter().enumerate() {
        if si as u64 % nshards != shard {
            continue;
        }
        let mut rng = mon.rng("c-exhaustive", si as u64);
        let entries: Vec<((u64, u64), mkmap::RefNode)> = shape
            .iter()
            .enumerate()
            .map(|(r, n)| {
                let tag = format!("x{si}r{r}");
                ((15 * (r as u64 + 1), 15 * (r as u64 + 2)), mkmap::RefNode::Tree(TreeCtx::new(&tag, mk::gen_leaves(&mut rng, *n, si as u64, &tag), vec![b"foreign-a".to_vec(), b"foreign-b".to_vec()])))
            })
            .collect();
        let foreign = mk::gen_leaves(&mut rng, 3, si as u64, "foreign");
        let Ok(w) = mkmap::MapWorld::new(mkmap::MapCtx::new(entries), foreign) else {
            mon.inconclusive("MKMap::new failed");
            continue;
        };
        mon.count("c:exhaustive_map_shapes");
        let total = w.bottom.len();
        for mask in 1u64..(1 << total) {
            let sel: Vec<Vec<u8>> = mask_to_sel(mask, total).into_iter().map(|i| w.bottom[i].clone()).collect();
            mkmap::run_selection(&w, &sel, 30, pairs, &mut rng, mon);
            mon.count("c:exhaustive_selections");
        }
    }
}

fn run_map_sampled(shard: u64, sz: &Sizes, mon: &mut Monitor) {
    let mut rng = mon.rng("c-sampled", shard);
    for wi in 0..sz.map_worlds {
        let ranges = 1 + rnd::usize_below(&mut rng, 8);
        let nested = wi % 4 == 3;
        let w = match mkmap::gen_world(&mut rng, ranges, 20, nested, shard + wi as u64) {
            Ok(w) => w,
            Err(e) => {
                mon.inconclusive(&format!("cannot build a map world: {e}"));
                continue;
            }
        };
        mon.count(if nested { "c:sampled_worlds_nested" } else { "c:sampled_worlds" });
        mon.count(&format!("c:ranges={ranges}"));
        for _ in 0..3 {
            let k = 1 + rnd::usize_below(&mut rng, w.bottom.len().min(6));
            let mut sel: Vec<Vec<u8>> = (0..k).map(|_| rnd::pick(&mut rng, &w.bottom).clone()).collect();
            sel.sort();
            sel.dedup();
            mkmap::run_selection(&w, &sel, 40, sz.pairs * 4, &mut rng, mon);
        }
    }
}

#[cfg(feature = "full")]
fn run_setproof(shard: u64, sz: &Sizes, mon: &mut Monitor) {
    let mut rng = mon.rng("c-setproof", shard);
    for wi in 0..sz.set_worlds {
        let ranges = 1 + rnd::usize_below(&mut rng, 5);
        match setproof::gen_world(&mut rng, ranges, wi == 0, mon) {
            Ok(w) => setproof::run_world(&w, &mut rng, 2, mon),
            Err(e) => mon.inconclusive(&format!("cannot build a set-proof world: {e}")),
        }
        setproof::run_legacy(&mut rng, mon);
    }
}

fn replay(path: &std::path::Path, mon: &mut Monitor) -> bool {
    let Ok(txt) = std::fs::read_to_string(path) else { return false };
    let Ok(doc) = serde_json::from_str::<Value>(&txt) else { return false };
    let r = if doc.get("replay").is_some() { &doc["replay"] } else { &doc };
    let hexlist = |v: &Value| v.as_array().map(|a| a.iter().filter_map(|x| hex::decode(x.as_str()?).ok()).collect::<Vec<_>>());
    match r["kind"].as_str() {
        Some("mkproof") => {
            let (Some(leaves), Some(p)) = (hexlist(&r["tree"]["committed_leaves_hex"]), mk::ProofM::from_json(&r["proof"])) else { return false };
            let foreign = hexlist(&r["tree"]["foreign_leaves_hex"]).filter(|f| !f.is_empty()).unwrap_or_else(|| vec![b"foreign".to_vec()]);
            let ctx = TreeCtx::new(r["tree"]["label"].as_str().unwrap_or("replay"), leaves, foreign);
            let v = mk::judge(&ctx, &p, r["class"].as_str().unwrap_or("replay"), mon);
            println!("replay: MKProof case -> {v:?}");
            true
        }
        Some("mkmap") => {
            let (Some(mkmap::RefNode::Map(top)), Some(p)) = (mkmap::RefNode::from_json(&r["map"]), mkmap::MapProofM::from_json(&r["proof"])) else { return false };
            let Ok(w) = mkmap::MapWorld::new(top, vec![b"foreign-1".to_vec(), b"foreign-2".to_vec()]) else { return false };
            let v = mkmap::judge(&w, &p, r["class"].as_str().unwrap_or("replay"), mon);
            println!("replay: MKMapProof case -> {v:?}");
            true
        }
        #[cfg(feature = "full")]
        Some("stm") => stm::replay(r, mon),
        #[cfg(feature = "full")]
        Some("mksetproof-tx") => setproof::replay(r, mon),
        _ => false,
    }
}

fn miri_workload(seed: u64) -> ! {
    // small, deterministic, pure Rust: generation + bincode decoding + verification + contains on
    // (b) MKTree/MKProof and (c) MKMap/MKMapProof. Semantic verdicts are the business of the normal
    // run; here the point is that Miri watches the executions (UB, aliasing, uninitialised reads).
    let mut mon = Monitor::with("C09", Tier::Quick, seed);
    let mut rng = mon.rng("miri", 0);
    for n in [1usize, 2, 3, 5, 8] {
        let leaves = mk::gen_leaves(&mut rng, n, n as u64, &format!("m{n}"));
        let ctx = TreeCtx::new(&format!("miri{n}"), leaves, vec![b"foreign-a".to_vec(), b"foreign-b".to_vec()]);
        let tree = ctx.build_real().expect("tree");
        if n >= 2 {
            mk::run_alt_preimages(&ctx, &mut rng, 1, &mut mon);
        }
        let mut sels = vec![vec![0], vec![n - 1]];
        if n > 2 {
            sels.push(vec![0, n - 1]);
        }
        for sel in sels {
            let Some(m) = mk::honest(&ctx, &tree, &sel, &mut mon) else { continue };
            mk::judge(&ctx, &m, "identity", &mut mon);
            let ops = mk::enumerate_ops(&m, &ctx, true, &mut rng);
            for (i, op) in ops.iter().enumerate() {
                if i % 9 == (n % 9) {
                    if let Some(c) = mk::apply(&m, op, &ctx) {
                        mk::judge(&ctx, &c, &op.class(), &mut mon);
                    }
                }
            }
        }
    }
    let w = mkmap::gen_world(&mut rng, 2, 3, false, 2).expect("map world");
    let sel = vec![w.bottom[0].clone(), w.bottom[w.bottom.len() - 1].clone()];
    if let Some(m) = mkmap::honest(&w, &sel, &mut mon) {
        mkmap::judge(&w, &m, "identity", &mut mon);
        let ops = mkmap::enumerate_ops(&m, &w, 12, &mut rng);
        for (i, op) in ops.iter().enumerate() {
            if i % 2 == 0 {
                if let Some(c) = mkmap::apply(&m, op, &w) {
                    mkmap::judge(&w, &c, &op.class(), &mut mon);
                }
            }
        }
    }
    println!("[C09 miri-workload] operations={} semantic_witnesses_seen={} (judged by the normal run; this mode only feeds Miri)", mon.evaluations, mon.violations());
    for (k, v) in &mon.counters {
        if k.contains("outcome") || k.contains("panic") {
            println!("[C09 miri-workload]   {k} = {v}");
        }
    }
    std::process::exit(0)
}

fn main() {
    // anyhow captures a std backtrace for every error when RUST_BACKTRACE is set (it is, in the
    // verification environment): that is slow and serialises all threads on std's global backtrace
    // lock - every rejected proof is an anyhow error here. Library backtraces are not needed.
    std::env::set_var("RUST_LIB_BACKTRACE", "0");
    let args = vcore::parse_args();
    vcore::install_panic_hook();
    if args.prop != "C09" {
        eprintln!("mon-merkle: unknown property {}", args.prop);
        std::process::exit(2);
    }
    if args.extra.iter().any(|a| a == "--miri-workload") {
        miri_workload(args.seed);
    }
    let mut mon = Monitor::new(&args);
    if let Err(e) = refs::self_test() {
        mon.inconclusive(&format!("reference trees disagree with each other: {e}"));
    }
    let rule = "committed data = leaf lists generated by the harness; committed roots recomputed by reference trees written in the harness (heap tree with H([0]) padding / MMR with right-to-left peak bagging / H(key||root) map leaves). Candidates: (a) STM tree n=1..12 x every non-empty index subset x every single mutation of (leaves, indices, path values, nr_leaves, root) incl. every other position (padding, beyond, overflow), duplicates, unsorted, + sampled pairs, + sampled n<=600; (b) MKTree n=1..12 x every subset x every single mutation of the bincode form (leaf -> every other committed leaf / foreign / inner node, position -> every MMR position incl. inner ones, duplicate positions, mmr_size, items, root) + alternative pre-images with the same root (root as 1-leaf tree, inner level as leaves under a smaller mmr_size, byte moved across sibling leaves) + sampled pairs + sampled n<=2000; (c) block-range maps (all shapes up to the stated bound, then 1-8 ranges x 1-20 leaves, some nested) x sub-proof swapped / detached / key edited / master leaf replaced or duplicated / empty sub_proofs / every MKProof mutation on master and sub-proofs; MkSetProof / CardanoTransactionsSetProof with items added, renamed, moved, forged. A case is NON-TRIVIAL when at least one (position, leaf) / item it claims is false for the committed data (or the root was altered), i.e. acceptance would be a violation; distinct = distinct (committed root, wire bytes of the candidate).";
    if let Some(path) = &args.replay {
        // a replay re-judges the single stored case and writes nothing (evidence and replay files of
        // the last real run stay untouched)
        if !replay(path, &mut mon) {
            println!("INCONCLUSIVE property=C09 replay file not understood (supported kinds: stm, mkproof, mkmap, mksetproof-tx)");
            std::process::exit(2);
        }
        if mon.violations() > 0 {
            println!("VIOLATION property=C09 replay={} (witness reproduced)", path.display());
            std::process::exit(1);
        }
        println!("HELD property=C09 the replayed case is not a violation on this tree (or it is a listed known finding)");
        std::process::exit(0);
    }
    let sz = sizes(args.tier);
    let threads = vcore::default_threads();

    // task list: one small task of every part first (evidence samples from every part), then the
    // heavy exhaustive chunks, then the sampled shards
    let nchunks = |n: usize| -> u64 { if n >= 8 { 1 << (n - 7) } else { 1 } };
    let mut tasks: Vec<Task> = vec![];
    #[cfg(feature = "full")]
    tasks.push(Task::StmExhaustive { n: 6, chunk: 0, nchunks: 1 });
    tasks.push(Task::MkExhaustive { n: 6, chunk: 0, nchunks: 1 });
    tasks.push(Task::MapSampled { shard: 0 });
    #[cfg(feature = "full")]
    tasks.push(Task::SetProof { shard: 0 });
    for n in (1..=sz.exhaustive_n).rev() {
        if n == 6 {
            continue;
        }
        for chunk in 0..nchunks(n) {
            #[cfg(feature = "full")]
            tasks.push(Task::StmExhaustive { n, chunk, nchunks: nchunks(n) });
            tasks.push(Task::MkExhaustive { n, chunk, nchunks: nchunks(n) });
        }
    }
    let map_exh_shards = if sz.map_exh_max_ranges >= 3 { 39 } else { 12 };
    for shard in 0..map_exh_shards {
        tasks.push(Task::MapExhaustive { shard, nshards: map_exh_shards });
    }
    #[cfg(feature = "full")]
    for shard in 0..sz.stm_sampled_shards {
        tasks.push(Task::StmSampled { shard });
    }
    for shard in 0..sz.mk_sampled_shards {
        tasks.push(Task::MkSampled { shard });
    }
    for shard in 1..sz.map_sampled_shards {
        tasks.push(Task::MapSampled { shard });
    }
    #[cfg(feature = "full")]
    for shard in 1..sz.set_shards {
        tasks.push(Task::SetProof { shard });
    }

    // development aid: VERIF_ONLY=<substring of the task's debug form> runs a subset (the run is
    // then reported inconclusive because the exhaustive subspace is incomplete)
    if let Ok(f) = std::env::var("VERIF_ONLY") {
        tasks.retain(|t| format!("{t:?}").contains(&f));
    }

    #[cfg(feature = "full")]
    let pool = stm::key_pool(&mon, 40);

    vcore::run_shards(&mut mon, tasks.len() as u64, threads, |i, m| {
        m.max_samples = if matches!(tasks[i as usize], Task::MapSampled { .. }) { 2 } else { 1 };
        let t0 = std::time::Instant::now();
        match &tasks[i as usize] {
            #[cfg(feature = "full")]
            Task::StmExhaustive { n, chunk, nchunks } => run_stm_exhaustive(&pool, *n, *chunk, *nchunks, sz.pairs, m),
            #[cfg(feature = "full")]
            Task::StmSampled { shard } => run_stm_sampled(&pool, *shard, &sz, m),
            Task::MkExhaustive { n, chunk, nchunks } => run_mk_exhaustive(*n, *chunk, *nchunks, sz.pairs, m),
            Task::MkSampled { shard } => run_mk_sampled(*shard, &sz, m),
            Task::MapExhaustive { shard, nshards } => run_map_exhaustive(*shard, *nshards, sz.map_exh_max_ranges, sz.pairs, m),
            Task::MapSampled { shard } => run_map_sampled(*shard, &sz, m),
            #[cfg(feature = "full")]
            Task::SetProof { shard } => run_setproof(*shard, &sz, m),
        }
        if std::env::var("VERIF_DEBUG").is_ok() {
            eprintln!("task {i} {:?}: {:.1}s, {} evaluations", tasks[i as usize], t0.elapsed().as_secs_f64(), m.evaluations);
        }
    });

    // completeness of the enumeration, as measured
    let mut subsets = serde_json::Map::new();
    let mut all_complete = true;
    for n in 1..=sz.exhaustive_n {
        let want = (1u64 << n) - 1;
        let a = mon.counter(&format!("a:exhaustive_subsets_n={n:02}"));
        let b = mon.counter(&format!("b:exhaustive_subsets_n={n:02}"));
        subsets.insert(format!("n={n}"), json!({"subsets_expected": want, "stm_tree": a, "mktree": b}));
        all_complete &= b == want && (cfg!(not(feature = "full")) || a == want);
    }
    mon.extra.insert(
        "exhaustive_subspace".into(),
        json!({
            "description": format!("(a) STM registration tree and (b) MKTree: every tree size n = 1..{} x every non-empty subset of leaf indices (2^n - 1 honest proofs per n) x every single mutation of the enumerators stm::enumerate_ops / mk::enumerate_ops in exhaustive mode (each leaf -> every other committed leaf; each index/position -> every other position incl. padding / inner-node positions and 2-3 beyond; duplicates; every path value / item flipped, dropped, inserted; nr_leaves / mmr_size / root variants); (c) every map shape with 1..{} block ranges of 1..3 leaves x every non-empty selection of bottom leaves x all map-level mutations (tree-level mutations of master/sub-proofs capped at 30 sampled per proof). Pairs of mutations and larger sizes are sampled, not enumerated.", sz.exhaustive_n, sz.map_exh_max_ranges),
            "per_size": subsets,
            "map_shapes": mon.counter("c:exhaustive_map_shapes"),
            "map_selections": mon.counter("c:exhaustive_selections"),
            "complete": all_complete,
        }),
    );
    mon.extra.insert("exhaustive".into(), json!(false));
    if !all_complete {
        mon.inconclusive("the exhaustive subspace was not enumerated completely (see coverage.exhaustive_subspace)");
    }
    mon.finish(
        rule,
        &[
            "Blake2b-256 / Blake2s-256 collision and pre-image resistance (the adversary is structural)",
            "panics inside verification on hostile indices/positions count as rejections (reported as verifier_panic@file:line counters)",
            "MKProof/MKMapProof carry their own root: 'verifies against the commitment' = verify() is Ok AND root()/compute_root() equals the committed root recomputed by the reference",
            "entries H(key||root) of a map's master proof count as committed (they are leaves of the committed master tree)",
            "STM batch path indices are relative to the nr_leaves the verifier is given: under an altered nr_leaves a claim (index, leaf) is judged at heap-position level (true when the committed tree holds that leaf at heap position index + 2^ceil(log2 nr_leaves) - 1)",
        ],
        1000,
    );
}
