//! C09 (b): `MKTree` / `MKProof` of mithril-merkle-tree.
//!
//! Candidates are built on a mirror of the proof's serde shape (`ProofM`), encoded with bincode and
//! decoded by the real `MKProof::from_bytes`; the verdict is `verify() == Ok && root() == reference
//! root`. What a proof claims is its list of (position, leaf) entries - exactly what
//! `MKProof::contains` / `leaves()` expose - and every claim of an accepted proof must be true for
//! the committed leaf list under the reference MMR of refs.rs.
use crate::refs::{self, Bytes, RefMmr};
use mithril_merkle_tree::{MKProof, MKTree, MKTreeNode, MKTreeStoreInMemory};
use rand_chacha::ChaCha20Rng;
use serde::{Deserialize, Serialize};
use serde_json::{json, Value};
use std::collections::HashMap;
use vcore::{catch, rnd, Monitor};

pub type Tree = MKTree<MKTreeStoreInMemory>;

#[derive(Serialize, Deserialize, Clone, PartialEq, Eq, Debug)]
pub struct NodeM {
    pub hash: Vec<u8>,
}

#[derive(Serialize, Deserialize, Clone, PartialEq, Eq, Debug)]
pub struct ProofM {
    pub inner_root: NodeM,
    pub inner_leaves: Vec<(u64, NodeM)>,
    pub inner_proof_size: u64,
    pub inner_proof_items: Vec<NodeM>,
}

pub fn bincode_encode<T: Serialize>(v: &T) -> Vec<u8> {
    bincode::serde::encode_to_vec(v, bincode::config::standard()).expect("bincode encode of a mirror struct")
}
pub fn bincode_decode<T: for<'a> Deserialize<'a>>(b: &[u8]) -> Result<T, String> {
    bincode::serde::decode_from_slice::<T, _>(b, bincode::config::standard()).map(|x| x.0).map_err(|e| e.to_string())
}

impl ProofM {
    pub fn of(p: &MKProof) -> Result<ProofM, String> {
        let b = p.to_bytes().map_err(|e| e.to_string())?;
        bincode_decode(&b)
    }
    pub fn encode(&self) -> Vec<u8> {
        bincode_encode(self)
    }
    pub fn to_real(&self) -> Result<MKProof, String> {
        MKProof::from_bytes(&self.encode()).map_err(|e| e.to_string())
    }
    pub fn to_json(&self) -> Value {
        json!({
            "root": hex::encode(&self.inner_root.hash),
            "leaves": self.inner_leaves.iter().map(|(p, l)| json!([p, hex::encode(&l.hash)])).collect::<Vec<_>>(),
            "mmr_size": self.inner_proof_size,
            "items": self.inner_proof_items.iter().map(|i| hex::encode(&i.hash)).collect::<Vec<_>>(),
        })
    }
    pub fn from_json(v: &Value) -> Option<ProofM> {
        let hx = |x: &Value| hex::decode(x.as_str()?).ok();
        Some(ProofM {
            inner_root: NodeM { hash: hx(&v["root"])? },
            inner_leaves: v["leaves"]
                .as_array()?
                .iter()
                .map(|e| Some((e[0].as_u64()?, NodeM { hash: hx(&e[1])? })))
                .collect::<Option<Vec<_>>>()?,
            inner_proof_size: v["mmr_size"].as_u64()?,
            inner_proof_items: v["items"].as_array()?.iter().map(|e| Some(NodeM { hash: hx(e)? })).collect::<Option<Vec<_>>>()?,
        })
    }
}

pub struct TreeCtx {
    pub label: String,
    pub leaves: Vec<Bytes>,
    pub mmr: RefMmr,
    pub root: Bytes,
    pub pos_index: HashMap<u64, usize>,
    pub foreign: Vec<Bytes>,
    pub foreign_root: Bytes,
}

impl TreeCtx {
    pub fn new(label: &str, leaves: Vec<Bytes>, foreign: Vec<Bytes>) -> TreeCtx {
        let mmr = RefMmr::new(&leaves);
        let root = mmr.root().unwrap_or_default();
        let pos_index = mmr.pos_index();
        let foreign_root = RefMmr::new(&foreign).root().unwrap_or_else(|| b"foreign-root".to_vec());
        TreeCtx { label: label.to_string(), leaves, mmr, root, pos_index, foreign, foreign_root }
    }
    pub fn n(&self) -> usize {
        self.leaves.len()
    }
    pub fn claim_true(&self, pos: u64, leaf: &[u8]) -> bool {
        match self.pos_index.get(&pos) {
            Some(i) => self.leaves[*i] == leaf,
            None => false,
        }
    }
    pub fn false_claims(&self, m: &ProofM) -> Vec<(u64, Bytes)> {
        m.inner_leaves.iter().filter(|(p, l)| !self.claim_true(*p, &l.hash)).map(|(p, l)| (*p, l.hash.clone())).collect()
    }
    pub fn build_real(&self) -> Result<Tree, String> {
        let nodes: Vec<MKTreeNode> = self.leaves.iter().map(|l| MKTreeNode::new(l.clone())).collect();
        Tree::new(&nodes).map_err(|e| e.to_string())
    }
    pub fn to_json(&self) -> Value {
        json!({"label": self.label, "committed_leaves_hex": self.leaves.iter().map(hex::encode).collect::<Vec<_>>(),
               "foreign_leaves_hex": self.foreign.iter().map(hex::encode).collect::<Vec<_>>()})
    }
}

#[derive(Clone, Debug)]
pub enum Src {
    Committed(usize),
    Foreign(usize),
    Parent,
    Root,
    Sibling,
}

#[derive(Clone, Debug)]
pub enum Op {
    LeafTo { j: usize, src: Src },
    LeafFlip { j: usize },
    LeafTrunc { j: usize },
    LeafExtend { j: usize },
    SetPos { j: usize, p: u64 },
    SwapLeaves { j: usize },
    /// duplicate entry j; `src` None = exact copy, Some = same position with another leaf;
    /// place 0 = right after, 1 = right before, 2 = at the end of the list
    DupEntry { j: usize, src: Option<Src>, place: u8 },
    ExtraEntry { t: usize, src: Src },
    DropEntry { j: usize },
    ReverseEntries,
    Size(u64),
    ItemFlip { v: usize },
    ItemDrop { v: usize },
    ItemDup { v: usize },
    ItemSwap { v: usize },
    ItemAppend { kind: u8 },
    ItemsClear,
    RootFlip,
    RootForeign,
    NoLeaves,
    NoLeavesItemsRoot,
}

impl Op {
    pub fn class(&self) -> String {
        let src = |s: &Src| match s {
            Src::Committed(_) => "other_committed_leaf",
            Src::Foreign(_) => "foreign_leaf",
            Src::Parent => "parent_node",
            Src::Root => "root_node",
            Src::Sibling => "sibling_node",
        };
        match self {
            Op::LeafTo { src: s, .. } => format!("leaf_replaced_by_{}", src(s)),
            Op::LeafFlip { .. } => "leaf_bitflip".into(),
            Op::LeafTrunc { .. } => "leaf_truncated".into(),
            Op::LeafExtend { .. } => "leaf_extended".into(),
            Op::SetPos { .. } => "position_changed".into(),
            Op::SwapLeaves { .. } => "leaves_swapped_between_positions".into(),
            Op::DupEntry { src: None, .. } => "entry_duplicated".into(),
            Op::DupEntry { src: Some(s), place, .. } => format!(
                "duplicate_position_with_{}_{}",
                src(s),
                match place {
                    0 => "after",
                    1 => "before",
                    _ => "at_end",
                }
            ),
            Op::ExtraEntry { src: s, .. } => format!("extra_entry_with_{}", src(s)),
            Op::DropEntry { .. } => "entry_dropped".into(),
            Op::ReverseEntries => "entries_reversed".into(),
            Op::Size(_) => "mmr_size_changed".into(),
            Op::ItemFlip { .. } => "item_bitflip".into(),
            Op::ItemDrop { .. } => "item_dropped".into(),
            Op::ItemDup { .. } => "item_duplicated".into(),
            Op::ItemSwap { .. } => "items_swapped".into(),
            Op::ItemAppend { .. } => "item_appended".into(),
            Op::ItemsClear => "items_cleared".into(),
            Op::RootFlip => "root_bitflip".into(),
            Op::RootForeign => "root_of_foreign_tree".into(),
            Op::NoLeaves => "no_leaves".into(),
            Op::NoLeavesItemsRoot => "no_leaves_items_is_root".into(),
        }
    }
}

fn resolve(src: &Src, pos: u64, ctx: &TreeCtx) -> Option<Bytes> {
    match src {
        Src::Committed(t) => ctx.leaves.get(*t).cloned(),
        Src::Foreign(u) => ctx.foreign.get(*u % ctx.foreign.len().max(1)).cloned(),
        Src::Root => Some(ctx.root.clone()),
        Src::Parent => {
            let p = ctx.mmr.parent.get(pos as usize).copied().flatten()?;
            Some(ctx.mmr.nodes[p].1.clone())
        }
        Src::Sibling => {
            let s = ctx.mmr.sibling(usize::try_from(pos).ok().filter(|p| *p < ctx.mmr.nodes.len())?)?;
            Some(ctx.mmr.nodes[s].1.clone())
        }
    }
}

pub fn apply(m: &ProofM, op: &Op, ctx: &TreeCtx) -> Option<ProofM> {
    let mut o = m.clone();
    let k = o.inner_leaves.len();
    match op {
        Op::LeafTo { j, src } => {
            let e = o.inner_leaves.get_mut(*j)?;
            let v = resolve(src, e.0, ctx)?;
            if v == e.1.hash {
                return None;
            }
            e.1.hash = v;
        }
        Op::LeafFlip { j } => {
            let e = o.inner_leaves.get_mut(*j)?;
            *e.1.hash.first_mut()? ^= 1;
        }
        Op::LeafTrunc { j } => {
            let e = o.inner_leaves.get_mut(*j)?;
            e.1.hash.pop()?;
        }
        Op::LeafExtend { j } => {
            let e = o.inner_leaves.get_mut(*j)?;
            e.1.hash.push(0);
        }
        Op::SetPos { j, p } => {
            let e = o.inner_leaves.get_mut(*j)?;
            if e.0 == *p {
                return None;
            }
            e.0 = *p;
        }
        Op::SwapLeaves { j } => {
            if *j + 1 >= k {
                return None;
            }
            let a = o.inner_leaves[*j].1.clone();
            let b = o.inner_leaves[*j + 1].1.clone();
            if a == b {
                return None;
            }
            o.inner_leaves[*j].1 = b;
            o.inner_leaves[*j + 1].1 = a;
        }
        Op::DupEntry { j, src, place } => {
            let e = o.inner_leaves.get(*j)?.clone();
            let new = match src {
                None => e.clone(),
                Some(s) => {
                    let v = resolve(s, e.0, ctx)?;
                    if v == e.1.hash {
                        return None;
                    }
                    (e.0, NodeM { hash: v })
                }
            };
            match place {
                0 => o.inner_leaves.insert(*j + 1, new),
                1 => o.inner_leaves.insert(*j, new),
                _ => o.inner_leaves.push(new),
            }
        }
        Op::ExtraEntry { t, src } => {
            let pos = *ctx.mmr.leaf_pos.get(*t)?;
            if o.inner_leaves.iter().any(|(p, _)| *p == pos) {
                return None;
            }
            let v = resolve(src, pos, ctx)?;
            let at = o.inner_leaves.iter().position(|(p, _)| *p > pos).unwrap_or(k);
            o.inner_leaves.insert(at, (pos, NodeM { hash: v }));
        }
        Op::DropEntry { j } => {
            if *j >= k {
                return None;
            }
            o.inner_leaves.remove(*j);
        }
        Op::ReverseEntries => {
            if k < 2 {
                return None;
            }
            o.inner_leaves.reverse();
        }
        Op::Size(s) => {
            if o.inner_proof_size == *s {
                return None;
            }
            o.inner_proof_size = *s;
        }
        Op::ItemFlip { v } => {
            let it = o.inner_proof_items.get_mut(*v)?;
            *it.hash.last_mut()? ^= 0x80;
        }
        Op::ItemDrop { v } => {
            if *v >= o.inner_proof_items.len() {
                return None;
            }
            o.inner_proof_items.remove(*v);
        }
        Op::ItemDup { v } => {
            let it = o.inner_proof_items.get(*v)?.clone();
            o.inner_proof_items.insert(*v, it);
        }
        Op::ItemSwap { v } => {
            if *v + 1 >= o.inner_proof_items.len() || o.inner_proof_items[*v] == o.inner_proof_items[*v + 1] {
                return None;
            }
            o.inner_proof_items.swap(*v, *v + 1);
        }
        Op::ItemAppend { kind } => {
            let v = match kind {
                0 => ctx.foreign_root.clone(),
                1 => ctx.root.clone(),
                _ => ctx.foreign.first().cloned()?,
            };
            o.inner_proof_items.push(NodeM { hash: v });
        }
        Op::ItemsClear => {
            if o.inner_proof_items.is_empty() {
                return None;
            }
            o.inner_proof_items.clear();
        }
        Op::RootFlip => {
            *o.inner_root.hash.first_mut()? ^= 1;
        }
        Op::RootForeign => {
            o.inner_root.hash = ctx.foreign_root.clone();
        }
        Op::NoLeaves => {
            o.inner_leaves.clear();
        }
        Op::NoLeavesItemsRoot => {
            o.inner_leaves.clear();
            o.inner_proof_items = vec![NodeM { hash: o.inner_root.hash.clone() }];
        }
    }
    Some(o)
}

/// all single mutations of `m` (complete for small trees; sampled targets for big ones)
pub fn enumerate_ops(m: &ProofM, ctx: &TreeCtx, exhaustive: bool, rng: &mut ChaCha20Rng) -> Vec<Op> {
    let mut ops = vec![];
    let n = ctx.n();
    let k = m.inner_leaves.len();
    let size = ctx.mmr.size();
    let selected: Vec<usize> = m.inner_leaves.iter().filter_map(|(p, _)| ctx.pos_index.get(p).copied()).collect();
    let unselected: Vec<usize> = (0..n).filter(|i| !selected.contains(i)).collect();
    for j in 0..k {
        let own = ctx.pos_index.get(&m.inner_leaves[j].0).copied();
        if exhaustive {
            for t in 0..n {
                if Some(t) != own {
                    ops.push(Op::LeafTo { j, src: Src::Committed(t) });
                }
            }
            for p in 0..size + 2 {
                ops.push(Op::SetPos { j, p });
            }
        } else {
            for _ in 0..4 {
                ops.push(Op::LeafTo { j, src: Src::Committed(rnd::usize_below(rng, n)) });
                ops.push(Op::SetPos { j, p: rnd::below(rng, size + 2) });
            }
            let p = m.inner_leaves[j].0;
            for q in [p.wrapping_sub(1), p + 1, p + 2, size - 1, size] {
                ops.push(Op::SetPos { j, p: q });
            }
            if let Some(par) = ctx.mmr.parent.get(p as usize).copied().flatten() {
                ops.push(Op::SetPos { j, p: par as u64 });
            }
        }
        ops.push(Op::SetPos { j, p: u64::MAX });
        ops.push(Op::SetPos { j, p: u64::MAX - 1 });
        for src in [Src::Foreign(0), Src::Foreign(1), Src::Parent, Src::Root, Src::Sibling] {
            ops.push(Op::LeafTo { j, src });
        }
        ops.push(Op::LeafFlip { j });
        ops.push(Op::LeafTrunc { j });
        ops.push(Op::LeafExtend { j });
        ops.push(Op::SwapLeaves { j });
        ops.push(Op::DupEntry { j, src: None, place: 0 });
        let other = unselected.first().copied().or_else(|| (0..n).find(|t| Some(*t) != own));
        for place in 0..3u8 {
            ops.push(Op::DupEntry { j, src: Some(Src::Foreign(0)), place });
            if let Some(t) = other {
                ops.push(Op::DupEntry { j, src: Some(Src::Committed(t)), place });
            }
            ops.push(Op::DupEntry { j, src: Some(Src::Parent), place });
        }
        ops.push(Op::DropEntry { j });
    }
    let extra: Vec<usize> = if exhaustive {
        unselected.clone()
    } else {
        (0..4).filter_map(|_| if unselected.is_empty() { None } else { Some(*rnd::pick(rng, &unselected)) }).collect()
    };
    for t in extra {
        ops.push(Op::ExtraEntry { t, src: Src::Committed(t) });
        ops.push(Op::ExtraEntry { t, src: Src::Foreign(0) });
    }
    ops.push(Op::ReverseEntries);
    let nn = n as u64;
    for s in [
        0,
        1,
        size.wrapping_sub(1),
        size + 1,
        size.wrapping_sub(2),
        size + 2,
        refs::mmr_size_formula(nn.saturating_sub(1)),
        refs::mmr_size_formula(nn + 1),
        refs::mmr_size_formula(2 * nn),
        refs::mmr_size_formula(nn / 2),
        refs::mmr_size_formula(nn.next_power_of_two()),
        u64::MAX,
        1 << 40,
    ] {
        ops.push(Op::Size(s));
    }
    for v in 0..m.inner_proof_items.len() {
        ops.push(Op::ItemFlip { v });
        ops.push(Op::ItemDrop { v });
        ops.push(Op::ItemDup { v });
        ops.push(Op::ItemSwap { v });
    }
    for kind in 0..3 {
        ops.push(Op::ItemAppend { kind });
    }
    ops.push(Op::ItemsClear);
    ops.push(Op::RootFlip);
    ops.push(Op::RootForeign);
    ops.push(Op::NoLeaves);
    ops.push(Op::NoLeavesItemsRoot);
    ops
}

/// Shape of an accepted false claim - names the witness class independently of the mutator that
/// produced it (used in violation signatures).
pub fn witness_shape(ctx: &TreeCtx, m: &ProofM) -> &'static str {
    let false_claims = ctx.false_claims(m);
    // entries the MMR verification really uses: stable sort by position, first entry per position
    let mut order: Vec<usize> = (0..m.inner_leaves.len()).collect();
    order.sort_by_key(|i| m.inner_leaves[*i].0);
    let mut used = vec![false; m.inner_leaves.len()];
    let mut last: Option<u64> = None;
    for i in order {
        if last != Some(m.inner_leaves[i].0) {
            used[i] = true;
            last = Some(m.inner_leaves[i].0);
        }
    }
    // an unused entry that is an identical copy (same position, same bytes) of the used entry at
    // its position is vouched for by that entry's verification: it adds no cause of its own
    let copy_of_used = |i: usize| {
        let (p, l) = &m.inner_leaves[i];
        m.inner_leaves.iter().enumerate().any(|(j, (q, k))| used[j] && q == p && k.hash == l.hash)
    };
    let unused_false = m
        .inner_leaves
        .iter()
        .enumerate()
        .any(|(i, (p, l))| !used[i] && !copy_of_used(i) && !ctx.claim_true(*p, &l.hash));
    // do the entries verification uses hash to the committed root under the reference evaluation?
    let entries: Vec<(u64, Bytes)> = m.inner_leaves.iter().map(|(p, l)| (*p, l.hash.clone())).collect();
    let items: Vec<Bytes> = m.inner_proof_items.iter().map(|i| i.hash.clone()).collect();
    if refs::mmr_eval(m.inner_proof_size, &entries, &items).as_deref() != Some(&ctx.root[..]) {
        return "the listed entries do not hash to the committed root under the reference MMR evaluation (verification defect)";
    }
    if unused_false {
        return "entry with a duplicated position is skipped by verification but still listed";
    }
    if m.inner_proof_size != ctx.mmr.size() {
        return "mmr_size is not bound to the root (inner nodes or the root presented as leaves of a smaller tree)";
    }
    let shifted = false_claims.iter().all(|(p, l)| match ctx.pos_index.get(p) {
        Some(i) => {
            let c = &ctx.leaves[*i];
            c.starts_with(l) || l.starts_with(c) || c.ends_with(l) || l.ends_with(c)
        }
        None => false,
    });
    if shifted {
        return "bytes moved across the boundary of sibling leaves (leaves are concatenated unhashed, without length)";
    }
    if false_claims.iter().all(|(_, l)| ctx.mmr.nodes.iter().any(|(_, v)| v == l)) {
        // e.g. the leaf of the last, single-leaf peak presented at the left position of the
        // neighbouring peak, or that neighbouring peak presented as the right leaf next to it:
        // bagging H(right peak || left peak) equals an inner merge H(left || right)
        return "peak bagging H(right||left) is indistinguishable from an inner merge (a committed leaf or a peak node accepted at a wrong position)";
    }
    "other"
}

#[derive(Clone, Copy, PartialEq, Eq, Debug)]
pub enum Verdict {
    Undecodable,
    Rejected,
    Panicked,
    OtherRoot,
    Accepted,
}

pub fn real_verdict(p: &MKProof, committed_root: &[u8], mon: &mut Monitor, tag: &str) -> Verdict {
    match catch(|| p.verify()) {
        Ok(Ok(())) => {
            if p.root().as_slice() == committed_root {
                Verdict::Accepted
            } else {
                Verdict::OtherRoot
            }
        }
        Ok(Err(_)) => Verdict::Rejected,
        Err(pn) => {
            mon.count(&format!("verifier_panic@{}", vcore::panic_location(&pn)));
            let _ = tag;
            Verdict::Panicked
        }
    }
}

/// Judge one candidate proof against the committed tree. `class` names the mutation class (goes into
/// the violation signature), `detail` the concrete mutator (goes into counters / replay).
pub fn judge(ctx: &TreeCtx, m: &ProofM, class: &str, mon: &mut Monitor) -> Verdict {
    mon.eval();
    let cc = crate::viol::counter_class(class);
    mon.count(&format!("b:mutator:{cc}"));
    let bytes = m.encode();
    let p = match catch(|| MKProof::from_bytes(&bytes)) {
        Ok(Ok(p)) => p,
        Ok(Err(_)) => {
            mon.count("b:undecodable");
            return Verdict::Undecodable;
        }
        Err(pn) => {
            mon.count(&format!("decoder_panic@{}", vcore::panic_location(&pn)));
            return Verdict::Undecodable;
        }
    };
    let v = real_verdict(&p, &ctx.root, mon, "b");
    mon.count(&format!("b:outcome:{v:?}"));
    let false_claims = ctx.false_claims(m);
    if !false_claims.is_empty() {
        let mut key = Vec::with_capacity(bytes.len() + 64);
        key.extend_from_slice(b"b|");
        key.extend_from_slice(ctx.label.as_bytes());
        key.extend_from_slice(&ctx.root);
        key.extend_from_slice(&bytes);
        mon.nontrivial(&key);
    }
    if v == Verdict::Accepted {
        // what the real object exposes must be what the mirror says
        let exposed: Vec<Bytes> = p.leaves().iter().map(|l| l.to_vec()).collect();
        let mirrored: Vec<Bytes> = m.inner_leaves.iter().map(|(_, l)| l.hash.clone()).collect();
        if exposed != mirrored {
            mon.inconclusive("mirror struct and decoded MKProof disagree on the leaf list (harness error)");
        }
        if false_claims.is_empty() {
            if class != "identity" {
                mon.count("b:verifies_but_claims_true");
                mon.count(&format!("b:verifies_but_claims_true:{cc}"));
            }
        } else {
            let (pos, leaf) = &false_claims[0];
            let vouched = p.contains(&[MKTreeNode::new(leaf.clone())]).is_ok();
            let shape = witness_shape(ctx, m);
            if shape == "other" && std::env::var("VERIF_DEBUG").is_ok() {
                eprintln!("OTHER-SHAPE class={class} n={} size={} proof={} false={:?}", ctx.n(), ctx.mmr.size(), m.to_json(), false_claims.iter().map(|(p, l)| (p, hex::encode(l))).collect::<Vec<_>>());
            }
            crate::viol::report(mon, &format!("C09 verified Merkle proof vouches for a non-committed entry: {shape}"), || format!(
                    "[MKProof] MKProof::verify = Ok and root() equals the committed root of {} leaves, yet the proof lists (position {pos}, leaf 0x{}) which is not the committed leaf at that position (MKProof::contains on that leaf = {}); mutation class {class}",
                    ctx.n(),
                    hex::encode(leaf),
                    if vouched { "Ok" } else { "Err" }
                ), || json!({"kind": "mkproof", "tree": ctx.to_json(), "proof": m.to_json(), "class": class, "witness_shape": shape,
                       "false_claims": false_claims.iter().map(|(p, l)| json!([p, hex::encode(l)])).collect::<Vec<_>>()}));
        }
        // a listed leaf must not carry an unlisted one through a multi-leaf `contains`
        if let (Some(first), Some(f)) = (mirrored.first(), ctx.foreign.iter().find(|f| !mirrored.contains(f))) {
            if p.contains(&[MKTreeNode::new(first.clone()), MKTreeNode::new(f.clone())]).is_ok() {
                crate::viol::report(
                    mon,
                    "C09 MKProof::contains succeeds for a leaf list with an unlisted leaf after a listed one",
                    || format!("contains([listed, 0x{}]) = Ok", hex::encode(f)),
                    || json!({"kind": "mkproof", "tree": ctx.to_json(), "proof": m.to_json(), "class": class}),
                );
            }
        }
        // `contains` may only succeed for leaves the proof lists
        let mut pool: Vec<Bytes> = ctx.leaves.iter().take(24).cloned().collect();
        pool.extend(ctx.foreign.iter().take(2).cloned());
        pool.push(ctx.root.clone());
        for x in pool {
            let listed = mirrored.contains(&x);
            let ok = p.contains(&[MKTreeNode::new(x.clone())]).is_ok();
            if ok && !listed {
                crate::viol::report(mon, "C09 MKProof::contains succeeds for a leaf the verified proof does not list", || format!("contains(0x{}) = Ok although the proof does not cover that leaf", hex::encode(&x)), || json!({"kind": "mkproof", "tree": ctx.to_json(), "proof": m.to_json(), "class": class}));
            }
            if !ok && listed {
                mon.count("b:contains_err_on_listed_leaf");
            }
        }
    }
    v
}

/// honest proof for the leaf indices `sel`: completeness + agreement of the generated proof with the
/// reference tree; returns the mirror
pub fn honest(ctx: &TreeCtx, tree: &Tree, sel: &[usize], mon: &mut Monitor) -> Option<ProofM> {
    let nodes: Vec<MKTreeNode> = sel.iter().map(|i| MKTreeNode::new(ctx.leaves[*i].clone())).collect();
    let proof = match catch(|| tree.compute_proof(&nodes)) {
        Ok(Ok(p)) => p,
        Ok(Err(e)) => {
            crate::viol::report(mon, "C09 MKTree::compute_proof fails for committed leaves", || format!("compute_proof error: {e}"), || json!({"kind": "mkproof-gen", "tree": ctx.to_json(), "selection": sel}));
            return None;
        }
        Err(p) => {
            crate::viol::report(mon, "C09 MKTree::compute_proof panics for committed leaves", || p.to_string(), || json!({"kind": "mkproof-gen", "tree": ctx.to_json(), "selection": sel}));
            return None;
        }
    };
    mon.count("b:honest_proofs");
    let m = match ProofM::of(&proof) {
        Ok(m) => m,
        Err(e) => {
            mon.inconclusive(&format!("cannot mirror an honest MKProof: {e}"));
            return None;
        }
    };
    // generation agrees with the reference tree
    let mut expect: Vec<(u64, Bytes)> = sel.iter().map(|i| (ctx.mmr.leaf_pos[*i], ctx.leaves[*i].clone())).collect();
    let mut got: Vec<(u64, Bytes)> = m.inner_leaves.iter().map(|(p, l)| (*p, l.hash.clone())).collect();
    expect.sort();
    got.sort();
    if m.inner_root.hash != ctx.root || got != expect || m.inner_proof_size != ctx.mmr.size() {
        crate::viol::report(mon, "C09 generated MKProof disagrees with the reference MMR (root / positions / size)", || format!(
                "root equal: {}, entries equal: {}, mmr_size {} vs reference {}",
                m.inner_root.hash == ctx.root,
                got == expect,
                m.inner_proof_size,
                ctx.mmr.size()
            ), || json!({"kind": "mkproof-gen", "tree": ctx.to_json(), "selection": sel, "proof": m.to_json()}));
    }
    // completeness
    mon.eval();
    match catch(|| proof.verify()) {
        Ok(Ok(())) => {}
        other => {
            crate::viol::report(mon, "C09 honest MKProof rejected", || format!("verify on a freshly generated proof: {other:?}"), || json!({"kind": "mkproof", "tree": ctx.to_json(), "proof": m.to_json(), "class": "identity"}));
        }
    }
    if proof.contains(&nodes).is_err() {
        crate::viol::report(mon, "C09 honest MKProof does not contain its own leaves", || "contains(selected leaves) = Err".to_string(), || json!({"kind": "mkproof", "tree": ctx.to_json(), "proof": m.to_json(), "class": "identity"}));
    }
    Some(m)
}

/// Leaf lists different from the committed one that have the SAME root under the reference MMR
/// ("alternative pre-images" that need no hash collision): the root alone as a 1-leaf tree, the
/// forest cut at height h (inner nodes presented as leaves under a smaller mmr_size), and a byte
/// moved across the boundary of two sibling leaves. Only lists whose reference root really equals
/// the committed root are returned.
pub fn alt_leaf_lists(ctx: &TreeCtx, rng: &mut ChaCha20Rng, max_shift_pairs: usize) -> Vec<(String, Vec<Bytes>, Vec<usize>)> {
    let mut out = vec![];
    let n = ctx.n();
    let same_root = |l: &[Bytes]| RefMmr::new(l).root().as_deref() == Some(&ctx.root[..]);
    if n >= 2 {
        out.push(("alt_preimage:root_as_single_leaf".to_string(), vec![ctx.root.clone()], vec![0]));
    }
    let max_h = ctx.mmr.peaks.iter().map(|p| p.0).max().unwrap_or(0);
    for h in 1..=max_h {
        let f = ctx.mmr.frontier(h);
        if f != ctx.leaves && same_root(&f) {
            let focus = vec![0, f.len() - 1];
            out.push(("alt_preimage:inner_nodes_as_leaves_with_smaller_mmr_size".to_string(), f, focus));
        }
    }
    let mut pairs: Vec<usize> = (0..n / 2).map(|t| 2 * t).collect();
    rnd::shuffle(rng, &mut pairs);
    for j in pairs.into_iter().take(max_shift_pairs) {
        // leaves j and j+1 are siblings (j even, j+1 < n)
        if ctx.leaves[j].len() >= 2 {
            let mut l = ctx.leaves.clone();
            let b = l[j].pop().unwrap();
            l[j + 1].insert(0, b);
            if same_root(&l) && l[j] != ctx.leaves[j] {
                out.push(("alt_preimage:byte_moved_from_left_leaf_to_right_sibling".to_string(), l, vec![j, j + 1]));
            }
        }
        if ctx.leaves[j + 1].len() >= 2 {
            let mut l = ctx.leaves.clone();
            let b = l[j + 1].remove(0);
            l[j].push(b);
            if same_root(&l) {
                out.push(("alt_preimage:byte_moved_from_right_leaf_to_left_sibling".to_string(), l, vec![j, j + 1]));
            }
        }
    }
    out
}

/// honest proofs of the alternative pre-image trees, judged against the committed tree
pub fn run_alt_preimages(ctx: &TreeCtx, rng: &mut ChaCha20Rng, max_shift_pairs: usize, mon: &mut Monitor) {
    for (class, alt, focus) in alt_leaf_lists(ctx, rng, max_shift_pairs) {
        let nodes: Vec<MKTreeNode> = alt.iter().map(|l| MKTreeNode::new(l.clone())).collect();
        let Ok(Ok(t)) = catch(|| Tree::new(&nodes)) else {
            mon.count("b:alt_tree_build_failed");
            continue;
        };
        let mut sels: Vec<Vec<usize>> = focus.iter().map(|i| vec![*i]).collect();
        sels.push(focus.clone());
        if alt.len() <= 8 {
            sels.push((0..alt.len()).collect());
        }
        sels.dedup();
        for sel in sels {
            let mut sel = sel.clone();
            sel.sort();
            sel.dedup();
            let sn: Vec<MKTreeNode> = sel.iter().map(|i| nodes[*i].clone()).collect();
            let Ok(Ok(p)) = catch(|| t.compute_proof(&sn)) else {
                mon.count("b:alt_proof_failed");
                continue;
            };
            let Ok(m) = ProofM::of(&p) else { continue };
            judge(ctx, &m, &class, mon);
        }
    }
}

pub fn gen_leaves(rng: &mut ChaCha20Rng, n: usize, style: u64, tag: &str) -> Vec<Bytes> {
    (0..n)
        .map(|i| match style % 4 {
            // transaction-like leaf identifiers, the shape certified in production
            0 => format!(
                "Tx/{}/{}/{}/{}",
                hex::encode(rnd::bytes(rng, 8)),
                hex::encode(rnd::bytes(rng, 8)),
                100 + i,
                1000 + 20 * i as u64 + rnd::below(rng, 20)
            )
            .into_bytes(),
            // 32-byte digests (roots of sub-trees, master leaves)
            1 => {
                let mut b = rnd::bytes(rng, 32);
                b[0] = i as u8;
                b[1] = (i >> 8) as u8;
                b
            }
            // short ascii
            2 => format!("{tag}-{i}").into_bytes(),
            // variable length binary, including 1-byte leaves
            _ => {
                let len = 1 + rnd::usize_below(rng, 40);
                let mut b = rnd::bytes(rng, len);
                b.extend_from_slice(&(i as u32).to_be_bytes());
                b.extend_from_slice(tag.as_bytes());
                b
            }
        })
        .collect()
}

/// everything for one (tree, selection): honest proof, all single mutations, sampled pairs
pub fn run_selection(ctx: &TreeCtx, tree: &Tree, sel: &[usize], exhaustive: bool, pairs: usize, rng: &mut ChaCha20Rng, mon: &mut Monitor) {
    let Some(m) = honest(ctx, tree, sel, mon) else { return };
    if judge(ctx, &m, "identity", mon) != Verdict::Accepted {
        crate::viol::report(mon, "C09 honest MKProof rejected after the bincode round trip", || "from_bytes(to_bytes(proof)).verify() is not Ok or its root differs from the reference root".to_string(), || json!({"kind": "mkproof", "tree": ctx.to_json(), "proof": m.to_json(), "class": "identity"}));
    }
    if mon.wants_sample() && sel.len() >= 2 && ctx.n() >= 5 {
        mon.sample(json!({"part": "b", "tree_leaves": ctx.n(), "selection": sel, "honest_proof": m.to_json(),
            "example_mutation_classes": ["position_changed", "duplicate_position_with_foreign_leaf_after", "alt_preimage:inner_nodes_as_leaves_with_smaller_mmr_size"]}));
    }
    let ops = enumerate_ops(&m, ctx, exhaustive, rng);
    for op in &ops {
        if let Some(c) = apply(&m, op, ctx) {
            judge(ctx, &c, &op.class(), mon);
        }
    }
    for _ in 0..pairs {
        let a = rnd::pick(rng, &ops);
        let b = rnd::pick(rng, &ops);
        if let Some(c) = apply(&m, a, ctx).and_then(|c| apply(&c, b, ctx)) {
            judge(ctx, &c, &format!("pair:{}+{}", a.class(), b.class()), mon);
        }
    }
    // JSON (serde) form of a sample: same verdict as the bincode form
    if rnd::chance(rng, 1, 8) {
        if let Some(op) = ops.get(rnd::usize_below(rng, ops.len())) {
            if let Some(c) = apply(&m, op, ctx) {
                let via_json: Result<MKProof, _> = serde_json::from_value(serde_json::to_value(&c).unwrap());
                if let (Ok(pj), Ok(pb)) = (via_json, c.to_real()) {
                    let a = catch(|| pj.verify().is_ok()).unwrap_or(false);
                    let b = catch(|| pb.verify().is_ok()).unwrap_or(false);
                    mon.count(if a == b { "b:json_form_agrees" } else { "b:json_form_DISAGREES" });
                }
            }
        }
    }
}
