//! C09 (c): nested `MKMap<BlockRange, MKMapNode<..>>` / `MKMapProof`.
//!
//! The committed root is recomputed by the reference of refs.rs: per range the MMR root of its raw
//! leaves, master leaf = Blake2s256("start-end" || range root), map root = MMR root of the master
//! leaves (recursively for maps of maps). A candidate is accepted when the real
//! `MKMapProof::verify()` is Ok and `compute_root()` equals that reference root. Its claims are all
//! the (position, leaf) entries of the master proof and of every sub-proof (that is what
//! `MKMapProof::contains` answers from); each must be true in the committed structure under the key
//! path it is filed under.
use crate::mk::{self, bincode_encode, NodeM, Op, ProofM, TreeCtx, Verdict};
use crate::refs::{self, Bytes};
use mithril_merkle_tree::{MKMap, MKMapNode, MKMapProof, MKTreeNode, MKTreeStoreInMemory};
use rand_chacha::ChaCha20Rng;
use serde::{Deserialize, Serialize};
use serde_json::{json, Value};
use vcore::{catch, rnd, Monitor};

#[cfg(feature = "full")]
pub type Key = mithril_common::entities::BlockRange;
#[cfg(not(feature = "full"))]
pub type Key = local::BlockRange;

#[cfg(not(feature = "full"))]
pub mod local {
    //! stand-in for mithril-common's BlockRange when the crate is built without blst (Miri mode):
    //! same serde shape, same `Into<MKTreeNode>` ("start-end"), same ordering
    use mithril_merkle_tree::{MKMapKey, MKTreeNode};
    use serde::{Deserialize, Serialize};
    #[derive(Serialize, Deserialize, Clone, PartialEq, Eq, Hash, Debug)]
    pub struct BlockRange {
        inner_range: std::ops::Range<u64>,
    }
    impl From<std::ops::Range<u64>> for BlockRange {
        fn from(r: std::ops::Range<u64>) -> Self {
            BlockRange { inner_range: r }
        }
    }
    impl PartialOrd for BlockRange {
        fn partial_cmp(&self, o: &Self) -> Option<std::cmp::Ordering> {
            Some(self.cmp(o))
        }
    }
    impl Ord for BlockRange {
        fn cmp(&self, o: &Self) -> std::cmp::Ordering {
            (self.inner_range.start, self.inner_range.end).cmp(&(o.inner_range.start, o.inner_range.end))
        }
    }
    impl From<BlockRange> for MKTreeNode {
        fn from(k: BlockRange) -> Self {
            MKTreeNode::new(format!("{}-{}", k.inner_range.start, k.inner_range.end).into_bytes())
        }
    }
    impl MKMapKey for BlockRange {}
}

pub fn mk_key(s: u64, e: u64) -> Key {
    Key::from(s..e)
}

type S = MKTreeStoreInMemory;
pub type Node = MKMapNode<Key, S>;
pub type Map = MKMap<Key, Node, S>;

#[derive(Serialize, Deserialize, Clone, PartialEq, Eq, Debug)]
pub struct RangeM {
    pub start: u64,
    pub end: u64,
}
#[derive(Serialize, Deserialize, Clone, PartialEq, Eq, Debug)]
pub struct KeyM {
    pub inner_range: RangeM,
}
impl KeyM {
    pub fn new(s: u64, e: u64) -> KeyM {
        KeyM { inner_range: RangeM { start: s, end: e } }
    }
    pub fn pair(&self) -> (u64, u64) {
        (self.inner_range.start, self.inner_range.end)
    }
}
#[derive(Serialize, Deserialize, Clone, PartialEq, Eq, Debug)]
pub struct MapProofM {
    pub master_proof: ProofM,
    pub sub_proofs: Vec<(KeyM, MapProofM)>,
}

impl MapProofM {
    pub fn of(p: &MKMapProof<Key>) -> Result<MapProofM, String> {
        mk::bincode_decode(&p.to_bytes().map_err(|e| e.to_string())?)
    }
    pub fn leaf_only(p: ProofM) -> MapProofM {
        MapProofM { master_proof: p, sub_proofs: vec![] }
    }
    pub fn root(&self) -> &Bytes {
        &self.master_proof.inner_root.hash
    }
    pub fn to_json(&self) -> Value {
        json!({"master": self.master_proof.to_json(),
               "subs": self.sub_proofs.iter().map(|(k, p)| json!([k.inner_range.start, k.inner_range.end, p.to_json()])).collect::<Vec<_>>()})
    }
    pub fn from_json(v: &Value) -> Option<MapProofM> {
        Some(MapProofM {
            master_proof: ProofM::from_json(&v["master"])?,
            sub_proofs: v["subs"]
                .as_array()?
                .iter()
                .map(|e| Some((KeyM::new(e[0].as_u64()?, e[1].as_u64()?), MapProofM::from_json(&e[2])?)))
                .collect::<Option<Vec<_>>>()?,
        })
    }
    /// every node listed as a leaf anywhere in the proof (what `contains` can answer from)
    pub fn all_listed(&self, out: &mut Vec<Bytes>) {
        out.extend(self.master_proof.inner_leaves.iter().map(|(_, l)| l.hash.clone()));
        for (_, s) in &self.sub_proofs {
            s.all_listed(out);
        }
    }
    /// mirror of `MKMapProof::leaves`
    pub fn leaves_like_real(&self) -> Vec<Bytes> {
        if self.sub_proofs.is_empty() {
            self.master_proof.inner_leaves.iter().map(|(_, l)| l.hash.clone()).collect()
        } else {
            self.sub_proofs.iter().flat_map(|(_, s)| s.leaves_like_real()).collect()
        }
    }
}

pub enum RefNode {
    Tree(TreeCtx),
    Map(MapCtx),
}

pub struct MapCtx {
    pub entries: Vec<((u64, u64), RefNode)>,
    /// reference tree over the master leaves H(key || value root)
    pub master: TreeCtx,
}

impl RefNode {
    pub fn root(&self) -> &Bytes {
        match self {
            RefNode::Tree(t) => &t.root,
            RefNode::Map(m) => &m.master.root,
        }
    }
    pub fn bottom_leaves(&self, out: &mut Vec<Bytes>) {
        match self {
            RefNode::Tree(t) => out.extend(t.leaves.iter().cloned()),
            RefNode::Map(m) => m.entries.iter().for_each(|(_, c)| c.bottom_leaves(out)),
        }
    }
    pub fn master_level_leaves(&self, out: &mut Vec<Bytes>) {
        if let RefNode::Map(m) = self {
            out.extend(m.master.leaves.iter().cloned());
            m.entries.iter().for_each(|(_, c)| c.master_level_leaves(out));
        }
    }
    pub fn build_real(&self) -> Result<Node, String> {
        match self {
            RefNode::Tree(t) => Ok(t.build_real()?.into()),
            RefNode::Map(m) => Ok(m.build_real()?.into()),
        }
    }
    pub fn to_json(&self) -> Value {
        match self {
            RefNode::Tree(t) => json!({"tree_leaves_hex": t.leaves.iter().map(hex::encode).collect::<Vec<_>>()}),
            RefNode::Map(m) => m.to_json(),
        }
    }
    pub fn from_json(v: &Value) -> Option<RefNode> {
        if let Some(l) = v.get("tree_leaves_hex") {
            let leaves = l.as_array()?.iter().map(|x| hex::decode(x.as_str()?).ok()).collect::<Option<Vec<_>>>()?;
            Some(RefNode::Tree(TreeCtx::new("replay", leaves, vec![b"foreign".to_vec()])))
        } else {
            let entries = v["map"]
                .as_array()?
                .iter()
                .map(|e| Some(((e[0].as_u64()?, e[1].as_u64()?), RefNode::from_json(&e[2])?)))
                .collect::<Option<Vec<_>>>()?;
            Some(RefNode::Map(MapCtx::new(entries)))
        }
    }
}

impl MapCtx {
    pub fn new(mut entries: Vec<((u64, u64), RefNode)>) -> MapCtx {
        entries.sort_by_key(|e| e.0);
        let master_leaves: Vec<Bytes> = entries.iter().map(|((s, e), c)| refs::map_leaf(&refs::key_bytes(*s, *e), c.root())).collect();
        let foreign = vec![refs::map_leaf(b"0-15", b"foreign-root"), refs::map_leaf(b"15-30", b"foreign-root-2")];
        MapCtx { entries, master: TreeCtx::new("master", master_leaves, foreign) }
    }
    pub fn find(&self, k: (u64, u64)) -> Option<(usize, &RefNode)> {
        self.entries.iter().position(|e| e.0 == k).map(|i| (i, &self.entries[i].1))
    }
    pub fn build_real(&self) -> Result<Map, String> {
        let mut v = vec![];
        for ((s, e), c) in &self.entries {
            v.push((mk_key(*s, *e), c.build_real()?));
        }
        Map::new(&v).map_err(|e| e.to_string())
    }
    pub fn to_json(&self) -> Value {
        json!({"map": self.entries.iter().map(|((s, e), c)| json!([s, e, c.to_json()])).collect::<Vec<_>>()})
    }
}

/// every listed entry of `p` as a false claim (used below a key that is not committed)
fn all_false(p: &MapProofM, path: &str, out: &mut Vec<String>, total: &mut usize) {
    for (pos, l) in &p.master_proof.inner_leaves {
        *total += 1;
        out.push(format!("{path}: (position {pos}, 0x{}) filed under a key path that is not committed", hex::encode(&l.hash)));
    }
    for (k, s) in &p.sub_proofs {
        all_false(s, &format!("{path}/{}-{}", k.inner_range.start, k.inner_range.end), out, total);
    }
}

/// the claims of `p` that are false in the committed structure `r`
pub fn false_claims(p: &MapProofM, r: &RefNode, path: &str, out: &mut Vec<String>, total: &mut usize) {
    let tree = match r {
        RefNode::Tree(t) => t,
        RefNode::Map(m) => &m.master,
    };
    for (pos, l) in &p.master_proof.inner_leaves {
        *total += 1;
        if !tree.claim_true(*pos, &l.hash) {
            out.push(format!(
                "{path}: (position {pos}, 0x{}) is not the committed {} at that position",
                hex::encode(&l.hash),
                if matches!(r, RefNode::Tree(_)) { "leaf" } else { "master leaf H(key||root)" }
            ));
        }
    }
    for (k, s) in &p.sub_proofs {
        let sub_path = format!("{path}/{}-{}", k.inner_range.start, k.inner_range.end);
        match r {
            RefNode::Map(m) => match m.find(k.pair()) {
                Some((_, child)) => false_claims(s, child, &sub_path, out, total),
                None => all_false(s, &sub_path, out, total),
            },
            RefNode::Tree(_) => all_false(s, &sub_path, out, total),
        }
    }
}

fn uncommitted_key_shape(k: &KeyM, s: &MapProofM, master: &TreeCtx) -> String {
    let (a, b) = k.pair();
    if master.leaves.contains(&refs::map_leaf(&refs::key_bytes(a, b), s.root())) {
        "sub-proof filed under a key that is not committed (key||root concatenated without separator)".to_string()
    } else {
        "sub-proof under a key that is not committed and not linked to any committed master leaf".to_string()
    }
}

/// shape of the first accepted false claim (for the violation signature)
fn witness_shape(p: &MapProofM, r: &RefNode, level: &str) -> Option<String> {
    let tree = match r {
        RefNode::Tree(t) => t,
        RefNode::Map(m) => &m.master,
    };
    if level != "master proof" && p.root() != r.root() {
        let (mut o, mut t) = (vec![], 0);
        false_claims(p, r, "", &mut o, &mut t);
        if !o.is_empty() {
            return Some("sub-proof whose root is not the committed root of its key (sub-proof not linked to the master proof)".to_string());
        }
    }
    if !tree.false_claims(&p.master_proof).is_empty() {
        let _ = level;
        return Some(mk::witness_shape(tree, &p.master_proof).to_string());
    }
    for (k, s) in &p.sub_proofs {
        match r {
            RefNode::Map(m) => match m.find(k.pair()) {
                Some((_, child)) => {
                    if let Some(x) = witness_shape(s, child, "sub-proof") {
                        return Some(x);
                    }
                }
                None => {
                    let (mut o, mut t) = (vec![], 0);
                    all_false(s, "", &mut o, &mut t);
                    if !o.is_empty() {
                        return Some(uncommitted_key_shape(k, s, &m.master));
                    }
                }
            },
            RefNode::Tree(_) => return Some("sub-proof below a plain tree".to_string()),
        }
    }
    None
}

pub struct MapWorld {
    pub top: MapCtx,
    pub real: Map,
    pub root: Bytes,
    pub bottom: Vec<Bytes>,
    pub master_level: Vec<Bytes>,
    /// a foreign (not committed) tree with a self-consistent proof, donor for detached sub-proofs
    pub foreign_sub: MapProofM,
    pub foreign_leaves: Vec<Bytes>,
}

impl MapWorld {
    pub fn new(top: MapCtx, foreign_leaves: Vec<Bytes>) -> Result<MapWorld, String> {
        let real = top.build_real()?;
        let root = top.master.root.clone();
        let top_node = RefNode::Map(top);
        let (mut bottom, mut master_level) = (vec![], vec![]);
        top_node.bottom_leaves(&mut bottom);
        top_node.master_level_leaves(&mut master_level);
        let RefNode::Map(top) = top_node else { unreachable!() };
        let fctx = TreeCtx::new("foreign", foreign_leaves.clone(), vec![b"x".to_vec()]);
        let ft = fctx.build_real()?;
        let sel: Vec<MKTreeNode> = foreign_leaves.iter().take(2).map(|l| MKTreeNode::new(l.clone())).collect();
        let fp = ft.compute_proof(&sel).map_err(|e| e.to_string())?;
        let foreign_sub = MapProofM::leaf_only(ProofM::of(&fp)?);
        Ok(MapWorld { top, real, root, bottom, master_level, foreign_sub, foreign_leaves })
    }
    pub fn to_json(&self) -> Value {
        self.top.to_json()
    }
}

#[derive(Clone, Debug)]
pub enum MapOp {
    SwapSubs { a: usize, b: usize },
    SubForeign { a: usize },
    SubForeignMasterLeafReplaced { a: usize },
    SubForeignMasterDup { a: usize, place: u8 },
    KeyEdit { a: usize, kind: u8 },
    KeyRootBoundaryShift { a: usize },
    SubSingleLeafRoot { a: usize },
    DropSub { a: usize },
    ClearSubs,
    DupSub { a: usize },
    DupSubForeign { a: usize },
    AddSubForeign { kind: u8 },
    EmptySubsMasterForeign,
    EmptySubsMasterIsSub { a: usize },
    Master(Op),
    Sub { a: usize, op: Op },
    /// third level (map -> map -> tree): the innermost sub-proof `b` of the nested sub-proof `a`
    InnerSubForeign { a: usize, b: usize },
    InnerSwapSubs { a: usize, b: usize, c: usize },
    InnerSub { a: usize, b: usize, op: Op },
}

impl MapOp {
    pub fn class(&self) -> String {
        match self {
            MapOp::SwapSubs { .. } => "sub_proofs_swapped_between_keys".into(),
            MapOp::SubForeign { .. } => "sub_proof_detached(foreign_tree_under_committed_key)".into(),
            MapOp::SubForeignMasterLeafReplaced { .. } => "sub_proof_foreign_and_master_leaf_replaced".into(),
            MapOp::SubForeignMasterDup { place, .. } => format!("sub_proof_foreign_and_master_duplicate_position_{place}"),
            MapOp::KeyEdit { kind, .. } => format!(
                "key_edited_{}",
                match kind {
                    0 => "start_plus_1",
                    1 => "end_plus_1",
                    2 => "to_other_committed_key",
                    _ => "to_uncommitted_key",
                }
            ),
            MapOp::KeyRootBoundaryShift { .. } => "key_digit_moved_into_single_leaf_sub_root".into(),
            MapOp::SubSingleLeafRoot { .. } => "sub_proof_is_range_root_as_single_leaf".into(),
            MapOp::DropSub { .. } => "sub_proof_dropped".into(),
            MapOp::ClearSubs => "sub_proofs_cleared".into(),
            MapOp::DupSub { .. } => "sub_proof_duplicated".into(),
            MapOp::DupSubForeign { .. } => "sub_proof_duplicated_with_foreign_tree".into(),
            MapOp::AddSubForeign { kind } => format!("sub_proof_added_foreign_under_{}", if *kind == 0 { "uncommitted_key" } else { "committed_unselected_key" }),
            MapOp::EmptySubsMasterForeign => "empty_sub_proofs_master_over_foreign_leaves".into(),
            MapOp::EmptySubsMasterIsSub { .. } => "empty_sub_proofs_master_is_a_sub_proof".into(),
            MapOp::Master(op) => format!("master:{}", op.class()),
            MapOp::Sub { op, .. } => format!("sub:{}", op.class()),
            MapOp::InnerSubForeign { .. } => "level3:innermost_sub_proof_detached(foreign_tree)".into(),
            MapOp::InnerSwapSubs { .. } => "level3:innermost_sub_proofs_swapped".into(),
            MapOp::InnerSub { op, .. } => format!("level3:innermost:{}", op.class()),
        }
    }
}

fn single_leaf_proof(v: Bytes) -> MapProofM {
    MapProofM::leaf_only(ProofM {
        inner_root: NodeM { hash: v.clone() },
        inner_leaves: vec![(0, NodeM { hash: v })],
        inner_proof_size: 1,
        inner_proof_items: vec![],
    })
}

pub fn apply(m: &MapProofM, op: &MapOp, w: &MapWorld) -> Option<MapProofM> {
    let mut o = m.clone();
    let ctx = &w.top;
    let key_of = |a: usize| m.sub_proofs.get(a).map(|s| s.0.pair());
    match op {
        MapOp::SwapSubs { a, b } => {
            if *a >= o.sub_proofs.len() || *b >= o.sub_proofs.len() || a == b {
                return None;
            }
            let pa = o.sub_proofs[*a].1.clone();
            let pb = o.sub_proofs[*b].1.clone();
            if pa == pb {
                return None;
            }
            o.sub_proofs[*a].1 = pb;
            o.sub_proofs[*b].1 = pa;
        }
        MapOp::SubForeign { a } => {
            o.sub_proofs.get_mut(*a)?.1 = w.foreign_sub.clone();
        }
        MapOp::SubForeignMasterLeafReplaced { a } => {
            let (s, e) = key_of(*a)?;
            let (idx, _) = ctx.find((s, e))?;
            let pos = ctx.master.mmr.leaf_pos[idx];
            o.sub_proofs.get_mut(*a)?.1 = w.foreign_sub.clone();
            let ml = refs::map_leaf(&refs::key_bytes(s, e), w.foreign_sub.root());
            o.master_proof.inner_leaves.iter_mut().find(|(p, _)| *p == pos)?.1.hash = ml;
        }
        MapOp::SubForeignMasterDup { a, place } => {
            let (s, e) = key_of(*a)?;
            let (idx, _) = ctx.find((s, e))?;
            let pos = ctx.master.mmr.leaf_pos[idx];
            o.sub_proofs.get_mut(*a)?.1 = w.foreign_sub.clone();
            let ml = refs::map_leaf(&refs::key_bytes(s, e), w.foreign_sub.root());
            let at = o.master_proof.inner_leaves.iter().position(|(p, _)| *p == pos)?;
            let new = (pos, NodeM { hash: ml });
            match place {
                0 => o.master_proof.inner_leaves.insert(at + 1, new),
                1 => o.master_proof.inner_leaves.insert(at, new),
                _ => o.master_proof.inner_leaves.push(new),
            }
        }
        MapOp::KeyEdit { a, kind } => {
            let (s, e) = key_of(*a)?;
            let nk = match kind {
                0 => (s + 1, e),
                1 => (s, e + 1),
                2 => {
                    let (idx, _) = ctx.find((s, e))?;
                    if ctx.entries.len() < 2 {
                        return None;
                    }
                    ctx.entries[(idx + 1) % ctx.entries.len()].0
                }
                _ => (900_000, 900_015),
            };
            o.sub_proofs.get_mut(*a)?.0 = KeyM::new(nk.0, nk.1);
        }
        MapOp::KeyRootBoundaryShift { a } => {
            let (s, e) = key_of(*a)?;
            let (_, child) = ctx.find((s, e))?;
            if e < 10 {
                return None;
            }
            let digit = format!("{}", e % 10).into_bytes();
            let mut v = digit;
            v.extend_from_slice(child.root());
            let e2 = e / 10;
            let sp = o.sub_proofs.get_mut(*a)?;
            sp.0 = KeyM::new(s, e2);
            sp.1 = single_leaf_proof(v);
        }
        MapOp::SubSingleLeafRoot { a } => {
            let (s, e) = key_of(*a)?;
            let (_, child) = ctx.find((s, e))?;
            o.sub_proofs.get_mut(*a)?.1 = single_leaf_proof(child.root().clone());
        }
        MapOp::DropSub { a } => {
            if *a >= o.sub_proofs.len() {
                return None;
            }
            o.sub_proofs.remove(*a);
        }
        MapOp::ClearSubs => {
            if o.sub_proofs.is_empty() {
                return None;
            }
            o.sub_proofs.clear();
        }
        MapOp::DupSub { a } => {
            let e = o.sub_proofs.get(*a)?.clone();
            o.sub_proofs.push(e);
        }
        MapOp::DupSubForeign { a } => {
            let k = o.sub_proofs.get(*a)?.0.clone();
            o.sub_proofs.push((k, w.foreign_sub.clone()));
        }
        MapOp::AddSubForeign { kind } => {
            let k = if *kind == 0 {
                KeyM::new(900_000, 900_015)
            } else {
                let used: Vec<(u64, u64)> = m.sub_proofs.iter().map(|s| s.0.pair()).collect();
                let (s, e) = ctx.entries.iter().map(|e| e.0).find(|k| !used.contains(k))?;
                KeyM::new(s, e)
            };
            o.sub_proofs.push((k, w.foreign_sub.clone()));
        }
        MapOp::EmptySubsMasterForeign => {
            o = w.foreign_sub.clone();
        }
        MapOp::EmptySubsMasterIsSub { a } => {
            o = o.sub_proofs.get(*a)?.1.clone();
        }
        MapOp::Master(op) => {
            o.master_proof = mk::apply(&m.master_proof, op, &ctx.master)?;
        }
        MapOp::InnerSubForeign { a, b } => {
            let sp = o.sub_proofs.get_mut(*a)?;
            let inner = sp.1.sub_proofs.get_mut(*b)?;
            if inner.1 == w.foreign_sub {
                return None;
            }
            inner.1 = w.foreign_sub.clone();
        }
        MapOp::InnerSwapSubs { a, b, c } => {
            let sp = o.sub_proofs.get_mut(*a)?;
            if *b >= sp.1.sub_proofs.len() || *c >= sp.1.sub_proofs.len() || b == c {
                return None;
            }
            let pb = sp.1.sub_proofs[*b].1.clone();
            let pc = sp.1.sub_proofs[*c].1.clone();
            if pb == pc {
                return None;
            }
            sp.1.sub_proofs[*b].1 = pc;
            sp.1.sub_proofs[*c].1 = pb;
        }
        MapOp::InnerSub { a, b, op } => {
            let (s, e) = key_of(*a)?;
            let (_, child) = ctx.find((s, e))?;
            let RefNode::Map(mc) = child else { return None };
            let sp = o.sub_proofs.get_mut(*a)?;
            let inner = sp.1.sub_proofs.get_mut(*b)?;
            let (_, leaf_ctx) = mc.find(inner.0.pair())?;
            let RefNode::Tree(t) = leaf_ctx else { return None };
            inner.1.master_proof = mk::apply(&inner.1.master_proof, op, t)?;
        }
        MapOp::Sub { a, op } => {
            let (s, e) = key_of(*a)?;
            let (_, child) = ctx.find((s, e))?;
            let t = match child {
                RefNode::Tree(t) => t,
                RefNode::Map(mc) => &mc.master,
            };
            let sp = o.sub_proofs.get_mut(*a)?;
            sp.1.master_proof = mk::apply(&sp.1.master_proof, op, t)?;
        }
    }
    Some(o)
}

pub fn enumerate_ops(m: &MapProofM, w: &MapWorld, tree_ops_cap: usize, rng: &mut ChaCha20Rng) -> Vec<MapOp> {
    let mut ops = vec![];
    let s = m.sub_proofs.len();
    for a in 0..s {
        for b in a + 1..s {
            ops.push(MapOp::SwapSubs { a, b });
        }
        ops.push(MapOp::SubForeign { a });
        ops.push(MapOp::SubForeignMasterLeafReplaced { a });
        for place in 0..3 {
            ops.push(MapOp::SubForeignMasterDup { a, place });
        }
        for kind in 0..4 {
            ops.push(MapOp::KeyEdit { a, kind });
        }
        ops.push(MapOp::KeyRootBoundaryShift { a });
        ops.push(MapOp::SubSingleLeafRoot { a });
        ops.push(MapOp::DropSub { a });
        ops.push(MapOp::DupSub { a });
        ops.push(MapOp::DupSubForeign { a });
        ops.push(MapOp::EmptySubsMasterIsSub { a });
    }
    ops.push(MapOp::ClearSubs);
    ops.push(MapOp::AddSubForeign { kind: 0 });
    ops.push(MapOp::AddSubForeign { kind: 1 });
    ops.push(MapOp::EmptySubsMasterForeign);
    let cap = |mut v: Vec<Op>, rng: &mut ChaCha20Rng| {
        if v.len() > tree_ops_cap {
            rnd::shuffle(rng, &mut v);
            v.truncate(tree_ops_cap);
        }
        v
    };
    let small = w.top.master.n() <= 8;
    for op in cap(mk::enumerate_ops(&m.master_proof, &w.top.master, small, rng), rng) {
        ops.push(MapOp::Master(op));
    }
    for a in 0..s {
        if let Some((_, child)) = w.top.find(m.sub_proofs[a].0.pair()) {
            let t = match child {
                RefNode::Tree(t) => t,
                RefNode::Map(mc) => &mc.master,
            };
            for op in cap(mk::enumerate_ops(&m.sub_proofs[a].1.master_proof, t, t.n() <= 6, rng), rng) {
                ops.push(MapOp::Sub { a, op });
            }
        }
    }
    // third level
    for a in 0..s {
        let inner_n = m.sub_proofs[a].1.sub_proofs.len();
        for b in 0..inner_n {
            ops.push(MapOp::InnerSubForeign { a, b });
            for c in b + 1..inner_n {
                ops.push(MapOp::InnerSwapSubs { a, b, c });
            }
            if let Some((_, RefNode::Map(mc))) = w.top.find(m.sub_proofs[a].0.pair()) {
                if let Some((_, RefNode::Tree(t))) = mc.find(m.sub_proofs[a].1.sub_proofs[b].0.pair()) {
                    for op in cap(mk::enumerate_ops(&m.sub_proofs[a].1.sub_proofs[b].1.master_proof, t, t.n() <= 6, rng), rng) {
                        ops.push(MapOp::InnerSub { a, b, op });
                    }
                }
            }
        }
    }
    ops
}

pub fn judge(w: &MapWorld, m: &MapProofM, class: &str, mon: &mut Monitor) -> Verdict {
    mon.eval();
    let cc = crate::viol::counter_class(class);
    mon.count(&format!("c:mutator:{cc}"));
    let bytes = bincode_encode(m);
    let p = match catch(|| MKMapProof::<Key>::from_bytes(&bytes)) {
        Ok(Ok(p)) => p,
        Ok(Err(_)) => {
            mon.count("c:undecodable");
            return Verdict::Undecodable;
        }
        Err(pn) => {
            mon.count(&format!("decoder_panic@{}", vcore::panic_location(&pn)));
            return Verdict::Undecodable;
        }
    };
    let v = match catch(|| p.verify()) {
        Ok(Ok(())) => {
            if p.compute_root().as_slice() == w.root.as_slice() {
                Verdict::Accepted
            } else {
                Verdict::OtherRoot
            }
        }
        Ok(Err(_)) => Verdict::Rejected,
        Err(pn) => {
            mon.count(&format!("verifier_panic@{}", vcore::panic_location(&pn)));
            Verdict::Panicked
        }
    };
    mon.count(&format!("c:outcome:{v:?}"));
    let (mut fc, mut total) = (vec![], 0usize);
    // the committed structure as a RefNode::Map borrowed view: walk manually from the top
    false_claims_top(m, &w.top, &mut fc, &mut total);
    if !fc.is_empty() {
        let mut key = Vec::with_capacity(bytes.len() + 40);
        key.extend_from_slice(b"c|");
        key.extend_from_slice(&w.root);
        key.extend_from_slice(&bytes);
        mon.nontrivial(&key);
    }
    if v == Verdict::Accepted {
        let exposed: Vec<Bytes> = p.leaves().iter().map(|l| l.to_vec()).collect();
        if exposed != m.leaves_like_real() {
            mon.inconclusive("mirror struct and decoded MKMapProof disagree on the leaf list (harness error)");
        }
        let mut listed = vec![];
        m.all_listed(&mut listed);
        if fc.is_empty() {
            if class != "identity" {
                mon.count("c:verifies_but_claims_true");
                mon.count(&format!("c:verifies_but_claims_true:{cc}"));
            }
        } else {
            let shape = witness_shape_top(m, &w.top).unwrap_or_else(|| "other".into());
            // which of the false entries does the public `contains` vouch for?
            let vouched: Vec<String> = listed
                .iter()
                .filter(|x| !w.bottom.contains(x) && !w.master_level.contains(x))
                .filter(|x| p.contains(&MKTreeNode::new((*x).clone())).is_ok())
                .map(hex::encode)
                .collect();
            crate::viol::report(mon, &format!("C09 verified Merkle proof vouches for a non-committed entry: {shape}"), || format!(
                    "[MKMapProof] MKMapProof::verify = Ok and compute_root() equals the committed map root, yet {} of {} listed entries are false: {}; contains() = Ok for non-committed node(s) [{}]; mutation class {class}",
                    fc.len(),
                    total,
                    fc[0],
                    vouched.join(", ")
                ), || json!({"kind": "mkmap", "map": w.to_json(), "proof": m.to_json(), "class": class, "witness_shape": shape, "false_claims": fc}));
        }
        // contains may only answer from what the proof lists
        let mut pool: Vec<Bytes> = w.bottom.iter().take(40).cloned().collect();
        pool.extend(w.foreign_leaves.iter().take(2).cloned());
        pool.extend(w.master_level.iter().take(8).cloned());
        pool.push(w.root.clone());
        for x in pool {
            let ok = p.contains(&MKTreeNode::new(x.clone())).is_ok();
            let is_listed = listed.contains(&x);
            if ok && !is_listed {
                crate::viol::report(mon, "C09 MKMapProof::contains succeeds for a node the verified proof does not list", || format!("contains(0x{}) = Ok although no proof of the map proof covers it", hex::encode(&x)), || json!({"kind": "mkmap", "map": w.to_json(), "proof": m.to_json(), "class": class}));
            }
            if ok && w.master_level.contains(&x) {
                mon.count("c:contains_ok_for_master_level_leaf(H(key||root))");
            }
        }
    }
    v
}

fn false_claims_top(m: &MapProofM, top: &MapCtx, out: &mut Vec<String>, total: &mut usize) {
    for (pos, l) in &m.master_proof.inner_leaves {
        *total += 1;
        if !top.master.claim_true(*pos, &l.hash) {
            out.push(format!("top: (position {pos}, 0x{}) is not the committed master leaf H(key||root) at that position", hex::encode(&l.hash)));
        }
    }
    for (k, s) in &m.sub_proofs {
        let sub_path = format!("top/{}-{}", k.inner_range.start, k.inner_range.end);
        match top.find(k.pair()) {
            Some((_, child)) => false_claims(s, child, &sub_path, out, total),
            None => all_false(s, &sub_path, out, total),
        }
    }
}

fn witness_shape_top(m: &MapProofM, top: &MapCtx) -> Option<String> {
    if !top.master.false_claims(&m.master_proof).is_empty() {
        return Some(mk::witness_shape(&top.master, &m.master_proof).to_string());
    }
    for (k, s) in &m.sub_proofs {
        match top.find(k.pair()) {
            Some((_, child)) => {
                if let Some(x) = witness_shape(s, child, "sub-proof") {
                    return Some(x);
                }
            }
            None => {
                let (mut o, mut t) = (vec![], 0);
                all_false(s, "", &mut o, &mut t);
                if !o.is_empty() {
                    return Some(uncommitted_key_shape(k, s, &top.master));
                }
            }
        }
    }
    None
}

/// honest proof for a selection of bottom leaves: completeness + agreement with the reference
pub fn honest(w: &MapWorld, sel: &[Bytes], mon: &mut Monitor) -> Option<MapProofM> {
    let nodes: Vec<MKTreeNode> = sel.iter().map(|l| MKTreeNode::new(l.clone())).collect();
    let proof = match catch(|| w.real.compute_proof(&nodes)) {
        Ok(Ok(p)) => p,
        other => {
            crate::viol::report(mon, "C09 MKMap::compute_proof fails for committed leaves", || format!("{:?}", other.map(|r| r.map(|_| ()).map_err(|e| e.to_string()))), || json!({"kind": "mkmap-gen", "map": w.to_json(), "selection": sel.iter().map(hex::encode).collect::<Vec<_>>()}));
            return None;
        }
    };
    mon.count("c:honest_proofs");
    let m = match MapProofM::of(&proof) {
        Ok(m) => m,
        Err(e) => {
            mon.inconclusive(&format!("cannot mirror an honest MKMapProof: {e}"));
            return None;
        }
    };
    mon.eval();
    let ok = matches!(catch(|| proof.verify()), Ok(Ok(())));
    let root_ok = proof.compute_root().as_slice() == w.root.as_slice();
    let all_contained = nodes.iter().all(|n| proof.contains(n).is_ok());
    let mut listed = m.leaves_like_real();
    let mut want: Vec<Bytes> = sel.to_vec();
    listed.sort();
    want.sort();
    let (mut fc, mut total) = (vec![], 0);
    false_claims_top(&m, &w.top, &mut fc, &mut total);
    if !ok || !all_contained {
        crate::viol::report(mon, "C09 honest MKMapProof rejected", || format!("verify ok: {ok}, contains all selected leaves: {all_contained}"), || json!({"kind": "mkmap", "map": w.to_json(), "proof": m.to_json(), "class": "identity"}));
    }
    if !root_ok || listed != want || !fc.is_empty() {
        crate::viol::report(mon, "C09 generated MKMapProof disagrees with the reference map (root / listed leaves / positions)", || format!("root equal: {root_ok}, listed leaves equal selection: {}, false entries: {:?}", listed == want, fc.first()), || json!({"kind": "mkmap-gen", "map": w.to_json(), "proof": m.to_json(), "selection": sel.iter().map(hex::encode).collect::<Vec<_>>()}));
    }
    // contains answers exactly for the selection among bottom leaves
    for x in w.bottom.iter().take(60) {
        let ok = proof.contains(&MKTreeNode::new(x.clone())).is_ok();
        if ok != sel.contains(x) {
            crate::viol::report(mon, "C09 honest MKMapProof::contains differs from the selection", || format!("contains(0x{}) = {ok}", hex::encode(x)), || json!({"kind": "mkmap", "map": w.to_json(), "proof": m.to_json(), "class": "identity"}));
        }
    }
    Some(m)
}

pub fn run_selection(w: &MapWorld, sel: &[Bytes], tree_ops_cap: usize, pairs: usize, rng: &mut ChaCha20Rng, mon: &mut Monitor) {
    let Some(m) = honest(w, sel, mon) else { return };
    if judge(w, &m, "identity", mon) != Verdict::Accepted {
        crate::viol::report(mon, "C09 honest MKMapProof rejected after the bincode round trip", || "from_bytes(to_bytes(proof)).verify() is not Ok or its root differs from the reference root".to_string(), || json!({"kind": "mkmap", "map": w.to_json(), "proof": m.to_json(), "class": "identity"}));
    }
    if mon.wants_sample() && m.sub_proofs.len() >= 2 {
        mon.sample(json!({"part": "c", "ranges": w.top.entries.iter().map(|e| json!([e.0 .0, e.0 .1])).collect::<Vec<_>>(),
            "selected_leaves": sel.iter().map(|l| String::from_utf8_lossy(l).to_string()).collect::<Vec<_>>(),
            "honest_proof": m.to_json(),
            "example_mutation_classes": ["sub_proofs_swapped_between_keys", "sub_proof_foreign_and_master_duplicate_position_0", "key_edited_to_other_committed_key"]}));
    }
    let ops = enumerate_ops(&m, w, tree_ops_cap, rng);
    for op in &ops {
        if let Some(c) = apply(&m, op, w) {
            judge(w, &c, &op.class(), mon);
        }
    }
    for _ in 0..pairs {
        let a = rnd::pick(rng, &ops);
        let b = rnd::pick(rng, &ops);
        if let Some(c) = apply(&m, a, w).and_then(|c| apply(&c, b, w)) {
            judge(w, &c, &format!("pair:{}+{}", a.class(), b.class()), mon);
        }
    }
}

/// a random committed map: `ranges` block ranges (keys 15 wide) of 1..=max_leaves leaves; when
/// `nested`, some values are themselves maps of trees
pub fn gen_world(rng: &mut ChaCha20Rng, ranges: usize, max_leaves: usize, nested: bool, style: u64) -> Result<MapWorld, String> {
    let mut entries = vec![];
    let mut start = 15 * rnd::below(rng, 50);
    for r in 0..ranges {
        start += 15 * (1 + rnd::below(rng, 3));
        let n = 1 + rnd::usize_below(rng, max_leaves);
        let mk_tree = |rng: &mut ChaCha20Rng, n: usize, tag: String| {
            RefNode::Tree(TreeCtx::new(&tag, mk::gen_leaves(rng, n, style, &tag), vec![b"foreign-a".to_vec(), b"foreign-b".to_vec()]))
        };
        let node = if nested && rnd::chance(rng, 1, 3) {
            let inner: Vec<((u64, u64), RefNode)> = (0..1 + rnd::usize_below(rng, 3))
                .map(|i| {
                    let n = 1 + rnd::usize_below(rng, max_leaves.min(5));
                    ((start * 100 + i as u64 * 3, start * 100 + i as u64 * 3 + 3), mk_tree(rng, n, format!("r{r}i{i}")))
                })
                .collect();
            RefNode::Map(MapCtx::new(inner))
        } else {
            mk_tree(rng, n, format!("r{r}"))
        };
        entries.push(((start, start + 15), node));
    }
    let foreign = mk::gen_leaves(rng, 3, style, "foreign");
    MapWorld::new(MapCtx::new(entries), foreign)
}
