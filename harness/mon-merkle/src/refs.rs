//! Reference trees written in the harness (oracle side). Nothing here calls the code under test.
//!
//! * `RefMmr`     - Merkle mountain range as used by `MKTree`: leaves are RAW byte strings (not
//!                  hashed), parent = Blake2s256(left || right), nodes numbered in post-order,
//!                  root = peaks bagged from the right: acc = last peak; acc = H(acc || peak) for
//!                  every earlier peak; a single leaf is its own root.
//! * `stm_root`   - registration tree of mithril-stm: heap with `n + next_pow2(n) - 1` nodes, leaf i at
//!                  `next_pow2(n) - 1 + i` holding Blake2b-256(leaf bytes), a child outside the heap
//!                  counts as Blake2b-256([0]), parent = Blake2b-256(left || right).
//! * `map_leaf`   - master leaf of an `MKMap`: Blake2s256(key bytes || value root).
use blake2::digest::consts::U32;
use blake2::{Blake2b, Blake2s256, Digest};
use std::collections::HashMap;

pub type Bytes = Vec<u8>;

pub fn h2s(a: &[u8], b: &[u8]) -> Bytes {
    let mut h = Blake2s256::new();
    h.update(a);
    h.update(b);
    h.finalize().to_vec()
}

#[derive(Clone, Debug)]
pub struct RefMmr {
    /// position -> (height, value)
    pub nodes: Vec<(u8, Bytes)>,
    /// position -> children positions (None for leaves)
    pub children: Vec<Option<(usize, usize)>>,
    /// position -> parent position (None for peaks)
    pub parent: Vec<Option<usize>>,
    /// leaf index -> position
    pub leaf_pos: Vec<u64>,
    /// stack of peaks (height, position), left to right
    pub peaks: Vec<(u8, usize)>,
}

impl RefMmr {
    pub fn new(leaves: &[Bytes]) -> Self {
        let mut m = RefMmr { nodes: vec![], children: vec![], parent: vec![], leaf_pos: vec![], peaks: vec![] };
        for l in leaves {
            m.push(l.clone());
        }
        m
    }
    pub fn push(&mut self, leaf: Bytes) {
        let pos = self.nodes.len();
        self.nodes.push((0, leaf));
        self.children.push(None);
        self.parent.push(None);
        self.leaf_pos.push(pos as u64);
        self.peaks.push((0, pos));
        while self.peaks.len() >= 2 && self.peaks[self.peaks.len() - 1].0 == self.peaks[self.peaks.len() - 2].0 {
            let (h, r) = self.peaks.pop().unwrap();
            let (_, l) = self.peaks.pop().unwrap();
            let v = h2s(&self.nodes[l].1, &self.nodes[r].1);
            let p = self.nodes.len();
            self.nodes.push((h + 1, v));
            self.children.push(Some((l, r)));
            self.parent.push(None);
            self.parent[l] = Some(p);
            self.parent[r] = Some(p);
            self.peaks.push((h + 1, p));
        }
    }
    pub fn size(&self) -> u64 {
        self.nodes.len() as u64
    }
    pub fn root(&self) -> Option<Bytes> {
        let mut it = self.peaks.iter().rev();
        let mut acc = self.nodes[it.next()?.1].1.clone();
        for (_, p) in it {
            acc = h2s(&acc, &self.nodes[*p].1);
        }
        Some(acc)
    }
    pub fn pos_index(&self) -> HashMap<u64, usize> {
        self.leaf_pos.iter().enumerate().map(|(i, p)| (*p, i)).collect()
    }
    /// sibling position of a non-peak node
    pub fn sibling(&self, pos: usize) -> Option<usize> {
        let p = self.parent[pos]?;
        let (l, r) = self.children[p]?;
        Some(if l == pos { r } else { l })
    }
    /// the cut through the forest at height `h`: all nodes of height h plus the peaks lower than h,
    /// in position order (these are the "leaves" of the forest with the h bottom levels removed)
    pub fn frontier(&self, h: u8) -> Vec<Bytes> {
        let peak_set: Vec<usize> = self.peaks.iter().map(|p| p.1).collect();
        self.nodes
            .iter()
            .enumerate()
            .filter(|(pos, (height, _))| *height == h || (*height < h && peak_set.contains(pos)))
            .map(|(_, (_, v))| v.clone())
            .collect()
    }
}

/// closed formula for the position of leaf `i` (second, independent way: 2i - popcount(i))
pub fn leaf_pos_formula(i: u64) -> u64 {
    2 * i - i.count_ones() as u64
}
/// closed formula for the MMR size with `n` leaves
pub fn mmr_size_formula(n: u64) -> u64 {
    2 * n - n.count_ones() as u64
}

/// root computed top-down from the leaf list (third way: split at the largest power of two)
pub fn mmr_root_topdown(leaves: &[Bytes]) -> Option<Bytes> {
    fn perfect(l: &[Bytes]) -> Bytes {
        if l.len() == 1 {
            l[0].clone()
        } else {
            let (a, b) = l.split_at(l.len() / 2);
            h2s(&perfect(a), &perfect(b))
        }
    }
    if leaves.is_empty() {
        return None;
    }
    let mut peaks = vec![];
    let mut rest = leaves;
    while !rest.is_empty() {
        let k = 1usize << (usize::BITS - 1 - rest.len().leading_zeros());
        let (a, b) = rest.split_at(k);
        peaks.push(perfect(a));
        rest = b;
    }
    let mut acc = peaks.pop().unwrap();
    while let Some(p) = peaks.pop() {
        acc = h2s(&acc, &p);
    }
    Some(acc)
}

pub fn map_leaf(key_bytes: &[u8], value_root: &[u8]) -> Bytes {
    h2s(key_bytes, value_root)
}

pub fn key_bytes(start: u64, end: u64) -> Bytes {
    format!("{start}-{end}").into_bytes()
}

// ------------------------------------------------------------------------------------------------
// STM registration tree

pub fn hb(parts: &[&[u8]]) -> Bytes {
    let mut h = Blake2b::<U32>::new();
    for p in parts {
        h.update(p);
    }
    h.finalize().to_vec()
}

pub fn stm_root(leaf_bytes: &[Bytes]) -> Bytes {
    let n = leaf_bytes.len();
    assert!(n > 0);
    let np2 = n.next_power_of_two();
    let num_nodes = n + np2 - 1;
    let leaf_off = np2 - 1;
    let z = hb(&[&[0u8]]);
    fn node(i: usize, num_nodes: usize, leaf_off: usize, leaves: &[Bytes], z: &Bytes) -> Bytes {
        if i >= num_nodes {
            z.clone()
        } else if i >= leaf_off {
            hb(&[&leaves[i - leaf_off]])
        } else {
            let l = node(2 * i + 1, num_nodes, leaf_off, leaves, z);
            let r = node(2 * i + 2, num_nodes, leaf_off, leaves, z);
            hb(&[&l, &r])
        }
    }
    node(0, num_nodes, leaf_off, leaf_bytes, &z)
}

/// self-test of the reference structures against each other (three ways to the same MMR root, two
/// ways to leaf positions); returns an error text when they disagree
pub fn self_test() -> Result<(), String> {
    for n in 1..=70usize {
        let leaves: Vec<Bytes> = (0..n).map(|i| format!("selftest-{n}-{i}").into_bytes()).collect();
        let m = RefMmr::new(&leaves);
        if m.root() != mmr_root_topdown(&leaves) {
            return Err(format!("reference MMR roots disagree for n={n}"));
        }
        if m.size() != mmr_size_formula(n as u64) {
            return Err(format!("reference MMR size disagrees for n={n}"));
        }
        for (i, p) in m.leaf_pos.iter().enumerate() {
            if *p != leaf_pos_formula(i as u64) {
                return Err(format!("reference leaf position disagrees for n={n} i={i}"));
            }
        }
    }
    Ok(())
}

// ------------------------------------------------------------------------------------------------
// Reference evaluation of an MMR multi-proof (used to CLASSIFY accepted proofs with false claims:
// do the entries the verification uses hash to the committed root - a structural ambiguity of the
// tree encoding - or not - a defect of the verification itself?)

/// shape (no hashing) of the MMR with `n` leaves
fn skeleton(n: usize) -> RefMmr {
    let mut m = RefMmr { nodes: vec![], children: vec![], parent: vec![], leaf_pos: vec![], peaks: vec![] };
    for _ in 0..n {
        let pos = m.nodes.len();
        m.nodes.push((0, vec![]));
        m.children.push(None);
        m.parent.push(None);
        m.leaf_pos.push(pos as u64);
        m.peaks.push((0, pos));
        while m.peaks.len() >= 2 && m.peaks[m.peaks.len() - 1].0 == m.peaks[m.peaks.len() - 2].0 {
            let (h, r) = m.peaks.pop().unwrap();
            let (_, l) = m.peaks.pop().unwrap();
            let p = m.nodes.len();
            m.nodes.push((h + 1, vec![]));
            m.children.push(Some((l, r)));
            m.parent.push(None);
            m.parent[l] = Some(p);
            m.parent[r] = Some(p);
            m.peaks.push((h + 1, p));
        }
    }
    m
}

/// number of leaves of the largest MMR that fits into `size` nodes when perfect trees of strictly
/// decreasing size are taken greedily (a valid mmr_size maps to its own leaf count)
fn leaves_for_size(size: u64) -> Option<usize> {
    if size == 0 || size > (1 << 24) {
        return None;
    }
    let mut rest = size;
    let mut leaves = 0u64;
    let mut tree = (u64::MAX >> size.leading_zeros()) as u64; // 2^k - 1 >= size
    while tree > 0 {
        if rest >= tree {
            rest -= tree;
            leaves += (tree + 1) / 2;
        }
        tree >>= 1;
    }
    Some(leaves as usize)
}

/// Root obtained from `entries` (position, value) and the proof `items` for an MMR of `mmr_size`
/// nodes: entries sorted by position, the first entry of a position wins; per peak from the left the
/// entries are folded level by level (sibling = next entry or next item), a peak without entries is
/// the next item; one more item may stand for the bagged right-hand peaks; peaks are bagged from the
/// right with H(right || left). None when the material does not fit.
pub fn mmr_eval(mmr_size: u64, entries: &[(u64, Bytes)], items: &[Bytes]) -> Option<Bytes> {
    let mut e: Vec<(u64, Bytes)> = entries.to_vec();
    e.sort_by_key(|x| x.0);
    e.dedup_by(|a, b| a.0 == b.0);
    if mmr_size == 1 && e.len() == 1 && e[0].0 == 0 {
        return Some(e[0].1.clone());
    }
    let sk = skeleton(leaves_for_size(mmr_size)?);
    let total = sk.nodes.len() as u64;
    if e.iter().any(|(p, _)| *p >= total || sk.nodes[*p as usize].0 != 0) {
        return None;
    }
    let mut it = items.iter();
    let mut rest = e.as_slice();
    let mut peaks_hashes: Vec<Bytes> = vec![];
    for (_, peak) in &sk.peaks {
        let k = rest.iter().take_while(|(p, _)| (*p as usize) <= *peak).count();
        let (group, r) = rest.split_at(k);
        rest = r;
        let v = if group.len() == 1 && group[0].0 as usize == *peak {
            group[0].1.clone()
        } else if group.is_empty() {
            match it.next() {
                Some(x) => x.clone(),
                None => break,
            }
        } else {
            let mut cur: Vec<(usize, Bytes)> = group.iter().map(|(p, v)| (*p as usize, v.clone())).collect();
            loop {
                if cur.len() == 1 && cur[0].0 == *peak {
                    break cur.pop().unwrap().1;
                }
                let mut next = vec![];
                let mut i = 0;
                while i < cur.len() {
                    let (pos, v) = &cur[i];
                    let parent = sk.parent[*pos]?;
                    let (l, r) = sk.children[parent]?;
                    let merged = if *pos == l {
                        if i + 1 < cur.len() && cur[i + 1].0 == r {
                            i += 1;
                            h2s(v, &cur[i].1)
                        } else {
                            h2s(v, it.next()?)
                        }
                    } else {
                        h2s(it.next()?, v)
                    };
                    next.push((parent, merged));
                    i += 1;
                }
                cur = next;
            }
        };
        peaks_hashes.push(v);
    }
    if !rest.is_empty() {
        return None;
    }
    if let Some(x) = it.next() {
        peaks_hashes.push(x.clone());
    }
    if it.next().is_some() {
        return None;
    }
    let mut acc = peaks_hashes.pop()?;
    while let Some(p) = peaks_hashes.pop() {
        acc = h2s(&acc, &p);
    }
    Some(acc)
}
