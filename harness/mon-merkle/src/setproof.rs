//! C09 (c), entity level: `MkSetProof<CardanoTransaction|CardanoBlock>::verify` and the legacy
//! `CardanoTransactionsSetProof::verify` of mithril-common. The committed structure is a block-range
//! map whose leaves are the identifiers "Block/<hash>/<number>/<slot>" and
//! "Tx/<tx>/<block hash>/<number>/<slot>" (reference encoding written here and compared with the
//! library's `IntoMKTreeNode`). Oracle: `verify() = Ok` and `merkle_root()` equal to the reference
//! root  =>  every item of the set proof is one of the committed items (field by field).
use crate::mk::{self, bincode_encode, NodeM, ProofM, TreeCtx};
use crate::mkmap::{self, MapCtx, MapProofM, MapWorld, RefNode};
use crate::refs::Bytes;
use mithril_common::crypto_helper::{MKMapProof, MKTreeNode};
use mithril_common::entities::{
    BlockNumber, BlockRange, CardanoBlock, CardanoTransaction, CardanoTransactionsSetProof, IntoMKTreeNode, MkSetProof, SlotNumber,
};
use mithril_common::messages::{CardanoTransactionMessagePart, MkSetProofMessagePart};
use rand_chacha::ChaCha20Rng;
use serde_json::json;
use vcore::{catch, rnd, Monitor};

fn tx_bytes(t: &CardanoTransaction) -> Bytes {
    format!("Tx/{}/{}/{}/{}", t.transaction_hash, t.block_hash, *t.block_number, *t.slot_number).into_bytes()
}
fn block_bytes(b: &CardanoBlock) -> Bytes {
    format!("Block/{}/{}/{}", b.block_hash, *b.block_number, *b.slot_number).into_bytes()
}

pub struct SetWorld {
    pub map: MapWorld,
    pub blocks: Vec<CardanoBlock>,
    pub txs: Vec<CardanoTransaction>,
    /// per range: (key, leaf index -> item)
    pub ranges: Vec<((u64, u64), Vec<Item>)>,
}

#[derive(Clone, Debug)]
pub enum Item {
    Block(CardanoBlock),
    Tx(CardanoTransaction),
}

/// `fixed_shape`: the first range holds exactly one block with three transactions (leaves
/// [Block, Tx, Tx, Tx]: a transaction at an even leaf index with a right sibling always exists)
pub fn gen_world(rng: &mut ChaCha20Rng, n_ranges: usize, fixed_shape: bool, mon: &mut Monitor) -> Result<SetWorld, String> {
    let mut ranges = vec![];
    let mut entries = vec![];
    let (mut blocks, mut txs) = (vec![], vec![]);
    let mut range_no = rnd::below(rng, 40);
    for ri in 0..n_ranges {
        range_no += 1 + rnd::below(rng, 3);
        let start = range_no * 15;
        let fixed = fixed_shape && ri == 0;
        let nb = if fixed { 1 } else { 1 + rnd::usize_below(rng, 3) };
        let mut bs: Vec<CardanoBlock> = vec![];
        let mut ts: Vec<CardanoTransaction> = vec![];
        for b in 0..nb {
            let number = start + (b as u64 * 5) + rnd::below(rng, 5);
            let slot = number * 20 + rnd::below(rng, 20);
            let bh = hex::encode(rnd::bytes(rng, 32));
            bs.push(CardanoBlock::new(bh.clone(), BlockNumber(number), SlotNumber(slot)));
            let ntx = if fixed { 3 } else { rnd::usize_below(rng, 4) };
            for _ in 0..ntx {
                ts.push(CardanoTransaction::new(hex::encode(rnd::bytes(rng, 32)), BlockNumber(number), SlotNumber(slot), bh.clone()));
            }
        }
        let mut items: Vec<Item> = bs.iter().cloned().map(Item::Block).collect();
        items.extend(ts.iter().cloned().map(Item::Tx));
        let leaves: Vec<Bytes> = items
            .iter()
            .map(|i| match i {
                Item::Block(b) => block_bytes(b),
                Item::Tx(t) => tx_bytes(t),
            })
            .collect();
        // the library's own leaf encoding must be the reference one (otherwise the harness is stale)
        for (i, l) in items.iter().zip(leaves.iter()) {
            let lib: MKTreeNode = match i {
                Item::Block(b) => b.clone().into_mk_tree_node(),
                Item::Tx(t) => t.clone().into_mk_tree_node(),
            };
            if lib.as_slice() != l.as_slice() {
                mon.inconclusive("IntoMKTreeNode leaf encoding differs from the harness reference format (Block/.. , Tx/..): update setproof.rs");
            }
        }
        let key = BlockRange::from_block_number(BlockNumber(start));
        let k = (*key.start, *key.end);
        entries.push((k, RefNode::Tree(TreeCtx::new("range", leaves, vec![b"Tx/ff/ee/1/1".to_vec(), b"Block/ee/1/1".to_vec()]))));
        ranges.push((k, items));
        blocks.extend(bs);
        txs.extend(ts);
    }
    let foreign = vec![b"Tx/aa/bb/1/2".to_vec(), b"Tx/cc/bb/1/2".to_vec(), b"Block/bb/1/2".to_vec()];
    Ok(SetWorld { map: MapWorld::new(MapCtx::new(entries), foreign)?, blocks, txs, ranges })
}

fn real_proof(m: &MapProofM) -> Option<MKMapProof<BlockRange>> {
    catch(|| MKMapProof::<BlockRange>::from_bytes(&bincode_encode(m))).ok()?.ok()
}

/// judge a transaction set proof (items + proof mirror)
fn judge_txs(w: &SetWorld, items: &[CardanoTransaction], m: &MapProofM, class: &str, mon: &mut Monitor) -> bool {
    mon.eval();
    mon.count(&format!("s:mutator:{class}"));
    let Some(p) = real_proof(m) else {
        mon.count("s:undecodable");
        return false;
    };
    let sp = MkSetProof::<CardanoTransaction>::new(items.to_vec(), p);
    let ok = matches!(catch(|| sp.verify()), Ok(Ok(())));
    let root_ok = sp.merkle_root() == hex::encode(&w.map.root);
    let accepted = ok && root_ok;
    mon.count(&format!("s:outcome:{}", if accepted { "Accepted" } else if ok { "OtherRoot" } else { "Rejected" }));
    // wire form used by the client: items + hex(bincode(proof))
    let msg = MkSetProofMessagePart::<CardanoTransactionMessagePart> {
        items: items.iter().cloned().map(Into::into).collect(),
        proof: hex::encode(bincode_encode(m)),
    };
    let wire_ok = matches!(catch(|| msg.verify::<CardanoTransaction>().map(|_| ())), Ok(Ok(())));
    if wire_ok != ok {
        mon.count("s:wire_form_DISAGREES");
    }
    let false_items: Vec<&CardanoTransaction> = items.iter().filter(|t| !w.txs.contains(t)).collect();
    if !false_items.is_empty() {
        mon.nontrivial_str(&format!("s|{}|{:?}|{}", hex::encode(&w.map.root), items, hex::encode(bincode_encode(m))));
    }
    if accepted {
        if false_items.is_empty() {
            if class != "identity" {
                mon.count("s:verifies_but_claims_true");
            }
        } else {
            let shape = shape_of(w, m);
            crate::viol::report(mon, &format!("C09 set proof certifies an item that was never committed: {shape}"), || format!(
                    "[MkSetProof<CardanoTransaction>] a transaction that was never committed is certified: MkSetProof::verify = Ok (wire form MkSetProofMessagePart::verify: {wire_ok}) and merkle_root() equals the committed root, but item {:?} is not one of the {} committed transactions; mutation class {class}",
                    false_items[0],
                    w.txs.len()
                ), || json!({"kind": "mksetproof-tx", "map": w.map.to_json(), "proof": m.to_json(), "class": class, "witness_shape": shape,
                       "items": items.iter().map(|t| json!([t.transaction_hash, *t.block_number, *t.slot_number, t.block_hash])).collect::<Vec<_>>()}));
        }
    }
    accepted
}

fn judge_blocks(w: &SetWorld, items: &[CardanoBlock], m: &MapProofM, class: &str, mon: &mut Monitor) -> bool {
    mon.eval();
    mon.count(&format!("s:mutator:block:{class}"));
    let Some(p) = real_proof(m) else { return false };
    let sp = MkSetProof::<CardanoBlock>::new(items.to_vec(), p);
    let ok = matches!(catch(|| sp.verify()), Ok(Ok(())));
    let accepted = ok && sp.merkle_root() == hex::encode(&w.map.root);
    mon.count(&format!("s:outcome:block:{}", if accepted { "Accepted" } else { "NotAccepted" }));
    let false_items: Vec<&CardanoBlock> = items.iter().filter(|b| !w.blocks.contains(b)).collect();
    if !false_items.is_empty() {
        mon.nontrivial_str(&format!("sb|{}|{:?}|{}", hex::encode(&w.map.root), items, hex::encode(bincode_encode(m))));
    }
    if accepted && !false_items.is_empty() {
        let shape = shape_of(w, m);
        crate::viol::report(mon, &format!("C09 set proof certifies an item that was never committed: {shape}"), || format!("[MkSetProof<CardanoBlock>] a block that was never committed is certified: item {:?} is not a committed block; mutation class {class}", false_items[0]), || json!({"kind": "mksetproof-block", "map": w.map.to_json(), "proof": m.to_json(), "class": class, "witness_shape": shape,
                   "items": items.iter().map(|b| json!([b.block_hash, *b.block_number, *b.slot_number])).collect::<Vec<_>>()}));
    }
    accepted
}

fn shape_of(w: &SetWorld, m: &MapProofM) -> String {
    let (mut fc, mut total) = (vec![], 0);
    // proof-level false entries, if any, name the shape; otherwise the items were simply not covered
    for (k, s) in &m.sub_proofs {
        if let Some((_, child)) = w.map.top.find(k.pair()) {
            mkmap::false_claims(s, child, "", &mut fc, &mut total);
            if !fc.is_empty() {
                if let RefNode::Tree(t) = child {
                    return mk::witness_shape(t, &s.master_proof).to_string();
                }
            }
        } else {
            return "sub-proof filed under a key that is not committed".into();
        }
    }
    if !w.map.top.master.false_claims(&m.master_proof).is_empty() {
        return mk::witness_shape(&w.map.top.master, &m.master_proof).to_string();
    }
    "item accepted without being listed by the proof".into()
}

fn digits_dropped(x: u64) -> Option<u64> {
    if x >= 10 {
        Some(x / 10)
    } else {
        None
    }
}

pub fn run_world(w: &SetWorld, rng: &mut ChaCha20Rng, selections: usize, mon: &mut Monitor) {
    if w.txs.is_empty() {
        mon.count("s:world_without_transactions");
        return;
    }
    mon.count("s:worlds");
    for _ in 0..selections {
        let k = 1 + rnd::usize_below(rng, w.txs.len().min(4));
        let mut sel: Vec<CardanoTransaction> = vec![];
        for _ in 0..k {
            let t = rnd::pick(rng, &w.txs).clone();
            if !sel.contains(&t) {
                sel.push(t);
            }
        }
        let nodes: Vec<Bytes> = sel.iter().map(tx_bytes).collect();
        let Some(m) = mkmap::honest(&w.map, &nodes, mon) else { continue };
        // completeness at entity level
        if !judge_txs(w, &sel, &m, "identity", mon) {
            crate::viol::report(mon, "C09 honest MkSetProof<CardanoTransaction> rejected", || "MkSetProof::verify rejected an honestly generated proof (or its root differs from the reference root)".to_string(), || json!({"kind": "mksetproof-tx", "map": w.map.to_json(), "proof": m.to_json(), "class": "identity"}));
        }
        if mon.wants_sample() {
            mon.sample(json!({"part": "c/MkSetProof", "committed_transactions": w.txs.len(), "committed_blocks": w.blocks.len(),
                "selected": sel.iter().map(|t| String::from_utf8_lossy(&tx_bytes(t)).to_string()).collect::<Vec<_>>(),
                "example_mutation_classes": ["item_added_foreign", "item_slot_digits_dropped", "item_moved_to_other_committed_block", "forged_item_with_duplicate_position_entry"]}));
        }
        let other_block = w.blocks.iter().find(|b| b.block_hash != sel[0].block_hash).cloned();
        // --- items edited, proof honest
        let mut variants: Vec<(&str, Vec<CardanoTransaction>)> = vec![];
        let t0 = sel[0].clone();
        let with0 = |t: CardanoTransaction| {
            let mut v = sel.clone();
            v[0] = t;
            v
        };
        let mut added = sel.clone();
        added.push(CardanoTransaction::new(hex::encode(rnd::bytes(rng, 32)), t0.block_number, t0.slot_number, t0.block_hash.clone()));
        variants.push(("item_added_foreign", added));
        variants.push(("item_renamed_tx_hash", with0(CardanoTransaction::new(hex::encode(rnd::bytes(rng, 32)), t0.block_number, t0.slot_number, t0.block_hash.clone()))));
        variants.push(("item_block_number_plus_1", with0(CardanoTransaction::new(t0.transaction_hash.clone(), t0.block_number + 1, t0.slot_number, t0.block_hash.clone()))));
        variants.push(("item_slot_plus_1", with0(CardanoTransaction::new(t0.transaction_hash.clone(), t0.block_number, t0.slot_number + 1, t0.block_hash.clone()))));
        if let Some(s) = digits_dropped(*t0.slot_number) {
            variants.push(("item_slot_digits_dropped", with0(CardanoTransaction::new(t0.transaction_hash.clone(), t0.block_number, SlotNumber(s), t0.block_hash.clone()))));
        }
        if let Some(b) = &other_block {
            variants.push(("item_block_hash_of_other_block", with0(CardanoTransaction::new(t0.transaction_hash.clone(), t0.block_number, t0.slot_number, b.block_hash.clone()))));
            variants.push(("item_moved_to_other_committed_block", with0(CardanoTransaction::new(t0.transaction_hash.clone(), b.block_number, b.slot_number, b.block_hash.clone()))));
        }
        if let Some(u) = w.txs.iter().find(|t| !sel.contains(t)) {
            let mut v = sel.clone();
            v.push(u.clone());
            variants.push(("item_added_committed_but_unproven", v));
        }
        let mut dup = sel.clone();
        dup.push(t0.clone());
        variants.push(("item_duplicated", dup));
        for (class, items) in &variants {
            judge_txs(w, items, &m, class, mon);
        }
        // a transaction presented as a block / blocks with edited fields, on an honest block proof
        if let Some(b0) = w.blocks.first() {
            let bn = vec![block_bytes(b0)];
            if let Some(mb) = mkmap::honest(&w.map, &bn, mon) {
                if !judge_blocks(w, &[b0.clone()], &mb, "identity", mon) {
                    crate::viol::report(mon, "C09 honest MkSetProof<CardanoBlock> rejected", || "verify rejected an honest block proof".to_string(), || json!({"kind": "mksetproof-block", "map": w.map.to_json(), "proof": mb.to_json()}));
                }
                judge_blocks(w, &[CardanoBlock::new(b0.block_hash.clone(), b0.block_number + 1, b0.slot_number)], &mb, "block_number_plus_1", mon);
                judge_blocks(w, &[CardanoBlock::new(hex::encode(rnd::bytes(rng, 32)), b0.block_number, b0.slot_number)], &mb, "block_renamed", mon);
                judge_blocks(w, &[CardanoBlock::new(t0.transaction_hash.clone(), t0.block_number, t0.slot_number)], &m, "transaction_presented_as_block", mon);
                if let Some(s) = digits_dropped(*b0.slot_number) {
                    judge_blocks(w, &[CardanoBlock::new(b0.block_hash.clone(), b0.block_number, SlotNumber(s))], &mb, "block_slot_digits_dropped", mon);
                }
            }
        }
        // --- forged item + proof surgery
        let forged = CardanoTransaction::new(hex::encode(rnd::bytes(rng, 32)), t0.block_number, t0.slot_number, t0.block_hash.clone());
        for a in 0..m.sub_proofs.len() {
            for place in 0..3u8 {
                let mut c = m.clone();
                let sub = &mut c.sub_proofs[a].1.master_proof;
                let Some(first) = sub.inner_leaves.first().cloned() else { continue };
                let new = (first.0, NodeM { hash: tx_bytes(&forged) });
                match place {
                    0 => sub.inner_leaves.insert(1, new),
                    1 => sub.inner_leaves.insert(0, new),
                    _ => sub.inner_leaves.push(new),
                }
                judge_txs(w, &[forged.clone()], &c, &format!("forged_item_with_duplicate_position_entry_{place}"), mon);
                let mut both = sel.clone();
                both.push(forged.clone());
                judge_txs(w, &both, &c, &format!("forged_item_next_to_true_items_with_duplicate_position_entry_{place}"), mon);
            }
            // forged leaf replaces the true one (no duplicate): must be rejected
            let mut c = m.clone();
            if let Some(e) = c.sub_proofs[a].1.master_proof.inner_leaves.first_mut() {
                e.1.hash = tx_bytes(&forged);
            }
            judge_txs(w, &[forged.clone()], &c, "forged_item_replaces_leaf", mon);
        }
        // slot digits dropped + the dropped byte pushed into the right sibling (alternative pre-image)
        slot_truncation_attack(w, rng, mon);
    }
}

/// "Tx/../<slot>" at an even leaf index j with a right sibling: claim the same transaction with the
/// last slot digit removed and hand the digit over to the sibling.
fn slot_truncation_attack(w: &SetWorld, rng: &mut ChaCha20Rng, mon: &mut Monitor) {
    let mut cands = vec![];
    for (ri, (_, items)) in w.ranges.iter().enumerate() {
        for j in (0..items.len()).step_by(2) {
            if j + 1 < items.len() {
                if let Item::Tx(t) = &items[j] {
                    if *t.slot_number >= 10 {
                        cands.push((ri, j, t.clone()));
                    }
                }
            }
        }
    }
    if cands.is_empty() {
        return;
    }
    let (ri, j, t) = rnd::pick(rng, &cands).clone();
    let (key, _) = &w.ranges[ri];
    let Some((_, RefNode::Tree(tctx))) = w.map.top.find(*key) else { return };
    let mut alt = tctx.leaves.clone();
    let b = alt[j].pop().unwrap();
    alt[j + 1].insert(0, b);
    let nodes: Vec<MKTreeNode> = alt.iter().map(|l| MKTreeNode::new(l.clone())).collect();
    let Ok(Ok(alt_tree)) = catch(|| mk::Tree::new(&nodes)) else { return };
    let Ok(Ok(p)) = catch(|| alt_tree.compute_proof(&[nodes[j].clone()])) else { return };
    let Ok(sub) = ProofM::of(&p) else { return };
    // honest map proof for the true transaction, then swap in the alternative sub-proof
    let Some(mut m) = mkmap::honest(&w.map, &[tx_bytes(&t)], mon) else { return };
    if m.sub_proofs.len() != 1 {
        return;
    }
    m.sub_proofs[0].1.master_proof = sub;
    let forged = CardanoTransaction::new(t.transaction_hash.clone(), t.block_number, SlotNumber(*t.slot_number / 10), t.block_hash.clone());
    judge_txs(w, &[forged], &m, "forged_slot_digit_moved_into_right_sibling", mon);
}

/// legacy `CardanoTransactionsSetProof` (leaves = transaction hashes)
pub fn run_legacy(rng: &mut ChaCha20Rng, mon: &mut Monitor) {
    let n_ranges = 1 + rnd::usize_below(rng, 4);
    let mut entries = vec![];
    let mut all: Vec<String> = vec![];
    for r in 0..n_ranges {
        let n = 1 + rnd::usize_below(rng, 6);
        let hashes: Vec<String> = (0..n).map(|_| hex::encode(rnd::bytes(rng, 32))).collect();
        all.extend(hashes.iter().cloned());
        let leaves: Vec<Bytes> = hashes.iter().map(|h| h.as_bytes().to_vec()).collect();
        entries.push(((r as u64 * 15, r as u64 * 15 + 15), RefNode::Tree(TreeCtx::new("legacy", leaves, vec![b"ff".to_vec()]))));
    }
    let Ok(w) = MapWorld::new(MapCtx::new(entries), vec![b"aa".to_vec(), b"bb".to_vec(), b"cc".to_vec()]) else {
        mon.count("s:legacy_world_failed");
        return;
    };
    let k = 1 + rnd::usize_below(rng, all.len().min(3));
    let sel: Vec<String> = (0..k).map(|i| all[(i * 3) % all.len()].clone()).collect::<std::collections::BTreeSet<_>>().into_iter().collect();
    let Some(m) = mkmap::honest(&w, &sel.iter().map(|h| h.as_bytes().to_vec()).collect::<Vec<_>>(), mon) else { return };
    let forged_hash = hex::encode(rnd::bytes(rng, 32));
    let mut cases: Vec<(String, Vec<String>, MapProofM)> = vec![("identity".into(), sel.clone(), m.clone())];
    let mut added = sel.clone();
    added.push(forged_hash.clone());
    cases.push(("hash_added_foreign".into(), added, m.clone()));
    let mut ren = sel.clone();
    ren[0] = forged_hash.clone();
    cases.push(("hash_renamed".into(), ren, m.clone()));
    let mut trunc = sel.clone();
    trunc[0].pop();
    cases.push(("hash_truncated".into(), trunc, m.clone()));
    for place in 0..3u8 {
        let mut c = m.clone();
        let sub = &mut c.sub_proofs[0].1.master_proof;
        let first = sub.inner_leaves[0].clone();
        let new = (first.0, NodeM { hash: forged_hash.as_bytes().to_vec() });
        match place {
            0 => sub.inner_leaves.insert(1, new),
            1 => sub.inner_leaves.insert(0, new),
            _ => sub.inner_leaves.push(new),
        }
        cases.push((format!("forged_hash_with_duplicate_position_entry_{place}"), vec![forged_hash.clone()], c));
    }
    for (class, hashes, pm) in cases {
        mon.eval();
        mon.count(&format!("s:legacy:mutator:{class}"));
        let Some(p) = real_proof(&pm) else { continue };
        let sp = CardanoTransactionsSetProof::new(hashes.clone(), p);
        let ok = matches!(catch(|| sp.verify()), Ok(Ok(())));
        let accepted = ok && sp.merkle_root() == hex::encode(&w.root);
        mon.count(&format!("s:legacy:outcome:{}", if accepted { "Accepted" } else { "NotAccepted" }));
        let false_items: Vec<&String> = hashes.iter().filter(|h| !all.contains(h)).collect();
        if !false_items.is_empty() {
            mon.nontrivial_str(&format!("sl|{}|{:?}|{}", hex::encode(&w.root), hashes, hex::encode(bincode_encode(&pm))));
        }
        if class == "identity" && !accepted {
            crate::viol::report(mon, "C09 honest CardanoTransactionsSetProof rejected", || "verify rejected an honest proof".to_string(), || json!({"kind": "legacy-setproof", "map": w.to_json(), "proof": pm.to_json()}));
        }
        if accepted && !false_items.is_empty() {
            let shape = if class.starts_with("forged_hash_with_duplicate") {
                "entry with a duplicated position is skipped by verification but still listed"
            } else {
                "other"
            };
            crate::viol::report(mon, &format!("C09 set proof certifies an item that was never committed: {shape}"), || format!("[CardanoTransactionsSetProof] a transaction hash that was never committed is certified: hash {} is not committed; mutation class {class}", false_items[0]), || json!({"kind": "legacy-setproof", "map": w.to_json(), "proof": pm.to_json(), "hashes": hashes, "class": class}));
        }
    }
}

/// re-judge a stored `mksetproof-tx` witness (committed map, proof mirror, claimed transactions)
pub fn replay(r: &serde_json::Value, mon: &mut Monitor) -> bool {
    let (Some(RefNode::Map(top)), Some(m)) = (RefNode::from_json(&r["map"]), MapProofM::from_json(&r["proof"])) else { return false };
    let Ok(map) = MapWorld::new(top, vec![b"Tx/aa/bb/1/2".to_vec(), b"Tx/cc/bb/1/2".to_vec()]) else { return false };
    // committed transactions = the "Tx/<tx>/<block hash>/<number>/<slot>" leaves of the committed map
    let txs: Vec<CardanoTransaction> = map
        .bottom
        .iter()
        .filter_map(|l| {
            let s = String::from_utf8(l.clone()).ok()?;
            let p: Vec<&str> = s.split('/').collect();
            if p.len() == 5 && p[0] == "Tx" {
                Some(CardanoTransaction::new(p[1], BlockNumber(p[3].parse().ok()?), SlotNumber(p[4].parse().ok()?), p[2]))
            } else {
                None
            }
        })
        .collect();
    let Some(items) = r["items"].as_array().and_then(|a| {
        a.iter()
            .map(|e| Some(CardanoTransaction::new(e[0].as_str()?, BlockNumber(e[1].as_u64()?), SlotNumber(e[2].as_u64()?), e[3].as_str()?)))
            .collect::<Option<Vec<_>>>()
    }) else {
        return false;
    };
    let w = SetWorld { map, blocks: vec![], txs, ranges: vec![] };
    let accepted = judge_txs(&w, &items, &m, r["class"].as_str().unwrap_or("replay"), mon);
    println!("replay: MkSetProof<CardanoTransaction> case -> {}", if accepted { "Accepted" } else { "not accepted" });
    true
}
