//! C09 (a): the signer-registration Merkle tree of mithril-stm, reached through
//! `mithril_stm::verif_export` (cfg mithril_verif). The committed root is recomputed by
//! `refs::stm_root`; a candidate = (root, nr_leaves, leaves, batch path) handed to the real
//! `verify_leaves_membership_from_batch_path`; its claims are the pairs (indices[j], leaves[j]).
use crate::refs::{self, Bytes};
use mithril_stm::verif_export::{self as vx, BatchPath, Leaf, Tree};
use mithril_stm::{Initializer, Parameters, VerificationKeyForConcatenation as Vk};
use rand_chacha::ChaCha20Rng;
use serde_json::{json, Value};
use vcore::{catch, rnd, Monitor};

pub fn key_pool(mon: &Monitor, n: usize) -> Vec<Vk> {
    let mut rng = mon.rng("stm-key-pool", 0);
    let params = Parameters { m: 10, k: 5, phi_f: 0.5 };
    (0..n)
        .map(|i| Initializer::new(params, 1 + i as u64, &mut rng).get_verification_key_proof_of_possession_for_concatenation().vk)
        .collect()
}

pub fn leaf_bytes(l: &Leaf) -> Bytes {
    let mut b = l.0.to_bytes().to_vec();
    b.extend_from_slice(&l.1.to_be_bytes());
    b
}

fn leaf_from_bytes(b: &[u8]) -> Option<Leaf> {
    if b.len() != 104 {
        return None;
    }
    let vk = Vk::from_bytes(&b[..96]).ok()?;
    Some(vx::leaf(vk, u64::from_be_bytes(b[96..].try_into().ok()?)))
}

pub struct Ctx {
    pub n: usize,
    pub np2: usize,
    pub committed: Vec<Leaf>,
    pub committed_bytes: Vec<Bytes>,
    pub ref_root: Bytes,
    pub foreign: Vec<Leaf>,
    pub foreign_root: Bytes,
    pub rand_val: Bytes,
    pub z: Bytes,
}

impl Ctx {
    pub fn new(committed: Vec<Leaf>, foreign: Vec<Leaf>, rand_val: Bytes) -> Ctx {
        let committed_bytes: Vec<Bytes> = committed.iter().map(leaf_bytes).collect();
        let ref_root = refs::stm_root(&committed_bytes);
        let fb: Vec<Bytes> = foreign.iter().map(leaf_bytes).collect();
        let foreign_root = refs::stm_root(&fb);
        let n = committed.len();
        Ctx { n, np2: n.next_power_of_two(), committed, committed_bytes, ref_root, foreign, foreign_root, rand_val, z: refs::hb(&[&[0u8]]) }
    }
    /// Is the claim (index, leaf) true for the committed list? An index is relative to the number of
    /// leaves the verifier was given: index i under `presented_nr` leaves denotes the heap position
    /// i + 2^ceil(log2 presented_nr) - 1, and the claim is true when the committed tree holds that
    /// leaf at that heap position (for the committed nr_leaves this is simply committed[i] == leaf).
    pub fn claim_true(&self, index: usize, leaf: &Leaf, presented_nr: usize) -> bool {
        let pos = presented_nr.checked_next_power_of_two().and_then(|p| index.checked_add(p)).and_then(|x| x.checked_sub(1));
        match pos.and_then(|p| p.checked_sub(self.np2 - 1)) {
            Some(j) if j < self.n => self.committed_bytes[j] == leaf_bytes(leaf),
            _ => false,
        }
    }
    pub fn gen(pool: &[Vk], n: usize, with_duplicate: bool, rng: &mut ChaCha20Rng) -> Ctx {
        let base = rnd::below(rng, 1 << 40);
        let mut committed: Vec<Leaf> = (0..n).map(|i| vx::leaf(pool[(i * 7 + 3) % pool.len()], base + 1 + 3 * i as u64)).collect();
        if with_duplicate && n >= 3 {
            let a = rnd::usize_below(rng, n);
            let b = rnd::usize_below(rng, n);
            committed[a] = committed[b];
        }
        // foreign leaves: never committed (stakes far away from the committed ones)
        let foreign: Vec<Leaf> = (0..3).map(|i| vx::leaf(pool[(i * 5 + 1) % pool.len()], base + (1 << 50) + i as u64)).collect();
        Ctx::new(committed, foreign, rnd::bytes(rng, 32))
    }
}

#[derive(Clone, Debug)]
pub struct Case {
    pub root: Bytes,
    pub nr_leaves: usize,
    pub leaves: Vec<Leaf>,
    pub path: BatchPath,
}

impl Case {
    fn to_json(&self) -> Value {
        json!({"root": hex::encode(&self.root), "nr_leaves": self.nr_leaves,
               "leaves_hex": self.leaves.iter().map(|l| hex::encode(leaf_bytes(l))).collect::<Vec<_>>(),
               "indices": self.path.indices, "values_hex": self.path.values.iter().map(hex::encode).collect::<Vec<_>>()})
    }
    fn from_json(v: &Value) -> Option<Case> {
        Some(Case {
            root: hex::decode(v["root"].as_str()?).ok()?,
            nr_leaves: v["nr_leaves"].as_u64()? as usize,
            leaves: v["leaves_hex"].as_array()?.iter().map(|x| leaf_from_bytes(&hex::decode(x.as_str()?).ok()?)).collect::<Option<Vec<_>>>()?,
            path: BatchPath {
                values: v["values_hex"].as_array()?.iter().map(|x| hex::decode(x.as_str()?).ok()).collect::<Option<Vec<_>>>()?,
                indices: v["indices"].as_array()?.iter().map(|x| x.as_u64().map(|u| u as usize)).collect::<Option<Vec<_>>>()?,
            },
        })
    }
    fn key(&self) -> Vec<u8> {
        let mut k = self.root.clone();
        k.extend_from_slice(&(self.nr_leaves as u64).to_le_bytes());
        for l in &self.leaves {
            k.extend_from_slice(&leaf_bytes(l));
        }
        k.push(0xff);
        for i in &self.path.indices {
            k.extend_from_slice(&(*i as u64).to_le_bytes());
        }
        k.push(0xfe);
        for v in &self.path.values {
            k.extend_from_slice(&(v.len() as u32).to_le_bytes());
            k.extend_from_slice(v);
        }
        k
    }
}

#[derive(Clone, Debug)]
pub enum LSrc {
    Committed(usize),
    Foreign(usize),
    StakePlus1,
    OtherKeySameStake,
}

#[derive(Clone, Debug)]
pub enum Op {
    LeafTo { j: usize, src: LSrc },
    SetIndex { j: usize, p: usize, resort: bool },
    DupEntry { j: usize, src: Option<LSrc>, before: bool },
    SwapAdj { j: usize, with_leaves: bool },
    Reverse,
    /// what: 0 index and leaf, 1 index only, 2 leaf only
    DropEntry { j: usize, what: u8 },
    AddEntry { t: usize, src: LSrc },
    /// a foreign leaf appended (or prepended) WITHOUT an index: more leaves than indices
    ExtraLeaf { at_end: bool },
    ValFlip { v: usize },
    ValDrop { v: usize },
    /// kind: 0 H([0]) padding value, 1 random, 2 copy of the value at v
    ValInsert { v: usize, kind: u8 },
    ValSwap { v: usize },
    ValsClear,
    ValTrunc { v: usize },
    ValExtend { v: usize },
    NrLeaves(usize),
    /// 0 bit flip, 1 root of a foreign tree, 2 padding hash, 3 hash of leaf 0, 4 empty
    Root(u8),
    Empty,
}

impl Op {
    pub fn class(&self) -> String {
        let src = |s: &LSrc| match s {
            LSrc::Committed(_) => "other_committed_leaf",
            LSrc::Foreign(_) => "foreign_leaf",
            LSrc::StakePlus1 => "same_key_stake_plus_1",
            LSrc::OtherKeySameStake => "other_key_same_stake",
        };
        match self {
            Op::LeafTo { src: s, .. } => format!("leaf_replaced_by_{}", src(s)),
            Op::SetIndex { resort, .. } => format!("index_changed{}", if *resort { "_resorted" } else { "" }),
            Op::DupEntry { src: None, .. } => "index_duplicated".into(),
            Op::DupEntry { src: Some(s), before, .. } => format!("index_duplicated_with_{}_{}", src(s), if *before { "before" } else { "after" }),
            Op::SwapAdj { with_leaves, .. } => format!("unsorted_swap{}", if *with_leaves { "_with_leaves" } else { "_indices_only" }),
            Op::Reverse => "reversed".into(),
            Op::DropEntry { what, .. } => format!("entry_dropped_{}", ["both", "index_only", "leaf_only"][*what as usize % 3]),
            Op::AddEntry { src: s, .. } => format!("entry_added_{}", src(s)),
            Op::ExtraLeaf { at_end } => format!("foreign_leaf_without_index_{}", if *at_end { "appended" } else { "prepended" }),
            Op::ValFlip { .. } => "path_value_bitflip".into(),
            Op::ValDrop { .. } => "path_value_dropped".into(),
            Op::ValInsert { kind, .. } => format!("path_value_inserted_{}", ["padding_hash", "random", "copy"][*kind as usize % 3]),
            Op::ValSwap { .. } => "path_values_swapped".into(),
            Op::ValsClear => "path_values_cleared".into(),
            Op::ValTrunc { .. } => "path_value_truncated".into(),
            Op::ValExtend { .. } => "path_value_extended".into(),
            Op::NrLeaves(_) => "nr_leaves_altered".into(),
            Op::Root(k) => format!("root_altered_{}", ["bitflip", "foreign_tree_root", "padding_hash", "leaf_hash", "empty"][*k as usize % 5]),
            Op::Empty => "empty_batch".into(),
        }
    }
}

fn resolve(src: &LSrc, cur: &Leaf, ctx: &Ctx) -> Option<Leaf> {
    let l = match src {
        LSrc::Committed(t) => *ctx.committed.get(*t)?,
        LSrc::Foreign(u) => ctx.foreign[*u % ctx.foreign.len()],
        LSrc::StakePlus1 => vx::leaf(cur.0, cur.1.wrapping_add(1)),
        LSrc::OtherKeySameStake => {
            let k = ctx.foreign.iter().map(|f| f.0).find(|k| k.to_bytes() != cur.0.to_bytes())?;
            vx::leaf(k, cur.1)
        }
    };
    if leaf_bytes(&l) == leaf_bytes(cur) {
        None
    } else {
        Some(l)
    }
}

pub fn apply(c: &Case, op: &Op, ctx: &Ctx) -> Option<Case> {
    let mut o = c.clone();
    let k = o.path.indices.len();
    match op {
        Op::LeafTo { j, src } => {
            let cur = *o.leaves.get(*j)?;
            o.leaves[*j] = resolve(src, &cur, ctx)?;
        }
        Op::SetIndex { j, p, resort } => {
            if *j >= k || *j >= o.leaves.len() || o.path.indices[*j] == *p {
                return None;
            }
            o.path.indices[*j] = *p;
            if *resort {
                let mut pairs: Vec<(usize, Leaf)> = o.path.indices.iter().copied().zip(o.leaves.iter().copied()).collect();
                pairs.sort_by_key(|x| x.0);
                o.path.indices = pairs.iter().map(|x| x.0).collect();
                o.leaves = pairs.iter().map(|x| x.1).collect();
            }
        }
        Op::DupEntry { j, src, before } => {
            let idx = *o.path.indices.get(*j)?;
            let cur = *o.leaves.get(*j)?;
            let l = match src {
                None => cur,
                Some(s) => resolve(s, &cur, ctx)?,
            };
            let at = if *before { *j } else { *j + 1 };
            o.path.indices.insert(at, idx);
            o.leaves.insert(at, l);
        }
        Op::SwapAdj { j, with_leaves } => {
            if *j + 1 >= k || *j + 1 >= o.leaves.len() || o.path.indices[*j] == o.path.indices[*j + 1] {
                return None;
            }
            o.path.indices.swap(*j, *j + 1);
            if *with_leaves {
                o.leaves.swap(*j, *j + 1);
            }
        }
        Op::Reverse => {
            if k < 2 {
                return None;
            }
            o.path.indices.reverse();
            o.leaves.reverse();
        }
        Op::DropEntry { j, what } => {
            if *j >= k || *j >= o.leaves.len() {
                return None;
            }
            if *what != 2 {
                o.path.indices.remove(*j);
            }
            if *what != 1 {
                o.leaves.remove(*j);
            }
        }
        Op::AddEntry { t, src } => {
            if o.path.indices.contains(t) || *t >= ctx.n {
                return None;
            }
            let l = match src {
                LSrc::Committed(x) => *ctx.committed.get(*x)?,
                other => resolve(other, &ctx.committed[*t], ctx)?,
            };
            let at = o.path.indices.iter().position(|i| *i > *t).unwrap_or(k);
            o.path.indices.insert(at, *t);
            o.leaves.insert(at.min(o.leaves.len()), l);
        }
        Op::ExtraLeaf { at_end } => {
            let l = ctx.foreign[0];
            if *at_end {
                o.leaves.push(l);
            } else {
                o.leaves.insert(0, l);
            }
        }
        Op::ValFlip { v } => {
            *o.path.values.get_mut(*v)?.first_mut()? ^= 0x10;
        }
        Op::ValDrop { v } => {
            if *v >= o.path.values.len() {
                return None;
            }
            o.path.values.remove(*v);
        }
        Op::ValInsert { v, kind } => {
            if *v > o.path.values.len() {
                return None;
            }
            let val = match kind {
                0 => ctx.z.clone(),
                1 => ctx.rand_val.clone(),
                _ => o.path.values.get(*v).cloned()?,
            };
            o.path.values.insert(*v, val);
        }
        Op::ValSwap { v } => {
            if *v + 1 >= o.path.values.len() || o.path.values[*v] == o.path.values[*v + 1] {
                return None;
            }
            o.path.values.swap(*v, *v + 1);
        }
        Op::ValsClear => {
            if o.path.values.is_empty() {
                return None;
            }
            o.path.values.clear();
        }
        Op::ValTrunc { v } => {
            o.path.values.get_mut(*v)?.pop()?;
        }
        Op::ValExtend { v } => {
            o.path.values.get_mut(*v)?.push(0);
        }
        Op::NrLeaves(x) => {
            if o.nr_leaves == *x {
                return None;
            }
            o.nr_leaves = *x;
        }
        Op::Root(kind) => {
            let new = match kind {
                0 => {
                    let mut r = o.root.clone();
                    *r.last_mut()? ^= 1;
                    r
                }
                1 => ctx.foreign_root.clone(),
                2 => ctx.z.clone(),
                3 => refs::hb(&[&ctx.committed_bytes[0]]),
                _ => vec![],
            };
            if new == o.root {
                return None;
            }
            o.root = new;
        }
        Op::Empty => {
            o.path.indices.clear();
            o.leaves.clear();
        }
    }
    Some(o)
}

pub fn enumerate_ops(c: &Case, ctx: &Ctx, exhaustive: bool, rng: &mut ChaCha20Rng) -> Vec<Op> {
    let mut ops = vec![];
    let (n, np2) = (ctx.n, ctx.np2);
    let k = c.path.indices.len();
    let unselected: Vec<usize> = (0..n).filter(|i| !c.path.indices.contains(i)).collect();
    for j in 0..k {
        let own = c.path.indices[j];
        if exhaustive {
            for t in 0..n {
                if t != own {
                    ops.push(Op::LeafTo { j, src: LSrc::Committed(t) });
                }
            }
            // every other position: committed ones, padding positions n..np2, and beyond
            for p in 0..np2 + 3 {
                ops.push(Op::SetIndex { j, p, resort: false });
                ops.push(Op::SetIndex { j, p, resort: true });
            }
        } else {
            for _ in 0..3 {
                ops.push(Op::LeafTo { j, src: LSrc::Committed(rnd::usize_below(rng, n)) });
            }
            let mut ps = vec![own.wrapping_sub(1), own + 1, own ^ 1, n - 1, n, n + 1, np2 - 1, np2, np2 + 1, 0];
            for _ in 0..3 {
                ps.push(rnd::usize_below(rng, np2 + 2));
            }
            for p in ps {
                ops.push(Op::SetIndex { j, p, resort: false });
                ops.push(Op::SetIndex { j, p, resort: true });
            }
        }
        // hostile indices: overflow of i + 2^h - 1, wrap-around onto inner nodes in release builds
        let wrap = |t: usize| usize::MAX.wrapping_sub(np2).wrapping_add(2).wrapping_add(t);
        for p in [usize::MAX, usize::MAX - 1, wrap(0), wrap(1), wrap(2), 1usize << 63, (1usize << 62) + own] {
            ops.push(Op::SetIndex { j, p, resort: true });
        }
        for src in [LSrc::Foreign(0), LSrc::Foreign(1), LSrc::StakePlus1, LSrc::OtherKeySameStake] {
            ops.push(Op::LeafTo { j, src });
        }
        ops.push(Op::DupEntry { j, src: None, before: false });
        for before in [false, true] {
            ops.push(Op::DupEntry { j, src: Some(LSrc::Foreign(0)), before });
            if let Some(t) = unselected.first().copied().or_else(|| (0..n).find(|t| *t != own)) {
                ops.push(Op::DupEntry { j, src: Some(LSrc::Committed(t)), before });
            }
        }
        ops.push(Op::SwapAdj { j, with_leaves: false });
        ops.push(Op::SwapAdj { j, with_leaves: true });
        for what in 0..3 {
            ops.push(Op::DropEntry { j, what });
        }
    }
    let extra: Vec<usize> = if exhaustive {
        unselected.clone()
    } else {
        (0..3).filter_map(|_| if unselected.is_empty() { None } else { Some(*rnd::pick(rng, &unselected)) }).collect()
    };
    for t in extra {
        ops.push(Op::AddEntry { t, src: LSrc::Committed(t) });
        ops.push(Op::AddEntry { t, src: LSrc::Foreign(0) });
    }
    ops.push(Op::Reverse);
    ops.push(Op::ExtraLeaf { at_end: true });
    ops.push(Op::ExtraLeaf { at_end: false });
    let nv = c.path.values.len();
    for v in 0..nv {
        ops.push(Op::ValFlip { v });
        ops.push(Op::ValDrop { v });
        ops.push(Op::ValSwap { v });
        ops.push(Op::ValTrunc { v });
        ops.push(Op::ValExtend { v });
    }
    for v in 0..=nv {
        for kind in 0..3 {
            ops.push(Op::ValInsert { v, kind });
        }
    }
    ops.push(Op::ValsClear);
    for x in [n.wrapping_sub(1), n + 1, np2, np2 + 1, np2 / 2, np2 * 2, 0, 1, usize::MAX, (usize::MAX >> 1) + 1, n + 2] {
        ops.push(Op::NrLeaves(x));
    }
    for kind in 0..5 {
        ops.push(Op::Root(kind));
    }
    ops.push(Op::Empty);
    ops
}

#[derive(Clone, Copy, PartialEq, Eq, Debug)]
pub enum Outcome {
    Accepted,
    Rejected,
    Panicked,
}

fn witness_shape(c: &Case, ctx: &Ctx) -> &'static str {
    if c.root != ctx.ref_root {
        return "verifies against an altered root";
    }
    if c.leaves.len() != c.path.indices.len() {
        return "number of leaves differs from number of indices";
    }
    if c.nr_leaves != ctx.n {
        return "altered nr_leaves";
    }
    if c.path.indices.iter().any(|i| *i >= ctx.n) {
        return "index outside the committed leaves (padding position or beyond)";
    }
    let mut s = c.path.indices.clone();
    s.sort();
    if s.windows(2).any(|w| w[0] == w[1]) {
        return "duplicated index";
    }
    if c.path.indices.windows(2).any(|w| w[0] > w[1]) {
        return "unsorted indices";
    }
    "leaf not committed at the stated index"
}

pub fn judge(ctx: &Ctx, c: &Case, class: &str, mon: &mut Monitor) -> Outcome {
    mon.eval();
    let cc = crate::viol::counter_class(class);
    mon.count(&format!("a:mutator:{cc}"));
    let r = catch(|| vx::verify_batch_path(&c.root, c.nr_leaves, &c.leaves, &c.path));
    let o = match &r {
        Ok(Ok(())) => Outcome::Accepted,
        Ok(Err(_)) => Outcome::Rejected,
        Err(p) => {
            mon.count(&format!("verifier_panic@{}", vcore::panic_location(p)));
            Outcome::Panicked
        }
    };
    mon.count(&format!("a:outcome:{o:?}"));
    let len_mismatch = c.leaves.len() != c.path.indices.len();
    let false_claims: Vec<(usize, String)> = c
        .path
        .indices
        .iter()
        .zip(c.leaves.iter())
        .filter(|(i, l)| !ctx.claim_true(**i, l, c.nr_leaves))
        .map(|(i, l)| (*i, hex::encode(leaf_bytes(l))))
        .collect();
    let altered_root = c.root != ctx.ref_root;
    let nontrivial = altered_root || len_mismatch || !false_claims.is_empty();
    if nontrivial {
        let mut k = b"a|".to_vec();
        k.extend_from_slice(&ctx.ref_root);
        k.extend_from_slice(&c.key());
        mon.nontrivial(&k);
    }
    if o == Outcome::Accepted {
        if nontrivial {
            let shape = witness_shape(c, ctx);
            crate::viol::report(mon, &format!("C09 STM batch path accepted although it vouches for something not committed: {shape}"), || format!(
                    "verify_leaves_membership_from_batch_path = Ok for a tree of {} committed leaves; false (index, leaf) claims: {:?}; root altered: {altered_root}; nr_leaves presented: {}; mutation class {class}",
                    ctx.n,
                    false_claims.iter().take(3).collect::<Vec<_>>(),
                    c.nr_leaves
                ), || json!({"kind": "stm", "committed_leaves_hex": ctx.committed_bytes.iter().map(hex::encode).collect::<Vec<_>>(),
                       "case": c.to_json(), "class": class, "witness_shape": shape}));
        } else if class != "identity" {
            mon.count("a:verifies_but_claims_true");
            mon.count(&format!("a:verifies_but_claims_true:{cc}"));
        }
    }
    o
}

/// honest batch path for `sel` (sorted leaf indices): generation agrees with the reference, verifies
pub fn honest(ctx: &Ctx, tree: &Tree, commitment: &(Bytes, usize), sel: &[usize], mon: &mut Monitor) -> Option<Case> {
    let path = match catch(|| tree.batch_path(sel.to_vec())) {
        Ok(p) => p,
        Err(p) => {
            crate::viol::report(mon, "C09 STM batch path generation panics for committed indices", || p.to_string(), || json!({"kind": "stm-gen", "n": ctx.n, "selection": sel}));
            return None;
        }
    };
    mon.count("a:honest_proofs");
    if path.indices != sel {
        crate::viol::report(mon, "C09 STM generated batch path lists other indices than requested", || format!("{:?} vs {:?}", path.indices, sel), || json!({"kind": "stm-gen", "n": ctx.n, "selection": sel}));
    }
    let c = Case { root: commitment.0.clone(), nr_leaves: commitment.1, leaves: sel.iter().map(|i| ctx.committed[*i]).collect(), path };
    if judge(ctx, &c, "identity", mon) != Outcome::Accepted {
        crate::viol::report(mon, "C09 honest STM batch path rejected", || "verify_leaves_membership_from_batch_path rejected a freshly generated batch path".to_string(), || json!({"kind": "stm", "committed_leaves_hex": ctx.committed_bytes.iter().map(hex::encode).collect::<Vec<_>>(), "case": c.to_json(), "class": "identity"}));
    }
    Some(c)
}

pub fn open_tree(ctx: &Ctx, mon: &mut Monitor) -> Option<(Tree, (Bytes, usize))> {
    let tree = match catch(|| Tree::new(&ctx.committed)) {
        Ok(t) => t,
        Err(p) => {
            mon.inconclusive(&format!("MerkleTree::new panicked: {p}"));
            return None;
        }
    };
    let commitment = tree.commitment();
    if commitment.0 != ctx.ref_root || commitment.1 != ctx.n {
        crate::viol::report(mon, "C09 STM tree commitment disagrees with the reference heap tree", || format!("root equal: {}, nr_leaves {} vs {}", commitment.0 == ctx.ref_root, commitment.1, ctx.n), || json!({"kind": "stm-gen", "committed_leaves_hex": ctx.committed_bytes.iter().map(hex::encode).collect::<Vec<_>>()}));
    }
    Some((tree, commitment))
}

pub fn run_selection(ctx: &Ctx, tree: &Tree, commitment: &(Bytes, usize), sel: &[usize], exhaustive: bool, pairs: usize, rng: &mut ChaCha20Rng, mon: &mut Monitor) {
    let Some(c) = honest(ctx, tree, commitment, sel, mon) else { return };
    if mon.wants_sample() && sel.len() >= 2 && ctx.n >= 5 && ctx.n != ctx.np2 {
        mon.sample(json!({"part": "a", "committed_leaves": ctx.n, "selection": sel, "path_values": c.path.values.len(),
            "root": hex::encode(&c.root),
            "example_mutation_classes": ["index_changed_resorted (to every position incl. padding n..2^h and beyond)", "leaf_replaced_by_other_committed_leaf", "path_value_inserted_padding_hash", "nr_leaves_altered"]}));
    }
    let ops = enumerate_ops(&c, ctx, exhaustive, rng);
    for op in &ops {
        if let Some(x) = apply(&c, op, ctx) {
            judge(ctx, &x, &op.class(), mon);
        }
    }
    for _ in 0..pairs {
        let a = rnd::pick(rng, &ops);
        let b = rnd::pick(rng, &ops);
        if matches!(a, Op::Root(_)) || matches!(b, Op::Root(_)) {
            continue;
        }
        if let Some(x) = apply(&c, a, ctx).and_then(|x| apply(&x, b, ctx)) {
            judge(ctx, &x, &format!("pair:{}+{}", a.class(), b.class()), mon);
        }
    }
    // wire form of the path: CBOR round trip keeps the value
    if rnd::chance(rng, 1, 16) {
        match catch(|| vx::batch_path_to_bytes(&c.path).and_then(|b| vx::batch_path_from_bytes(&b))) {
            Ok(Ok(p2)) if p2 == c.path => mon.count("a:path_bytes_roundtrip_ok"),
            _ => crate::viol::report(mon, "C09 STM batch path does not survive to_bytes/from_bytes", || "round trip differs".to_string(), || json!({"kind": "stm", "case": c.to_json()})),
        }
    }
}

pub fn replay(v: &Value, mon: &mut Monitor) -> bool {
    let Some(leaves) = v["committed_leaves_hex"]
        .as_array()
        .and_then(|a| a.iter().map(|x| leaf_from_bytes(&hex::decode(x.as_str()?).ok()?)).collect::<Option<Vec<_>>>())
    else {
        return false;
    };
    let Some(c) = Case::from_json(&v["case"]) else { return false };
    let ctx = Ctx::new(leaves.clone(), vec![leaves[0]], vec![0; 32]);
    let o = judge(&ctx, &c, v["class"].as_str().unwrap_or("replay"), mon);
    println!("replay: stm case -> {o:?}");
    true
}
