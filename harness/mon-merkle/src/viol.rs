//! Violation reporting helper: counts every witness per signature (`witness:<signature>` counters,
//! visible in the evidence) and builds the - possibly large - replay document only for the first
//! witnesses of a signature in each shard (the monitor keeps at most 3 per signature anyway).
use serde_json::Value;
use vcore::Monitor;

pub fn report(mon: &mut Monitor, signature: &str, what: impl FnOnce() -> String, replay: impl FnOnce() -> Value) {
    let key = format!("witness:{signature}");
    let seen = mon.counter(&key);
    mon.count(&key);
    if seen < 3 {
        mon.violation(signature, &what(), replay());
    } else {
        mon.violation(signature, "(details are kept for the first witnesses of this class in each shard)", Value::Null);
    }
}

/// counters are kept per mutation class; sampled pairs share one class
pub fn counter_class(class: &str) -> &str {
    if class.starts_with("pair:") {
        "pair"
    } else {
        class
    }
}
