//! L3 runner of mon-pool (C18): the same engine (workloads + oracle) as the stable monitor, sized for
//! Miri (a few hundred pool calls per process; the Miri seed selects the interleaving) or, with
//! `--native`, for a ThreadSanitizer build.  Output is line oriented and parsed by mon-pool:
//!   L3-COUNT key=value | L3-ORDER <hex hashes of refresh-window event orders> | L3-FINDING sig || what | L3-DONE
#[path = "../../../src/engine.rs"]
mod engine;

use engine::*;
use rand_core::RngCore;
use std::collections::BTreeMap;

fn main() {
    let mut runs = 2u64;
    let mut seed = 0u64;
    let mut ops = 0u64;
    let mut native = false;
    let mut it = std::env::args().skip(1);
    while let Some(a) = it.next() {
        match a.as_str() {
            "--runs" => runs = it.next().and_then(|s| s.parse().ok()).unwrap_or(runs),
            "--seed" => seed = it.next().and_then(|s| s.parse().ok()).unwrap_or(seed),
            "--ops" => ops = it.next().and_then(|s| s.parse().ok()).unwrap_or(ops),
            "--native" => native = true,
            _ => {}
        }
    }
    let hooks = set_process_hook(true);
    let mut counters: BTreeMap<String, u64> = BTreeMap::new();
    let mut add = |k: &str, v: u64| *counters.entry(k.to_string()).or_insert(0) += v;
    add("hooks_compiled", hooks as u64);
    let mut orders: Vec<String> = vec![];
    let mut findings: Vec<(String, String)> = vec![];
    let mut seed32 = [0u8; 32];
    seed32[..8].copy_from_slice(&seed.to_le_bytes());
    seed32[8..16].copy_from_slice(b"C18-L3\0\0");
    // a few single-threaded histories first (UB / aliasing checks of the sequential paths under Miri)
    let mut rng = rng_from(seed32, 1);
    for _ in 0..(if native { 200 } else { 6 }) {
        let case = gen_l1_case(&mut rng);
        let out = run_l1(&case);
        let rep = check(&out.log, case.size);
        add("l1_histories", 1);
        add("pool_calls", out.ops);
        for f in rep.findings {
            findings.push((f.sig.to_string(), format!("[L1 {}] {}", case.key(), f.what)));
        }
    }
    for run in 0..runs {
        let mut rng = rng_from(seed32, 100 + run);
        let total = if ops > 0 { ops } else { 50 + below(&mut rng, 110) };
        let with_delay = run % 2 == 1;
        let mut cfg = gen_l2_cfg(&mut rng, total, with_delay, !native, if native { 7 } else { 3 });
        if !native {
            cfg.refresh_every = [6u64, 12, 30][below(&mut rng, 3) as usize];
        }
        let mut s = [0u8; 32];
        rng.fill_bytes(&mut s);
        let out = run_l2(&cfg, s);
        let rep = check(&out.log, cfg.size);
        add("runs", 1);
        add("pool_calls", out.ops);
        add("events", out.log.len() as u64);
        add("threads_total", cfg.workers as u64 + 1);
        for (k, v) in &rep.counters {
            if !k.contains(".max_") {
                add(k, *v);
            }
        }
        for i in 0..4 {
            add(&format!("hook_hits.{}", POINTS[i]), out.hook.hits[i]);
            add(&format!("hook_delays.{}", POINTS[i]), out.hook.delays[i]);
        }
        for e in &out.errors {
            findings.push(("HARNESS-ERROR".into(), e.clone()));
        }
        for w in &rep.windows {
            add("windows", 1);
            if w.foreign_inside > 0 || w.stale_give_backs > 0 {
                add("windows_nontrivial", 1);
                orders.push(format!("{:016x}", w.fine));
            }
        }
        let mut seen: Vec<&str> = vec![];
        for f in &rep.findings {
            if seen.contains(&f.sig) {
                continue;
            }
            seen.push(f.sig);
            findings.push((f.sig.to_string(), format!("[run {run}, {} threads, size {}] {}", cfg.workers + 1, cfg.size, f.what)));
        }
    }
    for (k, v) in &counters {
        println!("L3-COUNT {k}={v}");
    }
    for chunk in orders.chunks(16) {
        println!("L3-ORDER {}", chunk.join(" "));
    }
    for (sig, what) in &findings {
        println!("L3-FINDING {sig} || {}", what.replace('\n', " "));
    }
    println!("L3-DONE");
}
