//! Stand-in for `mithril-common`, L3 (Miri / TSan) only: `StdResult` and the names used by
//! `impl Reset for MKMap` in resource_pool.rs. The pool logic itself is compiled unchanged from /repo.
pub type StdError = anyhow::Error;
pub type StdResult<T> = anyhow::Result<T, StdError>;
pub mod crypto_helper {
    use std::marker::PhantomData;
    pub trait MKMapKey {}
    pub trait MKMapValue<K: MKMapKey> {}
    pub trait MKTreeStorer {}
    pub struct MKMap<K: MKMapKey, V: MKMapValue<K>, S: MKTreeStorer>(PhantomData<(K, V, S)>);
    impl<K: MKMapKey, V: MKMapValue<K>, S: MKTreeStorer> MKMap<K, V, S> {
        pub fn compress(&mut self) -> crate::StdResult<()> {
            Ok(())
        }
    }
}
