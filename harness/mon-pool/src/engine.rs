//! engine: event log, instrumented pool operations, workloads (L1 single-threaded histories, L2
//! OS-thread stress, wake-up scenarios) and the C18 oracle.
//!
//! Shared, through `#[path]`, by `mon-pool` (stable toolchain) and by `l3/runner` (Miri / TSan).
//! Depends only on std, rand_chacha/rand_core, anyhow and the pool under test.
//!
//! The pool under test is the real `mithril_resource_pool::ResourcePool` of /repo. Nothing of it is
//! re-implemented here: the harness only owns the *resources* (`Res`, tagged with the generation
//! under which they were created), the *callers* (workers / refresher, the latter performing exactly
//! the prover's `compute_cache` sequence) and the *oracle* over the recorded events.
//!
//! Event stamps: ONE `AtomicU64::fetch_add(SeqCst)` counter per run, shared by all threads of the run.
//! Every thread appends to its own `Vec<Ev>`; logs are merged (sorted by stamp) after the threads
//! joined. `*_call` stamps are taken immediately before the pool call, `*_return` stamps immediately
//! after it returned, so that [call, return] encloses the linearisation point of the pool operation
//! and `a.return < b.call` implies that a happened before b.
#![allow(dead_code)]

use mithril_resource_pool::{Reset, ResourcePool, ResourcePoolError, ResourcePoolItem};
use rand_chacha::ChaCha20Rng;
use rand_core::{RngCore, SeedableRng};
use std::cell::RefCell;
use std::collections::{BTreeMap, HashMap};
use std::sync::atomic::{AtomicU64, AtomicUsize, Ordering};
use std::time::{Duration, Instant};

// ---------------------------------------------------------------------------------------------
// signatures (exact witness classes)

pub const SIG_ITEM: &str = "C18 stale resource re-admitted via give_back_resource_pool_item";
pub const SIG_LABEL: &str = "C18 stale resource labelled with the new generation at acquire";
pub const SIG_SIZE_CONC: &str = "C18 pool exceeds its size (concurrent give-backs)";
pub const SIG_SIZE_SEQ: &str = "C18 pool exceeds its size (sequential give-backs)";
pub const SIG_DROP_STALE: &str =
    "C18 stale resource re-admitted via drop of an item carrying its own old generation";
pub const SIG_RAW_STALE: &str = "C18 stale resource admitted via raw give_back_resource with a stale tag";
pub const SIG_SURVIVED: &str = "C18 stale resource survived clear()";
pub const SIG_LATE_ADMIT: &str =
    "C18 give-back begun before the generation change admitted after clear()";
pub const SIG_DOUBLE: &str = "C18 resource held by two holders at once";
pub const SIG_UNCLASSIFIED: &str = "C18 stale resource served (unclassified re-admission path)";

// ---------------------------------------------------------------------------------------------
// resources

/// A pooled resource of the harness: identity + the generation under which it was created.
pub struct Res {
    pub id: u64,
    pub generation: u64,
    pub resets: u32,
    pub dirty: bool,
}

impl Reset for Res {
    fn reset(&mut self) -> anyhow::Result<()> {
        self.resets += 1;
        self.dirty = false;
        Ok(())
    }
}

// ---------------------------------------------------------------------------------------------
// events

pub const NO_ID: u64 = u64::MAX;

#[derive(Clone, Copy, Debug, PartialEq, Eq, Hash)]
#[repr(u8)]
pub enum Kind {
    AcqCall = 0,
    AcqRet = 1,
    AcqTimeout = 2,
    GiveCall = 3,
    GiveRet = 4,
    RefBegin = 5,
    RefSet = 6,
    RefCleared = 7,
    RefComplete = 8,
    Count = 9,
    ResetAvail = 10,
    RawPrep = 11,
}

/// give-back styles
pub const HOW_ITEM: u8 = 0; // pool.give_back_resource_pool_item(item)
pub const HOW_DROP: u8 = 1; // drop(item)
pub const HOW_RAW: u8 = 2; // pool.give_back_resource(res, tag) by a worker, tag = generation it built res for
pub const HOW_REFILL: u8 = 3; // pool.give_back_resource(fresh, g) by the refresher

pub fn how_name(h: u8) -> &'static str {
    match h {
        HOW_ITEM => "give_back_resource_pool_item",
        HOW_DROP => "drop",
        HOW_RAW => "raw give_back_resource(own tag)",
        HOW_REFILL => "refresher give_back_resource(fresh, g)",
        _ => "?",
    }
}

#[derive(Clone, Copy, Debug)]
pub struct Ev {
    pub seq: u64,
    /// resource id (NO_ID when not applicable)
    pub id: u64,
    /// for *_return events: the stamp of the matching call
    pub ref_seq: u64,
    /// generation tag carried by the resource (or generation of the refresh)
    pub gen: u32,
    /// AcqRet / GiveCall(item, drop): `item.discriminant()`; GiveCall(raw): tag passed; AcqTimeout: timeout us
    pub label: u32,
    /// Count: n; AcqRet/AcqTimeout: wall duration of the call in us
    pub aux: u32,
    pub t: u16,
    pub kind: Kind,
    pub how: u8,
}

impl std::fmt::Display for Ev {
    fn fmt(&self, f: &mut std::fmt::Formatter<'_>) -> std::fmt::Result {
        write!(f, "#{} t{} ", self.seq, self.t)?;
        match self.kind {
            Kind::AcqCall => write!(f, "acquire_call"),
            Kind::AcqRet => write!(
                f,
                "acquire_return(call #{}) id={} resource_generation={} item.discriminant()={}{}",
                self.ref_seq,
                self.id,
                self.gen,
                self.label,
                if self.how & 1 == 1 { " NOT-RESET" } else { "" }
            ),
            Kind::AcqTimeout => {
                write!(f, "acquire_return(call #{}) AcquireTimeout after {}us (timeout {}us)", self.ref_seq, self.aux, self.label)
            }
            Kind::GiveCall => write!(
                f,
                "give_back_call how={} id={} resource_generation={} tag={}",
                how_name(self.how),
                self.id,
                self.gen,
                self.label
            ),
            Kind::GiveRet => write!(f, "give_back_return(call #{}) id={}", self.ref_seq, self.id),
            Kind::RefBegin => write!(f, "refresh_begin"),
            Kind::RefSet => write!(f, "refresh set_discriminant({}) returned", self.gen),
            Kind::RefCleared => write!(f, "refresh clear() returned (generation {})", self.gen),
            Kind::RefComplete => write!(f, "refresh_complete({})", self.gen),
            Kind::Count => write!(f, "count() = {} (called at #{})", self.aux, self.ref_seq),
            Kind::ResetAvail => write!(f, "reset_available_resources()"),
            Kind::RawPrep => write!(f, "raw resource id={} built for generation {} (pool.discriminant() read)", self.id, self.gen),
        }
    }
}

pub struct Shared {
    pub seq: AtomicU64,
    pub ids: AtomicU64,
}

impl Shared {
    pub fn new(first_free_id: u64) -> Self {
        Shared { seq: AtomicU64::new(1), ids: AtomicU64::new(first_free_id) }
    }
}

pub struct Held<'p> {
    pub item: ResourcePoolItem<'p, Res>,
    pub id: u64,
    pub gen: u32,
    pub label: u32,
}

pub struct RawRes {
    pub res: Res,
    pub tag: u64,
}

/// Per-thread instrumented view of the pool.
pub struct Ctx<'p> {
    pub pool: &'p ResourcePool<Res>,
    pub shared: &'p Shared,
    pub t: u16,
    pub log: Vec<Ev>,
    pub errors: Vec<String>,
    pub ops: u64,
}

impl<'p> Ctx<'p> {
    pub fn new(pool: &'p ResourcePool<Res>, shared: &'p Shared, t: u16) -> Self {
        Ctx { pool, shared, t, log: Vec::new(), errors: Vec::new(), ops: 0 }
    }
    #[inline]
    fn stamp(&self) -> u64 {
        self.shared.seq.fetch_add(1, Ordering::SeqCst)
    }
    #[inline]
    fn ev(&mut self, seq: u64, kind: Kind) -> &mut Ev {
        self.log.push(Ev { seq, id: NO_ID, ref_seq: 0, gen: 0, label: 0, aux: 0, t: self.t, kind, how: 0 });
        self.log.last_mut().unwrap()
    }
    fn err(&mut self, e: String) {
        if self.errors.len() < 5 {
            self.errors.push(e);
        }
    }

    pub fn acquire(&mut self, timeout: Duration) -> Option<Held<'p>> {
        self.ops += 1;
        let call = self.stamp();
        self.ev(call, Kind::AcqCall);
        let t0 = Instant::now();
        let r = self.pool.acquire_resource(timeout);
        let ret = self.stamp();
        let dur = t0.elapsed().as_micros().min(u32::MAX as u128) as u32;
        match r {
            Ok(item) => {
                let (id, gen, label, dirty) =
                    (item.id, item.generation as u32, item.discriminant() as u32, item.dirty);
                let e = self.ev(ret, Kind::AcqRet);
                e.id = id;
                e.ref_seq = call;
                e.gen = gen;
                e.label = label;
                e.aux = dur;
                e.how = dirty as u8;
                Some(Held { item, id, gen, label })
            }
            Err(err) => {
                let timed_out =
                    matches!(err.downcast_ref::<ResourcePoolError>(), Some(ResourcePoolError::AcquireTimeout));
                let e = self.ev(ret, Kind::AcqTimeout);
                e.ref_seq = call;
                e.label = timeout.as_micros().min(u32::MAX as u128) as u32;
                e.aux = dur;
                if !timed_out {
                    self.err(format!("acquire_resource failed with an error other than AcquireTimeout: {err:#}"));
                }
                None
            }
        }
    }

    fn give_call(&mut self, how: u8, id: u64, gen: u32, tag: u32) -> u64 {
        self.ops += 1;
        let call = self.stamp();
        let e = self.ev(call, Kind::GiveCall);
        e.how = how;
        e.id = id;
        e.gen = gen;
        e.label = tag;
        call
    }
    fn give_ret(&mut self, call: u64, id: u64, how: u8) {
        let ret = self.stamp();
        let e = self.ev(ret, Kind::GiveRet);
        e.ref_seq = call;
        e.id = id;
        e.how = how;
    }

    /// the prover's happy path: `pool.give_back_resource_pool_item(item)`
    pub fn give_back_item(&mut self, h: Held<'p>) {
        let call = self.give_call(HOW_ITEM, h.id, h.gen, h.label);
        let r = self.pool.give_back_resource_pool_item(h.item);
        self.give_ret(call, h.id, HOW_ITEM);
        if let Err(e) = r {
            self.err(format!("give_back_resource_pool_item failed: {e:#}"));
        }
    }

    /// the prover's error path (`?` between acquire and give back): the item is dropped
    pub fn give_back_drop(&mut self, h: Held<'p>) {
        let call = self.give_call(HOW_DROP, h.id, h.gen, h.label);
        drop(h.item);
        self.give_ret(call, h.id, HOW_DROP);
    }

    /// build a resource for the pool's current generation (reads `pool.discriminant()`)
    pub fn raw_prepare(&mut self) -> Option<RawRes> {
        self.ops += 1;
        let d = match self.pool.discriminant() {
            Ok(d) => d,
            Err(e) => {
                self.err(format!("discriminant failed: {e:#}"));
                return None;
            }
        };
        let id = self.shared.ids.fetch_add(1, Ordering::Relaxed);
        let s = self.stamp();
        let e = self.ev(s, Kind::RawPrep);
        e.id = id;
        e.gen = d as u32;
        Some(RawRes { res: Res { id, generation: d, resets: 0, dirty: false }, tag: d })
    }

    /// `pool.give_back_resource(res, tag)` with the tag the resource was built for
    pub fn raw_give(&mut self, r: RawRes) {
        let (id, gen) = (r.res.id, r.res.generation as u32);
        let call = self.give_call(HOW_RAW, id, gen, r.tag as u32);
        let res = self.pool.give_back_resource(r.res, r.tag);
        self.give_ret(call, id, HOW_RAW);
        if let Err(e) = res {
            self.err(format!("give_back_resource failed: {e:#}"));
        }
    }

    /// exactly the sequence of `MithrilProverService::compute_cache`:
    /// `discriminant()+1`, `set_discriminant`, `clear()`, `give_back_resource(fresh, new)` x size.
    /// `step(i)` is a harness-side scheduling point between the refresher's own calls.
    pub fn refresh(&mut self, step: &mut dyn FnMut(u8)) -> u64 {
        self.ops += 3;
        let s = self.stamp();
        self.ev(s, Kind::RefBegin);
        let size = self.pool.size();
        let d = match self.pool.discriminant() {
            Ok(d) => d,
            Err(e) => {
                self.err(format!("discriminant failed: {e:#}"));
                return 0;
            }
        };
        let g = d + 1;
        let fresh: Vec<Res> = (0..size)
            .map(|_| Res {
                id: self.shared.ids.fetch_add(1, Ordering::Relaxed),
                generation: g,
                resets: 0,
                dirty: false,
            })
            .collect();
        step(0);
        if let Err(e) = self.pool.set_discriminant(g) {
            self.err(format!("set_discriminant failed: {e:#}"));
        }
        let s = self.stamp();
        self.ev(s, Kind::RefSet).gen = g as u32;
        step(1);
        self.pool.clear();
        let s = self.stamp();
        self.ev(s, Kind::RefCleared).gen = g as u32;
        step(2);
        for r in fresh {
            let id = r.id;
            let call = self.give_call(HOW_REFILL, id, g as u32, g as u32);
            let res = self.pool.give_back_resource(r, g);
            self.give_ret(call, id, HOW_REFILL);
            if let Err(e) = res {
                self.err(format!("give_back_resource failed: {e:#}"));
            }
            step(3);
        }
        let s = self.stamp();
        self.ev(s, Kind::RefComplete).gen = g as u32;
        g
    }

    pub fn sample_count(&mut self) -> usize {
        self.ops += 1;
        let call = self.stamp();
        match self.pool.count() {
            Ok(n) => {
                let s = self.stamp();
                let e = self.ev(s, Kind::Count);
                e.aux = n as u32;
                e.ref_seq = call;
                n
            }
            Err(e) => {
                self.err(format!("count failed: {e:#}"));
                0
            }
        }
    }

    pub fn reset_available(&mut self) {
        self.ops += 1;
        let r = self.pool.reset_available_resources();
        let s = self.stamp();
        self.ev(s, Kind::ResetAvail);
        if let Err(e) = r {
            self.err(format!("reset_available_resources failed: {e:#}"));
        }
    }
}

pub fn merge_logs(logs: Vec<Vec<Ev>>) -> Vec<Ev> {
    let mut all: Vec<Ev> = Vec::with_capacity(logs.iter().map(|l| l.len()).sum());
    for l in logs {
        all.extend(l);
    }
    all.sort_unstable_by_key(|e| e.seq);
    all
}

// ---------------------------------------------------------------------------------------------
// small rng helpers

pub fn below<R: RngCore>(r: &mut R, n: u64) -> u64 {
    if n == 0 {
        0
    } else {
        r.next_u64() % n
    }
}
pub fn chance256<R: RngCore>(r: &mut R, p: u16) -> bool {
    (r.next_u32() & 0xff) < p as u32
}
pub fn rng_from(seed: [u8; 32], stream: u64) -> ChaCha20Rng {
    let mut r = ChaCha20Rng::from_seed(seed);
    r.set_stream(stream);
    r
}

pub fn fnv_init() -> u64 {
    0xcbf29ce484222325
}
pub fn fnv(h: &mut u64, v: u64) {
    for i in 0..8 {
        *h ^= (v >> (i * 8)) & 0xff;
        *h = h.wrapping_mul(0x100000001b3);
    }
}

// ---------------------------------------------------------------------------------------------
// delay hook (seeded micro-delays at the named points of resource_pool.rs)

pub const POINTS: [&str; 4] = [
    "give_back_resource:after_count_check",
    "give_back_resource:after_lock",
    "give_back_resource_pool_item:before_discriminant_read",
    "resource_pool_item_new:before_discriminant_read",
];

#[derive(Clone, Copy, Debug, Default)]
pub struct PointCfg {
    /// probability (out of 256) that a hit of this point is delayed
    pub p256: u16,
    /// 0 = yield_now, 1 = spin, 2 = sleep
    pub kind: u8,
    /// upper bound of the spin / sleep in microseconds (0..=200)
    pub max_us: u32,
}

#[derive(Clone, Copy, Debug, Default)]
pub struct DelayTable {
    pub points: [PointCfg; 4],
}

#[derive(Clone, Copy, Debug, Default)]
pub struct HookStats {
    pub hits: [u64; 4],
    pub delays: [u64; 4],
    pub unknown_points: u64,
}

impl HookStats {
    pub fn add(&mut self, o: &HookStats) {
        for i in 0..4 {
            self.hits[i] += o.hits[i];
            self.delays[i] += o.delays[i];
        }
        self.unknown_points += o.unknown_points;
    }
}

struct DelayState {
    table: DelayTable,
    rng: u64,
    stats: HookStats,
}

thread_local! {
    static DELAY: RefCell<Option<DelayState>> = const { RefCell::new(None) };
}

fn xorshift(s: &mut u64) -> u64 {
    let mut x = *s;
    x ^= x >> 12;
    x ^= x << 25;
    x ^= x >> 27;
    *s = x;
    x.wrapping_mul(0x2545F4914F6CDD1D)
}

pub fn spin_us(us: u64) {
    if us == 0 {
        return;
    }
    let end = Instant::now() + Duration::from_micros(us);
    while Instant::now() < end {
        std::hint::spin_loop();
    }
}

/// the process-wide hook: behaviour is decided by the *calling thread's* table, so that runs executing
/// in parallel in the same process do not influence each other
pub fn hook(point: &'static str) {
    let action = DELAY.with(|d| {
        let mut d = d.borrow_mut();
        let st = d.as_mut()?;
        // a point this harness does not know by name (added to /repo later) is still delayed, with the
        // configuration of one of the four table slots, and counted separately
        let cfg = match POINTS.iter().position(|p| *p == point) {
            Some(i) => {
                st.stats.hits[i] += 1;
                st.table.points[i]
            }
            None => {
                st.stats.unknown_points += 1;
                st.table.points[point.len() % 4]
            }
        };
        let i = POINTS.iter().position(|p| *p == point).unwrap_or(point.len() % 4);
        let x = xorshift(&mut st.rng);
        if (x & 0xff) as u16 >= cfg.p256 {
            return None;
        }
        st.stats.delays[i] += 1;
        let us = if cfg.max_us == 0 { 0 } else { (x >> 8) % (cfg.max_us as u64 + 1) };
        Some((cfg.kind, us))
    });
    match action {
        None => {}
        Some((0, _)) => std::thread::yield_now(),
        Some((1, us)) => spin_us(us),
        Some((_, us)) => std::thread::sleep(Duration::from_micros(us)),
    }
}

/// Install / remove the process wide hook. Returns false when the pool was built without
/// `--cfg mithril_verif` (no hook points compiled in).
pub fn set_process_hook(on: bool) -> bool {
    #[cfg(mithril_verif)]
    {
        if on {
            mithril_resource_pool::verif_hooks::set_delay_hook(Some(Box::new(hook)));
        } else {
            mithril_resource_pool::verif_hooks::set_delay_hook(None);
        }
        true
    }
    #[cfg(not(mithril_verif))]
    {
        let _ = on;
        false
    }
}

pub fn thread_delay_install(table: Option<DelayTable>, seed: u64) {
    DELAY.with(|d| {
        *d.borrow_mut() = table.map(|t| DelayState { table: t, rng: seed | 1, stats: HookStats::default() })
    });
}
pub fn thread_delay_take() -> HookStats {
    DELAY.with(|d| d.borrow_mut().take().map(|s| s.stats).unwrap_or_default())
}

// ---------------------------------------------------------------------------------------------
// L1: deterministic single-threaded histories

#[derive(Clone, Copy, Debug, PartialEq, Eq, Hash)]
pub enum Op {
    Acquire,
    /// give the k-th held item back with give_back_resource_pool_item (k modulo number held)
    GiveItem(u8),
    /// drop the k-th held item
    GiveDrop(u8),
    RawPrep,
    RawGive(u8),
    Refresh,
    ResetAvail,
    Count,
}

impl Op {
    pub fn code(&self) -> String {
        match self {
            Op::Acquire => "acquire".into(),
            Op::GiveItem(k) => format!("give_item:{k}"),
            Op::GiveDrop(k) => format!("drop:{k}"),
            Op::RawPrep => "raw_prepare".into(),
            Op::RawGive(k) => format!("raw_give:{k}"),
            Op::Refresh => "refresh".into(),
            Op::ResetAvail => "reset_available".into(),
            Op::Count => "count".into(),
        }
    }
    pub fn parse(s: &str) -> Option<Op> {
        let (name, k) = match s.split_once(':') {
            Some((n, k)) => (n, k.parse::<u8>().ok()?),
            None => (s, 0),
        };
        Some(match name {
            "acquire" => Op::Acquire,
            "give_item" => Op::GiveItem(k),
            "drop" => Op::GiveDrop(k),
            "raw_prepare" => Op::RawPrep,
            "raw_give" => Op::RawGive(k),
            "refresh" => Op::Refresh,
            "reset_available" => Op::ResetAvail,
            "count" => Op::Count,
            _ => return None,
        })
    }
}

/// alphabet used by the exhaustive small-scope enumeration
pub const L1_ALPHABET: [Op; 10] = [
    Op::Acquire,
    Op::GiveItem(0),
    Op::GiveItem(1),
    Op::GiveDrop(0),
    Op::GiveDrop(1),
    Op::RawPrep,
    Op::RawGive(0),
    Op::Refresh,
    Op::ResetAvail,
    Op::Count,
];

#[derive(Clone, Debug)]
pub struct L1Case {
    pub size: usize,
    /// true: `ResourcePool::new(size, size resources of generation 0)`; false: empty pool as in the prover
    pub prefilled: bool,
    pub ops: Vec<Op>,
}

impl L1Case {
    pub fn key(&self) -> String {
        let ops: Vec<String> = self.ops.iter().map(|o| o.code()).collect();
        format!("L1|size={}|prefilled={}|{}", self.size, self.prefilled, ops.join(","))
    }
}

pub struct RunOut {
    pub log: Vec<Ev>,
    pub errors: Vec<String>,
    pub ops: u64,
    pub hook: HookStats,
    pub refresher_t: u16,
    pub size: usize,
}

/// Deterministic single-threaded histories INSIDE the refresh window: a second actor performs
/// `inside` (a few raw give-backs of resources built for the generation current at that moment,
/// give-backs of items it holds, acquires, count samples) at the refresher's scheduling point
/// `at` (0 = before set_discriminant, 1 = between set_discriminant and clear, 2 = between clear and
/// the refill, 3 = after each refilled resource). What a racing thread could do in that window,
/// without depending on the scheduler.
pub fn run_window(size: usize, prefilled: bool, pre_acquire: usize, at: u8, inside: &[Op]) -> RunOut {
    let pool = ResourcePool::<Res>::new(size, initial_resources(size, prefilled));
    let shared = Shared::new(size as u64);
    let mut main = Ctx::new(&pool, &shared, 0);
    let mut aux = Ctx::new(&pool, &shared, 1);
    if !prefilled {
        main.refresh(&mut |_| {});
    }
    let mut held: Vec<Held> = vec![];
    for _ in 0..pre_acquire {
        if let Some(h) = aux.acquire(Duration::ZERO) {
            held.push(h);
        }
    }
    let mut raws: Vec<RawRes> = vec![];
    let mut fired = false;
    main.refresh(&mut |i| {
        if i != at || fired {
            return;
        }
        fired = true;
        for op in inside {
            match *op {
                Op::Acquire => {
                    if pool.count().map(|n| n > 0).unwrap_or(false) {
                        if let Some(h) = aux.acquire(Duration::ZERO) {
                            held.push(h);
                        }
                    }
                }
                Op::GiveItem(k) => {
                    if !held.is_empty() {
                        let h = held.remove(k as usize % held.len());
                        aux.give_back_item(h);
                    }
                }
                Op::GiveDrop(k) => {
                    if !held.is_empty() {
                        let h = held.remove(k as usize % held.len());
                        aux.give_back_drop(h);
                    }
                }
                Op::RawPrep => {
                    if let Some(r) = aux.raw_prepare() {
                        raws.push(r);
                    }
                }
                Op::RawGive(k) => {
                    if !raws.is_empty() {
                        let r = raws.remove(k as usize % raws.len());
                        aux.raw_give(r);
                    }
                }
                Op::Count => {
                    aux.sample_count();
                }
                Op::Refresh | Op::ResetAvail => {}
            }
        }
    });
    aux.sample_count();
    while let Some(h) = held.pop() {
        aux.give_back_drop(h);
    }
    let drained = quiesce(&mut main, size);
    let mut errors = std::mem::take(&mut main.errors);
    errors.extend(std::mem::take(&mut aux.errors));
    let ops = main.ops + aux.ops;
    let logs = vec![std::mem::take(&mut main.log), std::mem::take(&mut aux.log)];
    drop(main);
    drop(aux);
    let log = merge_logs(logs);
    drop(drained);
    RunOut { log, errors, ops, hook: HookStats::default(), refresher_t: 0, size }
}

fn initial_resources(size: usize, prefilled: bool) -> Vec<Res> {
    if prefilled {
        (0..size as u64).map(|id| Res { id, generation: 0, resets: 0, dirty: false }).collect()
    } else {
        vec![]
    }
}

pub fn run_l1(case: &L1Case) -> RunOut {
    let pool = ResourcePool::<Res>::new(case.size, initial_resources(case.size, case.prefilled));
    let shared = Shared::new(case.size as u64);
    let mut ctx = Ctx::new(&pool, &shared, 0);
    let mut held: Vec<Held> = vec![];
    let mut raws: Vec<RawRes> = vec![];
    let mut empty_acquires = 0u32;
    for op in &case.ops {
        match *op {
            Op::Acquire => {
                // acquire on an empty pool is a futex wait with a zero timeout (~100us of system call):
                // the timeout path is exercised once per history, further empty acquires are skipped
                if pool.count().map(|n| n == 0).unwrap_or(false) {
                    empty_acquires += 1;
                    if empty_acquires > 1 {
                        continue;
                    }
                }
                if let Some(mut h) = ctx.acquire(Duration::ZERO) {
                    h.item.dirty = true;
                    held.push(h);
                }
            }
            Op::GiveItem(k) => {
                if !held.is_empty() {
                    let h = held.remove(k as usize % held.len());
                    ctx.give_back_item(h);
                }
            }
            Op::GiveDrop(k) => {
                if !held.is_empty() {
                    let h = held.remove(k as usize % held.len());
                    ctx.give_back_drop(h);
                }
            }
            Op::RawPrep => {
                if let Some(r) = ctx.raw_prepare() {
                    raws.push(r);
                }
            }
            Op::RawGive(k) => {
                if !raws.is_empty() {
                    let r = raws.remove(k as usize % raws.len());
                    ctx.raw_give(r);
                }
            }
            Op::Refresh => {
                ctx.refresh(&mut |_| {});
            }
            Op::ResetAvail => ctx.reset_available(),
            Op::Count => {
                ctx.sample_count();
            }
        }
    }
    // quiescence: count, then drain what the pool would serve from now on
    let drained = quiesce(&mut ctx, case.size);
    let Ctx { log, errors, ops, .. } = ctx;
    drop(drained);
    drop(held);
    RunOut { log, errors, ops, hook: HookStats::default(), refresher_t: 0, size: case.size }
}

/// count at quiescence, then acquire until the pool is empty (these acquires start after every
/// refresh completed, so S1 applies to each of them). The drained items are returned: the caller
/// drops them after the log is complete (their give-back on drop is not part of the history).
fn quiesce<'p>(ctx: &mut Ctx<'p>, size: usize) -> Vec<Held<'p>> {
    ctx.sample_count();
    let mut drained: Vec<Held<'p>> = vec![];
    // bounded: a pool that grew beyond its size is still drained, but never endlessly
    for _ in 0..(size * 4 + 8) {
        // (an acquire on the empty pool would only cost a zero-timeout futex wait)
        if ctx.pool.count().map(|n| n == 0).unwrap_or(false) {
            break;
        }
        match ctx.acquire(Duration::ZERO) {
            Some(h) => drained.push(h),
            None => break,
        }
    }
    drained
}

pub fn gen_l1_case<R: RngCore>(rng: &mut R) -> L1Case {
    let size = 1 + below(rng, 4) as usize;
    let prefilled = below(rng, 3) == 0;
    let len = 4 + below(rng, 28) as usize;
    // weights profile
    let profile = below(rng, 4);
    let mut ops = Vec::with_capacity(len + 1);
    if !prefilled && below(rng, 4) != 0 {
        ops.push(Op::Refresh); // the prover fills the pool with a first compute_cache
    }
    for _ in 0..len {
        let x = below(rng, 100);
        let op = match profile {
            // items only
            0 => match x {
                0..=39 => Op::Acquire,
                40..=59 => Op::GiveItem(below(rng, 4) as u8),
                60..=74 => Op::GiveDrop(below(rng, 4) as u8),
                75..=89 => Op::Refresh,
                90..=94 => Op::Count,
                _ => Op::ResetAvail,
            },
            // drop only
            1 => match x {
                0..=39 => Op::Acquire,
                40..=69 => Op::GiveDrop(below(rng, 4) as u8),
                70..=86 => Op::Refresh,
                87..=94 => Op::Count,
                _ => Op::ResetAvail,
            },
            // with raw fillers
            _ => match x {
                0..=29 => Op::Acquire,
                30..=44 => Op::GiveItem(below(rng, 4) as u8),
                45..=57 => Op::GiveDrop(below(rng, 4) as u8),
                58..=67 => Op::RawPrep,
                68..=77 => Op::RawGive(below(rng, 3) as u8),
                78..=90 => Op::Refresh,
                91..=96 => Op::Count,
                _ => Op::ResetAvail,
            },
        };
        ops.push(op);
    }
    L1Case { size, prefilled, ops }
}

// ---------------------------------------------------------------------------------------------
// L2: OS threads

#[derive(Clone, Debug)]
pub struct L2Cfg {
    pub size: usize,
    pub workers: usize,
    pub ops_per_worker: u32,
    pub prefilled: bool,
    /// weights of the two item give-back styles
    pub w_item: u32,
    pub w_drop: u32,
    /// probability /256 that an operation is a raw prepare / raw give
    pub raw_p256: u16,
    /// probability /256 that an acquired item is kept across further operations
    pub hold_p256: u16,
    pub max_stash: usize,
    /// "work" while holding an item that is given back at once: spin up to this many us
    pub work_spin_us: u32,
    pub count_p256: u16,
    pub reset_p256: u16,
    /// the refresher refreshes every ~this many events of the global counter
    pub refresh_every: u64,
    /// harness-side scheduling points between the refresher's own calls: 0 none, 1 yield, 2 spin<=30us, 3 mixed
    pub refresher_step: u8,
    pub delay: Option<DelayTable>,
    /// Miri: no wall-clock spinning (only yields), zero / tiny timeouts
    pub yield_only: bool,
}

fn pick_timeout<R: RngCore>(rng: &mut R, yield_only: bool) -> Duration {
    let x = below(rng, 100);
    if yield_only {
        return if x < 60 { Duration::ZERO } else { Duration::from_micros(50) };
    }
    match x {
        0..=39 => Duration::ZERO,
        40..=69 => Duration::from_micros(20),
        70..=94 => Duration::from_micros(100),
        _ => Duration::from_micros(1000),
    }
}

fn give_styled<'p, R: RngCore>(ctx: &mut Ctx<'p>, rng: &mut R, cfg: &L2Cfg, h: Held<'p>) {
    let total = (cfg.w_item + cfg.w_drop).max(1) as u64;
    if below(rng, total) < cfg.w_item as u64 {
        ctx.give_back_item(h);
    } else {
        ctx.give_back_drop(h);
    }
    if chance256(rng, cfg.count_p256) {
        ctx.sample_count();
    }
}

fn worker<'p>(mut ctx: Ctx<'p>, cfg: &L2Cfg, seed: [u8; 32], idx: usize) -> (Ctx<'p>, HookStats) {
    let mut rng = rng_from(seed, 1000 + idx as u64);
    thread_delay_install(cfg.delay, rng.next_u64());
    let mut stash: Vec<Held<'p>> = vec![];
    let mut raws: Vec<RawRes> = vec![];
    let item_base = cfg.raw_p256 + cfg.count_p256 / 2 + cfg.reset_p256;
    for _ in 0..cfg.ops_per_worker {
        let x = (rng.next_u32() & 0xff) as u16;
        if x < cfg.raw_p256 {
            if !raws.is_empty() && (raws.len() >= 2 || rng.next_u32() & 1 == 0) {
                let r = raws.swap_remove(below(&mut rng, raws.len() as u64) as usize);
                ctx.raw_give(r);
                if chance256(&mut rng, cfg.count_p256) {
                    ctx.sample_count();
                }
            } else if let Some(r) = ctx.raw_prepare() {
                raws.push(r);
            }
        } else if x < cfg.raw_p256 + cfg.count_p256 / 2 {
            ctx.sample_count();
        } else if x < item_base {
            ctx.reset_available();
        } else if !stash.is_empty() && (stash.len() >= cfg.max_stash || rng.next_u32() & 1 == 0) {
            let h = stash.swap_remove(below(&mut rng, stash.len() as u64) as usize);
            give_styled(&mut ctx, &mut rng, cfg, h);
        } else {
            let to = pick_timeout(&mut rng, cfg.yield_only);
            if let Some(mut h) = ctx.acquire(to) {
                h.item.dirty = true;
                if cfg.max_stash > 0 && chance256(&mut rng, cfg.hold_p256) {
                    stash.push(h);
                } else {
                    if cfg.work_spin_us > 0 {
                        if cfg.yield_only {
                            if rng.next_u32() & 3 == 0 {
                                std::thread::yield_now();
                            }
                        } else {
                            match below(&mut rng, 4) {
                                0 => std::thread::yield_now(),
                                1 => spin_us(below(&mut rng, cfg.work_spin_us as u64 + 1)),
                                _ => {}
                            }
                        }
                    }
                    give_styled(&mut ctx, &mut rng, cfg, h);
                }
            }
        }
    }
    while let Some(h) = stash.pop() {
        give_styled(&mut ctx, &mut rng, cfg, h);
    }
    while let Some(r) = raws.pop() {
        ctx.raw_give(r);
    }
    let hs = thread_delay_take();
    (ctx, hs)
}

fn refresher<'p>(
    mut ctx: Ctx<'p>,
    cfg: &L2Cfg,
    seed: [u8; 32],
    done: &AtomicUsize,
) -> (Ctx<'p>, HookStats) {
    let mut rng = rng_from(seed, 999);
    let mut srng = rng_from(seed, 998);
    thread_delay_install(cfg.delay, rng.next_u64());
    let mut next_at = 0u64;
    let mode = cfg.refresher_step;
    let yield_only = cfg.yield_only;
    loop {
        if done.load(Ordering::Acquire) >= cfg.workers {
            break;
        }
        let cur = ctx.shared.seq.load(Ordering::Relaxed);
        if cur >= next_at {
            let mut step = |_i: u8| {
                let m = if mode == 3 { below(&mut srng, 3) as u8 } else { mode };
                match m {
                    1 => std::thread::yield_now(),
                    2 => {
                        if yield_only {
                            std::thread::yield_now()
                        } else {
                            spin_us(below(&mut srng, 31))
                        }
                    }
                    _ => {}
                }
            };
            ctx.refresh(&mut step);
            ctx.sample_count();
            let every = cfg.refresh_every.max(4);
            next_at = ctx.shared.seq.load(Ordering::Relaxed) + every / 2 + below(&mut rng, every);
        } else {
            std::thread::yield_now();
        }
    }
    let hs = thread_delay_take();
    (ctx, hs)
}

pub fn run_l2(cfg: &L2Cfg, seed: [u8; 32]) -> RunOut {
    let pool = ResourcePool::<Res>::new(cfg.size, initial_resources(cfg.size, cfg.prefilled));
    let shared = Shared::new(cfg.size as u64);
    let done = AtomicUsize::new(0);
    let refresher_t = cfg.workers as u16;
    let mut logs: Vec<Vec<Ev>> = vec![];
    let mut errors: Vec<String> = vec![];
    let mut ops = 0u64;
    let mut hook = HookStats::default();
    let results: Vec<Result<(Ctx, HookStats), String>> = std::thread::scope(|s| {
        let mut handles = vec![];
        {
            let ctx = Ctx::new(&pool, &shared, refresher_t);
            let done = &done;
            handles.push(s.spawn(move || refresher(ctx, cfg, seed, done)));
        }
        for w in 0..cfg.workers {
            let ctx = Ctx::new(&pool, &shared, w as u16);
            let done = &done;
            handles.push(s.spawn(move || {
                struct Done<'a>(&'a AtomicUsize);
                impl Drop for Done<'_> {
                    fn drop(&mut self) {
                        self.0.fetch_add(1, Ordering::Release);
                    }
                }
                let _d = Done(done);
                worker(ctx, cfg, seed, w)
            }));
        }
        handles
            .into_iter()
            .map(|h| h.join().map_err(|e| {
                if let Some(s) = e.downcast_ref::<&str>() {
                    s.to_string()
                } else if let Some(s) = e.downcast_ref::<String>() {
                    s.clone()
                } else {
                    "thread panicked".to_string()
                }
            }))
            .collect()
    });
    for r in results {
        match r {
            Ok((ctx, hs)) => {
                ops += ctx.ops;
                errors.extend(ctx.errors);
                logs.push(ctx.log);
                hook.add(&hs);
            }
            Err(p) => errors.push(format!("a workload thread panicked: {p}")),
        }
    }
    let mut ctx = Ctx::new(&pool, &shared, refresher_t + 1);
    let drained = quiesce(&mut ctx, cfg.size);
    ops += ctx.ops;
    errors.extend(std::mem::take(&mut ctx.errors));
    logs.push(std::mem::take(&mut ctx.log));
    drop(ctx);
    drop(drained);
    RunOut { log: merge_logs(logs), errors, ops, hook, refresher_t, size: cfg.size }
}

pub fn gen_l2_cfg<R: RngCore>(rng: &mut R, total_ops: u64, with_delay: bool, yield_only: bool, max_workers: usize) -> L2Cfg {
    let size = 1 + below(rng, 4) as usize;
    let workers = 1 + below(rng, max_workers as u64) as usize;
    // give-back style profile
    let (w_item, w_drop, raw_p256) = match below(rng, 6) {
        0 => (1, 0, 0),   // the prover's happy path only
        1 => (0, 1, 0),   // drop only
        2 => (1, 1, 0),   // both item styles
        3 => (0, 1, 40),  // drop + raw fillers
        4 => (3, 1, 24),  // everything
        _ => (1, 3, 0),
    };
    let delay = if with_delay {
        let mut t = DelayTable::default();
        let density = [128u16, 32, 8, 255][below(rng, 4) as usize];
        for p in t.points.iter_mut() {
            // some points off, so that single points are isolated in some runs
            if below(rng, 4) == 0 {
                continue;
            }
            p.p256 = density;
            p.kind = if yield_only { 0 } else { below(rng, 3) as u8 };
            p.max_us = [0u32, 5, 50, 200][below(rng, 4) as usize];
        }
        Some(t)
    } else {
        None
    };
    L2Cfg {
        size,
        workers,
        ops_per_worker: (total_ops / workers as u64).max(8) as u32,
        prefilled: below(rng, 3) == 0,
        w_item,
        w_drop,
        raw_p256,
        hold_p256: [0u16, 32, 96, 192][below(rng, 4) as usize],
        max_stash: 1 + below(rng, 2) as usize,
        work_spin_us: [0u32, 2, 10][below(rng, 3) as usize],
        count_p256: [8u16, 32, 96][below(rng, 3) as usize],
        reset_p256: [0u16, 2, 8][below(rng, 3) as usize],
        refresh_every: [12u64, 40, 150, 600, 2500][below(rng, 5) as usize],
        refresher_step: below(rng, 4) as u8,
        delay,
        yield_only,
    }
}

// ---------------------------------------------------------------------------------------------
// wake-up scenarios (S4): wall-clock, very conservative, never a violation

#[derive(Clone, Debug)]
pub struct WakeCfg {
    pub size: usize,
    pub waiters: usize,
    /// 0: holders give current-generation items back (styles by seed); 1: refresh while waiters are blocked;
    /// 2: stale give-backs, then refresh
    pub variant: u8,
    pub waiter_timeout_ms: u64,
    pub slack_ms: u64,
}

#[derive(Clone, Debug, Default)]
pub struct WakeOut {
    pub served: usize,
    pub timed_out: usize,
    /// waiters that returned AcquireTimeout more than `slack` after enough current-generation resources
    /// had been given back for every waiter
    pub missed: usize,
    pub max_latency_after_available_us: u64,
    pub errors: Vec<String>,
    pub log: Vec<Ev>,
}

pub fn run_wake(cfg: &WakeCfg, seed: [u8; 32]) -> WakeOut {
    let mut rng = rng_from(seed, 77);
    let pool = ResourcePool::<Res>::new(cfg.size, initial_resources(cfg.size, true));
    let shared = Shared::new(cfg.size as u64);
    let mut out = WakeOut::default();
    let mut main = Ctx::new(&pool, &shared, 0);
    if rng.next_u32() & 1 == 0 {
        main.refresh(&mut |_| {});
    }
    let mut held: Vec<Held> = vec![];
    for _ in 0..cfg.size {
        if let Some(h) = main.acquire(Duration::ZERO) {
            held.push(h);
        }
    }
    if held.len() != cfg.size {
        out.errors.push("wake scenario: could not take all resources".into());
        return out;
    }
    let timeout = Duration::from_millis(cfg.waiter_timeout_ms);
    let t_avail: std::sync::Mutex<Option<Instant>> = std::sync::Mutex::new(None);
    let results: Vec<(Ctx, Option<Held>, Instant)> = std::thread::scope(|s| {
        let mut hs = vec![];
        for w in 0..cfg.waiters {
            let ctx = Ctx::new(&pool, &shared, 1 + w as u16);
            hs.push(s.spawn(move || {
                let mut ctx = ctx;
                let got = ctx.acquire(timeout);
                let at = Instant::now();
                // the item is kept until every waiter returned (each waiter takes at most one resource)
                (ctx, got, at)
            }));
        }
        // let the waiters block
        std::thread::sleep(Duration::from_millis(1 + below(&mut rng, 4)));
        match cfg.variant {
            0 => {
                let n = cfg.waiters + below(&mut rng, (cfg.size - cfg.waiters + 1) as u64) as usize;
                for _ in 0..n.min(held.len()) {
                    let h = held.pop().unwrap();
                    if rng.next_u32() & 1 == 0 {
                        main.give_back_item(h);
                    } else {
                        main.give_back_drop(h);
                    }
                }
            }
            1 => {
                main.refresh(&mut |_| {});
            }
            _ => {
                // refresh first makes the held items stale; the stale give-backs must not matter
                main.refresh(&mut |_| {});
                while let Some(h) = held.pop() {
                    main.give_back_drop(h);
                }
            }
        }
        *t_avail.lock().unwrap() = Some(Instant::now());
        hs.into_iter().map(|h| h.join().expect("waiter panicked")).collect()
    });
    let avail = t_avail.lock().unwrap().unwrap();
    let mut logs = vec![];
    let mut kept = vec![];
    for (ctx, got, at) in results {
        let lat = at.saturating_duration_since(avail);
        let ok = got.is_some();
        kept.extend(got);
        if ok {
            out.served += 1;
            out.max_latency_after_available_us = out.max_latency_after_available_us.max(lat.as_micros() as u64);
        } else {
            out.timed_out += 1;
            if lat > Duration::from_millis(cfg.slack_ms) {
                out.missed += 1;
            }
        }
        out.errors.extend(ctx.errors);
        logs.push(ctx.log);
    }
    out.errors.extend(std::mem::take(&mut main.errors));
    logs.push(std::mem::take(&mut main.log));
    drop(main);
    out.log = merge_logs(logs);
    drop(kept);
    drop(held);
    out
}

// ---------------------------------------------------------------------------------------------
// oracle

#[derive(Clone, Copy, Debug)]
pub struct Refresh {
    pub g: u32,
    pub begin: u64,
    pub set: u64,
    pub cleared: u64,
    pub complete: u64,
}

#[derive(Clone, Debug)]
pub struct Finding {
    pub sig: &'static str,
    pub what: String,
    pub excerpt: Vec<String>,
}

#[derive(Clone, Copy, Debug)]
pub struct Window {
    pub g: u32,
    /// hash of the sequence of (kind, thread, how) from 4 events before refresh_begin to 4 after refresh_complete
    pub fine: u64,
    /// hash of the sequence of (kind, role, how, stale?) in the same span
    pub coarse: u64,
    /// events of other threads strictly inside (refresh_begin, refresh_complete)
    pub foreign_inside: u32,
    /// give-backs of items of an older generation that start after this refresh's set_discriminant
    /// (until the next refresh): the situations in which a stale re-admission could happen
    pub stale_give_backs: u32,
}

#[derive(Default)]
pub struct Report {
    pub findings: Vec<Finding>,
    pub counters: BTreeMap<String, u64>,
    pub windows: Vec<Window>,
}

impl Report {
    fn c(&mut self, k: &str) {
        *self.counters.entry(k.to_string()).or_insert(0) += 1;
    }
    fn cn(&mut self, k: &str, n: u64) {
        if n > 0 {
            *self.counters.entry(k.to_string()).or_insert(0) += n;
        }
    }
    fn cmax(&mut self, k: &str, n: u64) {
        let e = self.counters.entry(k.to_string()).or_insert(0);
        if n > *e {
            *e = n;
        }
    }
    pub fn get(&self, k: &str) -> u64 {
        self.counters.get(k).copied().unwrap_or(0)
    }
}

fn idx_of_seq(log: &[Ev], seq: u64) -> usize {
    log.partition_point(|e| e.seq < seq)
}

/// The C18 oracle over a merged log.
pub fn check(log: &[Ev], size: usize) -> Report {
    let mut rep = Report::default();

    // ---- index refreshes
    let mut refreshes: Vec<Refresh> = vec![];
    let mut by_gen: HashMap<u32, usize> = HashMap::new();
    let mut pending_begin: u64 = 0;
    for e in log {
        match e.kind {
            Kind::RefBegin => pending_begin = e.seq,
            Kind::RefSet => {
                by_gen.insert(e.gen, refreshes.len());
                refreshes.push(Refresh { g: e.gen, begin: pending_begin, set: e.seq, cleared: u64::MAX, complete: u64::MAX });
            }
            Kind::RefCleared => {
                if let Some(&i) = by_gen.get(&e.gen) {
                    refreshes[i].cleared = e.seq;
                }
            }
            Kind::RefComplete => {
                if let Some(&i) = by_gen.get(&e.gen) {
                    refreshes[i].complete = e.seq;
                }
            }
            _ => {}
        }
    }
    rep.cn("refreshes", refreshes.len() as u64);
    // completed refreshes in stamp order (single refresher: generations increase with the stamp)
    let completes: Vec<(u64, u32)> =
        refreshes.iter().filter(|r| r.complete != u64::MAX).map(|r| (r.complete, r.g)).collect();
    let sets: Vec<(u64, u32)> = refreshes.iter().map(|r| (r.set, r.g)).collect();
    let required_at = |call_seq: u64| -> u32 {
        // generation of the latest refresh that completed before `call_seq`
        let i = completes.partition_point(|(s, _)| *s < call_seq);
        if i == 0 {
            0
        } else {
            completes[i - 1].1
        }
    };
    let set_before = |seq: u64| -> u32 {
        let i = sets.partition_point(|(s, _)| *s < seq);
        if i == 0 {
            0
        } else {
            sets[i - 1].1
        }
    };

    // ---- per-id histories
    let mut per_id: HashMap<u64, Vec<u32>> = HashMap::new();
    for (i, e) in log.iter().enumerate() {
        if e.id != NO_ID && matches!(e.kind, Kind::AcqRet | Kind::GiveCall | Kind::GiveRet) {
            per_id.entry(e.id).or_default().push(i as u32);
        }
    }

    // ---- S1 + observations at acquire
    let mut stale_give_backs_per_gen: HashMap<u32, u32> = HashMap::new();
    let mut s1_reported_roots: HashMap<(u64, &'static str), u64> = HashMap::new();
    for (i, e) in log.iter().enumerate() {
        match e.kind {
            Kind::AcqCall => rep.c("acquire_calls"),
            Kind::AcqTimeout => {
                rep.c("acquire_timeouts");
                // S4 counters only: how long did a timed-out call take compared with its timeout
                let to = e.label.max(1) as u64;
                let d = e.aux as u64;
                if d > 2 * to + 1000 {
                    rep.c("S4.timeout_calls_longer_than_2x_timeout_plus_1ms");
                }
                rep.cmax("S4.max_timed_out_call_us", d);
            }
            Kind::AcqRet => {
                rep.c("acquire_served");
                if e.how & 1 == 1 {
                    rep.c("obs.served_resource_not_reset");
                }
                if e.label > e.gen {
                    rep.c("obs.item_label_newer_than_resource_generation");
                } else if e.label < e.gen {
                    rep.c("obs.item_label_older_than_resource_generation");
                }
                let need = required_at(e.ref_seq);
                if need > 0 {
                    rep.c("S1.checked_acquires_after_a_completed_refresh");
                }
                if e.gen < need {
                    rep.c("S1.stale_serves");
                    let (sig, why, root_seq) = classify_s1(log, i, &per_id, &refreshes, &by_gen);
                    rep.c(&format!("S1.class.{sig}"));
                    let n = s1_reported_roots.entry((e.id, sig)).or_insert(0);
                    *n += 1;
                    if *n == 1 {
                        let c = refreshes[by_gen[&need]];
                        let what = format!(
                            "pool size {size}: thread {} called acquire_resource at #{} — after refresh_complete({need}) at #{} — and was served resource id {} of generation {} (item.discriminant()={}). Root cause by the log: {why}",
                            e.t, e.ref_seq, c.complete, e.id, e.gen, e.label
                        );
                        let excerpt = excerpt_for(log, e.id, &per_id, &refreshes, e.gen, need, root_seq, e.seq);
                        rep.findings.push(Finding { sig, what, excerpt });
                    }
                }
            }
            Kind::GiveCall => {
                match e.how {
                    HOW_ITEM => rep.c("give_back.item"),
                    HOW_DROP => rep.c("give_back.drop"),
                    HOW_RAW => rep.c("give_back.raw_own_tag"),
                    _ => rep.c("give_back.refresher_refill"),
                }
                if e.how != HOW_REFILL {
                    let cur = set_before(e.seq);
                    if e.gen < cur {
                        // a resource of a superseded generation is being given back: must be refused
                        match e.how {
                            HOW_ITEM => rep.c("stale_give_back_attempts.item"),
                            HOW_DROP => rep.c("stale_give_back_attempts.drop"),
                            _ => rep.c("stale_give_back_attempts.raw"),
                        }
                        *stale_give_backs_per_gen.entry(cur).or_insert(0) += 1;
                    }
                }
            }
            Kind::ResetAvail => rep.c("reset_available_calls"),
            _ => {}
        }
    }

    // ---- S2: per id, holder intervals [acquire_return, give_back_call] must not overlap
    for (id, evs) in &per_id {
        let mut holder: Option<&Ev> = None;
        for &i in evs {
            let e = &log[i as usize];
            match e.kind {
                Kind::AcqRet => {
                    if let Some(h) = holder {
                        rep.c("S2.double_holders");
                        if rep.findings.iter().filter(|f| f.sig == SIG_DOUBLE).count() < 2 {
                            rep.findings.push(Finding {
                                sig: SIG_DOUBLE,
                                what: format!(
                                    "resource id {id} was returned to thread {} at #{} while thread {} still held it (acquired at #{}, not yet given back)",
                                    e.t, e.seq, h.t, h.seq
                                ),
                                excerpt: evs.iter().take(40).map(|&j| log[j as usize].to_string()).collect(),
                            });
                        }
                    }
                    holder = Some(e);
                }
                Kind::GiveCall if e.how == HOW_ITEM || e.how == HOW_DROP => holder = None,
                _ => {}
            }
        }
    }
    rep.cn("S2.checked_resource_ids", per_id.len() as u64);

    // ---- S3: count samples
    // A sample was read somewhere between its call stamp and its return stamp. Samples are visited in
    // return order; for a sample above the size, the reference "still within the size" sample is the
    // last one that RETURNED before the bad one was CALLED (so it was certainly read earlier).
    let mut ok_samples: Vec<(u64, u64)> = vec![]; // (return stamp, call stamp), increasing return stamp
    let mut exceeded_reported = false;
    for e in log.iter().filter(|e| e.kind == Kind::Count) {
        rep.c("S3.count_samples");
        rep.cmax("S3.max_count_observed", e.aux as u64);
        if e.aux as usize == size {
            rep.c("S3.samples_at_full_pool");
        }
        if e.aux as usize > size {
            rep.c("S3.samples_above_size");
            if !exceeded_reported {
                exceeded_reported = true;
                let i = ok_samples.partition_point(|(r, _)| *r < e.ref_seq);
                let last_ok_seq = if i == 0 { 0 } else { ok_samples[i - 1].1 };
                let (sig, why, lines) = classify_s3(log, last_ok_seq, e.seq);
                rep.c(&format!("S3.class.{sig}"));
                rep.findings.push(Finding {
                    sig,
                    what: format!(
                        "pool size {size}: count() called at #{} returned {} at #{} (the last sample <= size that returned before that call was called at #{last_ok_seq}). {why}",
                        e.ref_seq, e.aux, e.seq
                    ),
                    excerpt: lines,
                });
            }
        } else {
            ok_samples.push((e.seq, e.ref_seq));
        }
    }

    // ---- windows (interleaving diversity evidence)
    let refresher_t = log.iter().find(|e| e.kind == Kind::RefBegin).map(|e| e.t);
    for r in &refreshes {
        if r.complete == u64::MAX {
            continue;
        }
        let i0 = idx_of_seq(log, r.begin);
        let i1 = idx_of_seq(log, r.complete);
        let a = i0.saturating_sub(4);
        let b = (i1 + 5).min(log.len());
        let (mut fine, mut coarse) = (fnv_init(), fnv_init());
        let mut foreign = 0u32;
        for e in &log[a..b] {
            fnv(&mut fine, ((e.kind as u64) << 32) | ((e.t as u64) << 8) | e.how as u64);
            let role = (Some(e.t) == refresher_t) as u64;
            let stale = matches!(e.kind, Kind::AcqRet | Kind::GiveCall) && e.gen < r.g;
            let to = e.kind == Kind::AcqTimeout;
            fnv(&mut coarse, ((e.kind as u64) << 32) | (role << 16) | ((stale as u64) << 9) | ((to as u64) << 8) | e.how as u64);
            if e.seq > r.begin && e.seq < r.complete && Some(e.t) != refresher_t {
                foreign += 1;
            }
        }
        rep.windows.push(Window {
            g: r.g,
            fine,
            coarse,
            foreign_inside: foreign,
            stale_give_backs: stale_give_backs_per_gen.get(&r.g).copied().unwrap_or(0),
        });
    }
    rep
}

/// Why was the stale resource served by the acquire at `log[viol]` in the pool at all?
/// Walks the resource's own history and names the first event that a pool honouring the generation
/// rule would not have produced.
fn classify_s1(
    log: &[Ev],
    viol: usize,
    per_id: &HashMap<u64, Vec<u32>>,
    refreshes: &[Refresh],
    by_gen: &HashMap<u32, usize>,
) -> (&'static str, String, u64) {
    let v = &log[viol];
    let g0 = v.gen;
    // the refresh that superseded generation g0
    let Some(&ri) = by_gen.get(&(g0 + 1)) else {
        return (SIG_UNCLASSIFIED, format!("no refresh to generation {} in the log", g0 + 1), v.seq);
    };
    let sup = refreshes[ri];
    let evs = &per_id[&v.id];
    // last push of the resource seen so far in the walk: (call seq, return seq, how)
    let mut last_push: Option<(u64, u64, u8)> = None;
    let mut pending_call: Option<&Ev> = None;
    for &i in evs {
        let e = &log[i as usize];
        if e.seq > v.seq {
            break;
        }
        match e.kind {
            Kind::GiveCall => {
                pending_call = Some(e);
                last_push = Some((e.seq, u64::MAX, e.how));
                if e.seq > sup.set {
                    // the generation had certainly changed when this give-back started, and the
                    // resource was served again afterwards: it was admitted although stale
                    return match e.how {
                        HOW_ITEM if e.label <= g0 => (
                            SIG_ITEM,
                            format!(
                                "give_back_resource_pool_item at #{} (after set_discriminant({}) returned at #{}) of the item acquired under generation {} (item.discriminant()={}) was admitted: the pool compared its *current* generation with itself instead of the item's",
                                e.seq, sup.g, sup.set, g0, e.label
                            ),
                            e.seq,
                        ),
                        HOW_DROP if e.label <= g0 => (
                            SIG_DROP_STALE,
                            format!(
                                "drop at #{} (after set_discriminant({}) returned at #{}) of an item carrying its own generation {} was admitted",
                                e.seq, sup.g, sup.set, e.label
                            ),
                            e.seq,
                        ),
                        HOW_RAW | HOW_REFILL => (
                            SIG_RAW_STALE,
                            format!(
                                "give_back_resource(resource, {}) at #{} (after set_discriminant({}) returned at #{}) was admitted",
                                e.label, e.seq, sup.g, sup.set
                            ),
                            e.seq,
                        ),
                        _ => (
                            SIG_LABEL,
                            format!(
                                "the item given back at #{} carried discriminant {} although its resource is of generation {}",
                                e.seq, e.label, g0
                            ),
                            e.seq,
                        ),
                    };
                }
            }
            Kind::GiveRet => {
                if let (Some(c), Some(lp)) = (pending_call, last_push.as_mut()) {
                    if c.seq == e.ref_seq {
                        lp.1 = e.seq;
                    }
                }
            }
            Kind::AcqRet => {
                // the pop certainly happened after clear() of the superseding refresh returned
                if e.ref_seq > sup.cleared {
                    return match last_push {
                        Some((c, r, HOW_ITEM)) if r > sup.set => (
                            SIG_ITEM,
                            format!(
                                "give_back_resource_pool_item of the item acquired under generation {g0} (item.discriminant()={}) ran from #{c} to #{r}, overlapping set_discriminant({}) (returned #{}); the resource was popped by an acquire that started at #{} after clear() returned (#{}). A give-back that compares the item's own generation is either refused (test after the change) or pushed before clear() (test before the change, under the same lock as the push): the pool compared its *current* generation, read after the change, with itself",
                                log[evs.iter().map(|&i| i as usize).filter(|&i| log[i].kind == Kind::GiveCall && log[i].seq == c).next().unwrap_or(viol)].label,
                                sup.g, sup.set, e.ref_seq, sup.cleared
                            ),
                            c,
                        ),
                        Some((c, r, how)) if r > sup.set => (
                            SIG_LATE_ADMIT,
                            format!(
                                "the give-back ({}) of the resource started at #{c} before set_discriminant({}) returned (#{}) and returned at #{r}; the resource was popped by an acquire that started at #{} after clear() returned (#{}): the generation test and the push are not atomic with respect to set_discriminant + clear",
                                how_name(how), sup.g, sup.set, e.ref_seq, sup.cleared
                            ),
                            c,
                        ),
                        Some((c, r, how)) => (
                            SIG_SURVIVED,
                            format!(
                                "the resource was pushed ({}, #{c}..#{r}) before set_discriminant({}) returned (#{}) and was still served by an acquire that started at #{} after clear() returned (#{})",
                                how_name(how), sup.g, sup.set, e.ref_seq, sup.cleared
                            ),
                            c,
                        ),
                        None => (
                            SIG_SURVIVED,
                            format!(
                                "the resource was part of the initial pool and was still served by an acquire that started at #{} after clear() of refresh {} returned (#{})",
                                e.ref_seq, sup.g, sup.cleared
                            ),
                            e.seq,
                        ),
                    };
                }
                if e.label > g0 {
                    // popped around the generation change, and labelled with the new generation
                    return (
                        SIG_LABEL,
                        format!(
                            "the acquire #{}..#{} overlapping refresh {} (begin #{}, set_discriminant returned #{}, clear returned #{}) popped the generation-{} resource but its item was labelled discriminant {}; the later give-back of that item was therefore admitted as current",
                            e.ref_seq, e.seq, sup.g, sup.begin, sup.set, sup.cleared, g0, e.label
                        ),
                        e.seq,
                    );
                }
            }
            _ => {}
        }
    }
    (SIG_UNCLASSIFIED, "no illegitimate event found in the resource's history".into(), v.seq)
}

fn excerpt_for(
    log: &[Ev],
    id: u64,
    per_id: &HashMap<u64, Vec<u32>>,
    refreshes: &[Refresh],
    g0: u32,
    need: u32,
    root_seq: u64,
    viol_seq: u64,
) -> Vec<String> {
    // events of the resource from (a little before) the root cause to the violating acquire, merged
    // with the refresher's events of the refreshes g0+1 ..= need
    let mut idx: Vec<usize> = vec![];
    let evs = &per_id[&id];
    let from = evs.iter().position(|&i| log[i as usize].seq >= root_seq).unwrap_or(0).saturating_sub(3);
    for &i in &evs[from..] {
        if log[i as usize].seq <= viol_seq {
            idx.push(i as usize);
        }
    }
    let lo = refreshes.iter().find(|r| r.g == g0 + 1).map(|r| r.begin).unwrap_or(0);
    let hi = refreshes.iter().find(|r| r.g == need).map(|r| r.complete).unwrap_or(viol_seq);
    let mut n = 0;
    for (i, e) in log.iter().enumerate() {
        if e.seq < lo {
            continue;
        }
        if e.seq > hi {
            break;
        }
        if matches!(e.kind, Kind::RefBegin | Kind::RefSet | Kind::RefCleared | Kind::RefComplete) {
            idx.push(i);
            n += 1;
            if n > 24 {
                break;
            }
        }
    }
    idx.sort_unstable();
    idx.dedup();
    let mut out: Vec<String> = idx.iter().map(|&i| log[i].to_string()).collect();
    if out.len() > 48 {
        let tail = out.split_off(out.len() - 24);
        out.truncate(24);
        out.push("...".into());
        out.extend(tail);
    }
    out
}

/// the pool was seen above its size at `bad_seq`; the last sample within the size was at `ok_seq`
fn classify_s3(log: &[Ev], ok_seq: u64, bad_seq: u64) -> (&'static str, String, Vec<String>) {
    // all give-back intervals [call, return] up to the bad sample; `in_window` = may have pushed after
    // the last good sample was read (returned after that sample was called, or still in flight)
    let mut open: HashMap<(u16, u64), &Ev> = HashMap::new(); // (thread, call seq)
    let mut ivs: Vec<(u64, u64, &Ev)> = vec![];
    for e in log {
        if e.seq > bad_seq {
            break;
        }
        match e.kind {
            Kind::GiveCall => {
                open.insert((e.t, e.seq), e);
            }
            Kind::GiveRet => {
                if let Some(c) = open.remove(&(e.t, e.ref_seq)) {
                    ivs.push((c.seq, e.seq, c));
                }
            }
            _ => {}
        }
    }
    for (_, c) in open {
        ivs.push((c.seq, u64::MAX, c)); // still in flight when the sample was taken
    }
    ivs.sort_by_key(|x| x.0);
    // The size race needs a give-back G that pushed in the window and another give-back whose push fell
    // between G's `count() == size` test and G's push, i.e. whose interval overlaps G's interval.
    let mut overlap: Option<(&Ev, &Ev)> = None;
    let mut in_window = 0usize;
    let mut best_prev: Option<(u64, &Ev)> = None; // (max return stamp so far, its call event)
    for i in 0..ivs.len() {
        let (start, end, ev) = ivs[i];
        if end > ok_seq {
            in_window += 1;
            if overlap.is_none() {
                if let Some((pe, pev)) = best_prev {
                    if pe > start {
                        overlap = Some((pev, ev));
                    }
                }
                if overlap.is_none() && i + 1 < ivs.len() && ivs[i + 1].0 < end {
                    overlap = Some((ev, ivs[i + 1].2));
                }
            }
        }
        if best_prev.map(|(pe, _)| end > pe).unwrap_or(true) {
            best_prev = Some((end, ev));
        }
    }
    let from = overlap.map(|(a, _)| a.seq.min(ok_seq)).unwrap_or(ok_seq);
    let lines: Vec<String> = log
        .iter()
        .filter(|e| e.seq >= from && e.seq <= bad_seq)
        .filter(|e| matches!(e.kind, Kind::GiveCall | Kind::GiveRet | Kind::Count | Kind::RefSet | Kind::RefCleared | Kind::AcqRet))
        .map(|e| e.to_string())
        .collect();
    let lines = if lines.len() > 60 {
        let mut v = lines[..20].to_vec();
        v.push("...".into());
        v.extend_from_slice(&lines[lines.len() - 40..]);
        v
    } else {
        lines
    };
    match overlap {
        Some((a, b)) => (
            SIG_SIZE_CONC,
            format!(
                "{in_window} give-back(s) may have pushed between the two samples; t{} {} of id {} (called at #{}) and t{} {} of id {} (called at #{}, before the first returned) ran concurrently: both passed the size test, which is made outside the lock that guards the push, before either pushed",
                a.t, how_name(a.how), a.id, a.seq, b.t, how_name(b.how), b.id, b.seq
            ),
            lines,
        ),
        None => (
            SIG_SIZE_SEQ,
            format!("{in_window} give-back(s) may have pushed between the two samples, none of them concurrent with any other give-back: the size test itself admits a resource into a full pool"),
            lines,
        ),
    }
}
