//! mon-pool — runtime monitor of property C18
//! "A pooled Merkle-map cache never serves data from a superseded generation".
//!
//! Code under test: `mithril_resource_pool::ResourcePool` of /repo's working tree (linked by path),
//! driven by harness callers that do what `MithrilProverService` does (acquire ... give_back_resource_pool_item
//! / drop on the error path; compute_cache = discriminant()+1, set_discriminant, clear, give_back_resource x size).
//! See engine.rs for the event log, the workloads and the oracle.
mod engine;

use engine::*;
use rand_core::RngCore;
use serde_json::{json, Value};
use std::collections::{BTreeMap, HashSet};
use std::sync::Mutex;
use vcore::{Monitor, Tier};

const RULE: &str = "L1x = every operation sequence over the alphabet {acquire, give_item:0|1, drop:0|1, raw_prepare, raw_give:0, refresh, reset_available, count} up to the length given in coverage.l1_exhaustive_max_len, on pools of size 1-2 (empty as in the prover, or prefilled), size 3 up to a shorter length; L1r = seeded random histories of 4-32 operations on pools of size 1-4 (3 give-back style profiles); every history ends with a count() and a drain (acquire until empty) so that whatever the pool would serve next is observed. L2 = OS-thread runs: 1-11 workers + 1 refresher (exactly compute_cache's call sequence, paced by the global event counter), pool size 1-4, seeded mix of acquire (timeouts 0-1ms) / hold across operations / give_back_resource_pool_item / drop / raw give_back_resource(own tag) / count / reset_available_resources; phase L2a without any hook installed, phase L2b with the seeded delay table (yield, spin or sleep of 0-200us at the four named points of resource_pool.rs, per-thread PRNG). W = wake-up scenarios (wall clock, S4 only). Oracle over the merged log (one SeqCst counter): S1 an acquire CALLED after refresh_complete(g) returns a resource whose generation tag >= g; S2 holder intervals [acquire_return, give_back_call] of one resource id never overlap; S3 every count() sample and the count at quiescence <= size; S4 counter only. A case is non-trivial when the oracle could have fired in it: L1 = a history in which a resource of a superseded generation is given back (any style) or a raw resource built for a superseded generation is pushed; L2 = a refresh window with events of other threads strictly inside it or followed by give-backs of items of the superseded generation. distinct = distinct operation sequence (L1) / distinct hash of the (event kind, thread, style) sequence from 4 events before refresh_begin to 4 events after refresh_complete (L2).";

const ASSUMPTIONS: &[&str] = &[
    "one refresher at a time (compute_cache is not re-entered concurrently), as in the aggregator's state machine",
    "resources are harness values tagged with the generation the refresher built them for; raw give-backs by workers carry the generation they read when they built the resource",
    "stamps: *_call before the pool call, *_return after it; only orderings implied by return < call are used (happens-before), acquires overlapping a refresh may see either generation",
    "S4 (bounded wake-up) is measured on the wall clock: a miss (1.5 s timeout, 1 s slack) must reproduce, and becomes a violation only when the same scenario also misses in 3 of 3 confirmation runs with a 4 s timeout and 3 s slack; otherwise the run is inconclusive",
    "interleavings are those the OS scheduler (plus seeded delays at the hook points) produced: sampled, not exhaustive; L1x is exhaustive for its stated bound only",
];

fn main() {
    let args = vcore::parse_args();
    vcore::install_panic_hook();
    {
        let prev = std::panic::take_hook();
        std::panic::set_hook(Box::new(move |info| {
            if let Some(l) = info.location() {
                if let Ok(mut g) = LAST_PANIC_LOCATION.lock() {
                    // keep the FIRST location inside the pool's code if there is one (later panics
                    // are PoisonedLock unwraps of the harness)
                    if !(g.contains("resource_pool.rs")) {
                        *g = format!("{}:{}", l.file(), l.line());
                    }
                }
            }
            prev(info);
        }));
    }
    if args.prop != "C18" {
        eprintln!("mon-pool: unknown property {}", args.prop);
        std::process::exit(2);
    }
    let mut mon = Monitor::new(&args);
    mon.level = "exploration".into();
    if let Some(p) = args.replay.clone() {
        replay(&mut mon, &p);
        mon.finish(RULE, ASSUMPTIONS, 0);
    }
    let threads = vcore::default_threads();
    let hooks_compiled = set_process_hook(false);
    mon.extra.insert("delay_hooks_compiled".into(), json!(hooks_compiled));

    let mut phase_s: BTreeMap<&str, f64> = BTreeMap::new();
    let mut t = std::time::Instant::now();
    let mut lap = |name: &'static str, phase_s: &mut BTreeMap<&str, f64>| {
        phase_s.insert(name, (t.elapsed().as_secs_f64() * 10.0).round() / 10.0);
        t = std::time::Instant::now();
    };
    guarded(&mut mon, "L1x", |m| phase_l1_exhaustive(m, threads));
    lap("L1x", &mut phase_s);
    guarded(&mut mon, "L1r", |m| phase_l1_random(m, threads));
    lap("L1r", &mut phase_s);
    guarded(&mut mon, "L1w", phase_l1_window);
    lap("L1w", &mut phase_s);
    guarded(&mut mon, "W", phase_wake);
    lap("W", &mut phase_s);

    // L2a: no hook installed at all
    let l2_par = std::env::var("VERIF_L2_PAR").ok().and_then(|s| s.parse().ok()).unwrap_or((threads * 3 / 8).max(2));
    mon.extra.insert("l2_parallel_runs".into(), json!(l2_par));
    guarded(&mut mon, "L2a", |m| phase_l2(m, "L2a", false, l2_par));
    lap("L2a", &mut phase_s);
    if hooks_compiled {
        set_process_hook(true);
        guarded(&mut mon, "L2b", |m| phase_l2(m, "L2b", true, l2_par));
        set_process_hook(false);
        lap("L2b", &mut phase_s);
    } else {
        mon.inconclusive("the pool was built without --cfg mithril_verif: no delay hook points, phase L2b (seeded delays) not run");
    }
    if mon.tier == Tier::Thorough && std::env::var("VERIF_NO_L3").is_err() {
        phase_l3(&mut mon);
        lap("L3", &mut phase_s);
    }
    mon.extra.insert("phase_seconds".into(), json!(phase_s));
    mon.extra.insert("maxima".into(), json!(*MAXIMA.lock().unwrap()));
    let total_ops = mon.counter("ops.pool_calls");
    mon.extra.insert("pool_operations".into(), json!(total_ops));
    mon.finish(RULE, ASSUMPTIONS, 50);
}

// ---------------------------------------------------------------------------------------------
// helpers

/// maxima cannot live in Monitor counters (shard monitors are merged by summing): process-wide map,
/// touched once per run / history, written into evidence.coverage.maxima at the end
static MAXIMA: Mutex<BTreeMap<String, u64>> = Mutex::new(BTreeMap::new());

thread_local! {
    /// per-thread cache of the maxima already published, so that the global lock is only taken for a new maximum
    static TL_MAX: std::cell::RefCell<std::collections::HashMap<String, u64>> = std::cell::RefCell::new(std::collections::HashMap::new());
}

fn note_max(name: &str, v: u64) {
    let known = TL_MAX.with(|m| m.borrow().get(name).copied());
    if matches!(known, Some(k) if k >= v) {
        return;
    }
    TL_MAX.with(|m| m.borrow_mut().insert(name.to_string(), v));
    let mut m = MAXIMA.lock().unwrap();
    let e = m.entry(name.to_string()).or_insert(0);
    if v > *e {
        *e = v;
    }
}

fn merge_counters(mon: &mut Monitor, prefix: &str, rep: &Report) {
    let mut name = String::with_capacity(96);
    for (k, v) in &rep.counters {
        name.clear();
        name.push_str(prefix);
        name.push('.');
        name.push_str(k);
        if k.contains(".max_") {
            note_max(&name, *v);
        } else if let Some(e) = mon.counters.get_mut(name.as_str()) {
            *e += *v;
        } else {
            mon.counters.insert(name.clone(), *v);
        }
    }
}

fn l1_json(case: &L1Case) -> Value {
    json!({
        "level": "L1",
        "size": case.size,
        "prefilled": case.prefilled,
        "ops": case.ops.iter().map(|o| o.code()).collect::<Vec<_>>(),
    })
}

fn log_lines(log: &[Ev], max: usize) -> Vec<String> {
    let mut v: Vec<String> = log.iter().take(max).map(|e| e.to_string()).collect();
    if log.len() > max {
        v.push(format!("... ({} events in total)", log.len()));
    }
    v
}

/// an error string of a run: a panic raised inside the pool's own source file (directly, or seen
/// by the others as a poisoned lock) is a violation; anything else stays a harness/pool error
fn report_run_error(m: &mut Monitor, place: &str, e: &str) {
    let last = LAST_PANIC_LOCATION.lock().map(|l| l.clone()).unwrap_or_default();
    let pool_panic = last.contains("resource_pool.rs") && (e.contains("panicked") || e.contains("Poisoned") || e.contains("poisoned"));
    if pool_panic {
        m.violation(
            "C18 a pool call panics (the pool's lock is poisoned: no caller is served again)",
            &format!("{place}: {e} (first panic inside the pool's code at {last})"),
            json!({"place": place, "location": last, "error": e}),
        );
    } else {
        m.inconclusive(&format!("harness/pool error in {place}: {e}"));
    }
}

/// run one L1 history, feed the monitor; returns the signatures that fired
fn eval_l1(mon: &mut Monitor, prefix: &str, case: &L1Case, shrink: bool, may_sample: bool) -> Vec<&'static str> {
    let out = run_l1(case);
    let rep = check(&out.log, case.size);
    mon.eval();
    mon.count_n("ops.pool_calls", out.ops);
    merge_counters(mon, prefix, &rep);
    for e in &out.errors {
        report_run_error(mon, "an L1 history", e);
    }
    let stale = rep.get("stale_give_back_attempts.item") + rep.get("stale_give_back_attempts.drop") + rep.get("stale_give_back_attempts.raw");
    if stale > 0 {
        mon.nontrivial_str(&case.key());
        mon.count(&format!("{prefix}.nontrivial_histories"));
        if may_sample && mon.wants_sample() && case.ops.len() >= 4 && mon.counter("samples.l1") < 1 {
            mon.count("samples.l1");
            mon.sample(json!({"case": l1_json(case), "events": log_lines(&out.log, 40),
                "stale_give_back_attempts": stale, "findings": rep.findings.iter().map(|f| f.sig).collect::<Vec<_>>()}));
        }
    }
    let mut fired: Vec<&'static str> = vec![];
    for f in &rep.findings {
        if fired.contains(&f.sig) {
            continue;
        }
        fired.push(f.sig);
        let (wcase, wout) = if shrink { shrink_l1(case, f.sig) } else { (case.clone(), None) };
        let (what, log) = match wout {
            Some((what, log)) => (what, log),
            None => (f.what.clone(), log_lines(&out.log, 80)),
        };
        mon.count(&format!("{prefix}.violating_histories.{}", f.sig));
        let mut rj = l1_json(&wcase);
        rj["events"] = json!(log);
        if shrink {
            rj["shrunk_from"] = l1_json(case);
        }
        mon.violation(f.sig, &format!("[L1 single-threaded, {} ops] {what}", wcase.ops.len()), rj);
    }
    fired
}

/// greedy removal of operations while the same signature still fires
fn shrink_l1(case: &L1Case, sig: &'static str) -> (L1Case, Option<(String, Vec<String>)>) {
    let mut cur = case.clone();
    let mut best: Option<(String, Vec<String>)> = None;
    loop {
        let mut improved = false;
        let mut i = 0;
        while i < cur.ops.len() {
            let mut cand = cur.clone();
            cand.ops.remove(i);
            let out = run_l1(&cand);
            let rep = check(&out.log, cand.size);
            if let Some(f) = rep.findings.iter().find(|f| f.sig == sig) {
                best = Some((f.what.clone(), log_lines(&out.log, 80)));
                cur = cand;
                improved = true;
            } else {
                i += 1;
            }
        }
        if !improved {
            break;
        }
    }
    (cur, best)
}

// ---------------------------------------------------------------------------------------------
// L1x: exhaustive small scope

fn nth_sequence(len: usize, mut idx: u64) -> Vec<Op> {
    let k = L1_ALPHABET.len() as u64;
    let mut ops = vec![Op::Acquire; len];
    for slot in ops.iter_mut().rev() {
        *slot = L1_ALPHABET[(idx % k) as usize];
        idx /= k;
    }
    ops
}

/// run one phase; a panic that escapes it is judged by where it was raised
fn guarded(mon: &mut Monitor, name: &str, f: impl FnOnce(&mut Monitor)) {
    let r = std::panic::catch_unwind(std::panic::AssertUnwindSafe(|| f(&mut *mon)));
    if let Err(e) = r {
        let msg = if let Some(s) = e.downcast_ref::<&str>() { s.to_string() } else if let Some(s) = e.downcast_ref::<String>() { s.clone() } else { "?".to_string() };
        let last = LAST_PANIC_LOCATION.lock().map(|l| l.clone()).unwrap_or_default();
        if last.contains("mithril-resource-pool") || last.contains("resource_pool.rs") {
            mon.violation(
                "C18 a pool call panics (the pool's lock is poisoned: no caller is served again)",
                &format!("phase {name}: panic raised at {last}: {msg}"),
                json!({"phase": name, "location": last, "message": msg}),
            );
        } else {
            mon.inconclusive(&format!("phase {name} panicked outside the pool's code at {last}: {msg}"));
        }
    }
}

static LAST_PANIC_LOCATION: std::sync::Mutex<String> = std::sync::Mutex::new(String::new());

fn phase_l1_exhaustive(mon: &mut Monitor, threads: usize) {
    let max_len: usize = std::env::var("VERIF_L1X_LEN").ok().and_then(|s| s.parse().ok()).unwrap_or(mon.tier.pick(6, 7));
    let max_len_size3 = max_len.saturating_sub(1);
    // tasks ordered by length first, so that the shortest witnesses are the ones kept
    struct Task {
        size: usize,
        prefilled: bool,
        len: usize,
        from: u64,
        to: u64,
    }
    let mut tasks: Vec<Task> = vec![];
    let k = L1_ALPHABET.len() as u64;
    for len in 1..=max_len {
        let total = k.pow(len as u32);
        for (size, prefilled) in [(1, true), (1, false), (2, true), (2, false), (3, true), (3, false)] {
            if size == 3 && len > max_len_size3 {
                continue;
            }
            let chunk = 20_000u64;
            let mut from = 0;
            while from < total {
                let to = (from + chunk).min(total);
                tasks.push(Task { size, prefilled, len, from, to });
                from = to;
            }
        }
    }
    let n = tasks.len() as u64;
    vcore::run_shards(mon, n, threads, |s, m| {
        let t = &tasks[s as usize];
        for idx in t.from..t.to {
            let case = L1Case { size: t.size, prefilled: t.prefilled, ops: nth_sequence(t.len, idx) };
            eval_l1(m, "L1x", &case, false, t.len == 4 && t.size == 2 && t.prefilled && t.from == 0);
        }
    });
    mon.extra.insert("l1_exhaustive_max_len".into(), json!(max_len));
    mon.extra.insert("l1_exhaustive_max_len_size3".into(), json!(max_len_size3));
    mon.extra.insert("l1_exhaustive_alphabet".into(), json!(L1_ALPHABET.iter().map(|o| o.code()).collect::<Vec<_>>()));
}

fn phase_l1_random(mon: &mut Monitor, threads: usize) {
    let (shards, per) = mon.tier.pick((16u64, 400usize), (64, 4000));
    vcore::run_shards(mon, shards, threads, |s, m| {
        let mut rng = m.rng("l1-random", s);
        for _ in 0..per {
            let case = gen_l1_case(&mut rng);
            // shrink only the first few witnesses of a shard (each shrink re-runs the history many times)
            let shrink = m.counter("L1r.shrunk") < 3;
            let fired = eval_l1(m, "L1r", &case, shrink, s == 0);
            if shrink && !fired.is_empty() {
                m.count("L1r.shrunk");
            }
        }
    });
}

// ---------------------------------------------------------------------------------------------
// L1w: exhaustive small scope INSIDE the refresh window (deterministic counterpart of the races the
// stress phases look for): sizes 1-3, prefilled or filled by a first refresh, 0-2 items held by the
// second actor, every scheduling point of the refresher, every sequence of up to 3 operations over
// {acquire, give item, drop item, raw prepare, raw give, count}
fn phase_l1_window(mon: &mut Monitor) {
    const ALPHA: [Op; 6] = [Op::Acquire, Op::GiveItem(0), Op::GiveDrop(0), Op::RawPrep, Op::RawGive(0), Op::Count];
    let mut seqs: Vec<Vec<Op>> = vec![];
    for len in 1..=3usize {
        let n = ALPHA.len().pow(len as u32);
        for mut idx in 0..n {
            let mut v = vec![];
            for _ in 0..len {
                v.push(ALPHA[idx % ALPHA.len()]);
                idx /= ALPHA.len();
            }
            seqs.push(v);
        }
    }
    let mut reported: std::collections::BTreeSet<&'static str> = Default::default();
    for size in 1..=3usize {
        for prefilled in [true, false] {
            for pre in 0..=2usize.min(size) {
                for at in 0..=3u8 {
                    for inside in &seqs {
                        let out = run_window(size, prefilled, pre, at, inside);
                        let rep = check(&out.log, size);
                        mon.eval();
                        mon.count("L1w.histories");
                        mon.count_n("ops.pool_calls", out.ops);
                        merge_counters(mon, "L1w", &rep);
                        for e in &out.errors {
                            report_run_error(mon, "an L1w history", e);
                        }
                        mon.nontrivial_str(&format!("L1w|{size}|{prefilled}|{pre}|{at}|{}", inside.iter().map(|o| o.code()).collect::<Vec<_>>().join(",")));
                        for f in &rep.findings {
                            mon.count(&format!("L1w.violating_histories.{}", f.sig));
                            if reported.insert(f.sig) || mon.counter(&format!("L1w.witnesses.{}", f.sig)) < 3 {
                                mon.count(&format!("L1w.witnesses.{}", f.sig));
                                mon.violation(
                                    f.sig,
                                    &format!("[L1w refresh window, size {size}, prefilled {prefilled}, {pre} item(s) held, second actor at scheduling point {at}: {}] {}", inside.iter().map(|o| o.code()).collect::<Vec<_>>().join(", "), f.what),
                                    json!({"level": "L1w", "size": size, "prefilled": prefilled, "held_before": pre, "at": at, "inside": inside.iter().map(|o| o.code()).collect::<Vec<_>>(), "events": log_lines(&out.log, 80)}),
                                );
                            }
                        }
                    }
                }
            }
        }
    }
}

// ---------------------------------------------------------------------------------------------
// W: wake-up scenarios (S4)

fn phase_wake(mon: &mut Monitor) {
    let n = mon.tier.pick(160u64, 1200);
    let missed_total = std::sync::atomic::AtomicU64::new(0);
    vcore::run_shards(mon, 8, 4, |s, m| {
        let mut rng = m.rng("wake", s);
        for i in 0..n / 8 {
            if missed_total.load(std::sync::atomic::Ordering::Relaxed) >= 3 {
                m.count("W.skipped_after_3_misses");
                continue;
            }
            let size = 1 + below(&mut rng, 3) as usize;
            let cfg = WakeCfg {
                size,
                waiters: 1 + below(&mut rng, size as u64) as usize,
                variant: below(&mut rng, 3) as u8,
                waiter_timeout_ms: 1500,
                slack_ms: 1000,
            };
            let mut seed = [0u8; 32];
            rng.fill_bytes(&mut seed);
            let mut out = run_wake(&cfg, seed);
            if out.missed > 0 {
                // a single miss can be a stalled machine: the same scenario must miss again (2 more tries)
                m.count("W.first_misses_retried");
                let mut again = 0;
                for _ in 0..2 {
                    let o2 = run_wake(&cfg, seed);
                    if o2.missed > 0 {
                        again += 1;
                        out = o2;
                        break;
                    }
                }
                if again == 0 {
                    m.count("W.first_misses_not_reproduced");
                    out.missed = 0;
                }
            }
            m.eval();
            m.count("W.scenarios");
            m.count(&format!("W.variant_{}", cfg.variant));
            m.count_n("W.waiters_served", out.served as u64);
            m.count_n("W.waiters_timed_out", out.timed_out as u64);
            m.count_n("W.S4_missed_wakeups", out.missed as u64);
            note_max("W.max_latency_after_available_us", out.max_latency_after_available_us);
            for e in &out.errors {
                m.count("W.scenario_errors");
                if m.counter("W.scenario_errors") <= 1 {
                    m.inconclusive(&format!("{e} (shard {s} scenario {i}; further occurrences only counted in W.scenario_errors)"));
                }
            }
            // the safety part of the oracle applies to these small histories as well
            let rep = check(&out.log, cfg.size);
            merge_counters(m, "W", &rep);
            for f in &rep.findings {
                m.violation(f.sig, &format!("[wake scenario] {}", f.what), json!({"level": "W", "shard": s, "i": i, "cfg": format!("{cfg:?}"), "events": log_lines(&out.log, 80)}));
            }
            let mut confirmed = false;
            if out.missed > 0 {
                // confirmation series: the same scenario three more times with far longer bounds
                // (4 s waiter timeout, 3 s slack after enough resources were given back). A waiter
                // that still times out in all three is not explained by a stalled machine.
                let strict = WakeCfg { waiter_timeout_ms: 4000, slack_ms: 3000, ..cfg.clone() };
                let misses = (0..3).filter(|_| run_wake(&strict, seed).missed > 0).count();
                m.count_n("W.confirmation_runs_missed", misses as u64);
                confirmed = misses == 3;
            }
            if out.missed > 0 && confirmed {
                m.violation(
                    "C18 blocked caller times out although enough current-generation resources were given back (lost wake-up)",
                    &format!("{} waiter(s) returned AcquireTimeout although a current-generation resource had been given back for every waiter long before their deadline; reproduced in 2 runs with a 1.5 s timeout and in 3 of 3 confirmation runs with a 4 s timeout / 3 s slack ({cfg:?})", out.missed),
                    json!({"level": "W", "shard": s, "i": i, "cfg": format!("{cfg:?}"), "events": log_lines(&out.log, 80)}),
                );
            } else if out.missed > 0 {
                missed_total.fetch_add(out.missed as u64, std::sync::atomic::Ordering::Relaxed);
                m.inconclusive(&format!(
                    "S4 bounded wake-up: {} waiter(s) returned AcquireTimeout more than {} ms after enough current-generation resources had been given back ({cfg:?}, shard {s} scenario {i}); wall-clock observation, not a violation",
                    out.missed, cfg.slack_ms
                ));
            }
            if s == 0 && i == 0 {
                m.sample(json!({"wake_scenario": format!("{cfg:?}"), "served": out.served, "timed_out": out.timed_out,
                    "max_latency_after_available_us": out.max_latency_after_available_us, "events": log_lines(&out.log, 30)}));
            }
        }
    });
}

// ---------------------------------------------------------------------------------------------
// L2

fn cfg_json(c: &L2Cfg) -> Value {
    const KINDS: [&str; 3] = ["yield", "spin", "sleep"];
    json!({
        "size": c.size, "workers": c.workers, "ops_per_worker": c.ops_per_worker, "prefilled": c.prefilled,
        "w_item": c.w_item, "w_drop": c.w_drop, "raw_p256": c.raw_p256, "hold_p256": c.hold_p256,
        "max_stash": c.max_stash, "work_spin_us": c.work_spin_us, "count_p256": c.count_p256,
        "reset_p256": c.reset_p256, "refresh_every": c.refresh_every, "refresher_step": c.refresher_step,
        "delay_table": c.delay.map(|t| t.points.iter().enumerate().map(|(i, p)| json!({
            "point": POINTS[i], "p256": p.p256, "kind": KINDS[p.kind as usize % 3], "max_us": p.max_us})).collect::<Vec<_>>()),
    })
}

fn style_name(c: &L2Cfg) -> &'static str {
    match (c.w_item > 0, c.w_drop > 0, c.raw_p256 > 0) {
        (true, false, false) => "item_only",
        (false, true, false) => "drop_only",
        (true, true, false) => "item+drop",
        (false, true, true) => "drop+raw",
        (true, true, true) => "item+drop+raw",
        _ => "other",
    }
}

/// total operations of run `i`: many short runs, some long ones
fn l2_total_ops<R: RngCore>(rng: &mut R, tier: Tier, with_delay: bool) -> u64 {
    // runs with the delay table spend most of their time in the seeded delays: their long runs are shorter
    let top = if with_delay { 300_000.0 } else { 1_000_000.0 };
    let (lo, hi): (f64, f64) = match below(rng, 10) {
        0..=4 => (300.0, 10_000.0),
        5..=8 => (10_000.0, tier.pick(100_000.0, 200_000.0)),
        _ => (tier.pick(30_000.0, 100_000.0), tier.pick(150_000.0, top)),
    };
    let u = (rng.next_u64() >> 11) as f64 / (1u64 << 53) as f64;
    (lo * (hi / lo).powf(u)) as u64
}

struct L2RunId<'a> {
    label: &'a str,
    stream: u64,
    with_delay: bool,
    tier: Tier,
}

fn l2_make(mon: &Monitor, id: &L2RunId) -> (L2Cfg, [u8; 32], u64) {
    let mut rng = mon.rng(id.label, id.stream);
    let total = l2_total_ops(&mut rng, id.tier, id.with_delay);
    let cfg = gen_l2_cfg(&mut rng, total, id.with_delay, false, 11);
    let mut seed = [0u8; 32];
    rng.fill_bytes(&mut seed);
    (cfg, seed, total)
}

fn phase_l2(mon: &mut Monitor, phase: &'static str, with_delay: bool, par: usize) {
    let (shards, per) = match (mon.tier, with_delay) {
        (Tier::Quick, false) => (12u64, 12u64),
        (Tier::Quick, true) => (12, 16),
        (Tier::Thorough, false) => (32, 24),
        (Tier::Thorough, true) => (32, 24),
    };
    let label = if with_delay { "l2-delay" } else { "l2-plain" };
    let coarse: Mutex<HashSet<u64>> = Mutex::new(HashSet::new());
    let fine_all: Mutex<HashSet<u64>> = Mutex::new(HashSet::new());
    let tier = mon.tier;
    vcore::run_shards(mon, shards, par, |s, m| {
        let mut my_coarse: HashSet<u64> = HashSet::new();
        let mut my_fine: HashSet<u64> = HashSet::new();
        for i in 0..per {
            let id = L2RunId { label, stream: s * 100_000 + i, with_delay, tier };
            let (cfg, seed, _total) = l2_make(m, &id);
            let t0 = std::time::Instant::now();
            let out = run_l2(&cfg, seed);
            let run_s = t0.elapsed().as_secs_f64();
            let rep = check(&out.log, cfg.size);
            m.eval();
            m.count(&format!("{phase}.runs"));
            m.count(&format!("{phase}.runs.style.{}", style_name(&cfg)));
            m.count(&format!("{phase}.runs.threads.{:02}", cfg.workers + 1));
            m.count(&format!("{phase}.runs.size.{}", cfg.size));
            m.count_n("ops.pool_calls", out.ops);
            m.count_n(&format!("{phase}.pool_calls"), out.ops);
            m.count_n(&format!("{phase}.events"), out.log.len() as u64);
            merge_counters(m, phase, &rep);
            for (k, p) in POINTS.iter().enumerate() {
                m.count_n(&format!("{phase}.hook_hits.{p}"), out.hook.hits[k]);
                m.count_n(&format!("{phase}.hook_delays.{p}"), out.hook.delays[k]);
            }
            if out.hook.unknown_points > 0 {
                m.count_n(&format!("{phase}.hook_hits.UNKNOWN_POINT"), out.hook.unknown_points);
            }
            for e in &out.errors {
                report_run_error(m, &format!("an {phase} run (stream {})", id.stream), e);
            }
            let mut contended = 0u64;
            for w in &rep.windows {
                my_fine.insert(w.fine);
                my_coarse.insert(w.coarse);
                if w.foreign_inside > 0 {
                    m.count(&format!("{phase}.windows.with_foreign_events_inside"));
                }
                if w.stale_give_backs > 0 {
                    m.count(&format!("{phase}.windows.followed_by_stale_give_backs"));
                }
                if w.foreign_inside > 0 || w.stale_give_backs > 0 {
                    contended += 1;
                    let mut key = *b"L2|\0\0\0\0\0\0\0\0";
                    key[3..].copy_from_slice(&w.fine.to_le_bytes());
                    m.nontrivial(&key);
                }
            }
            m.count_n(&format!("{phase}.windows"), rep.windows.len() as u64);
            m.count_n(&format!("{phase}.windows.nontrivial"), contended);
            // violations: one per signature per run
            let mut by_sig: BTreeMap<&'static str, (usize, &Finding)> = BTreeMap::new();
            for f in &rep.findings {
                by_sig.entry(f.sig).and_modify(|e| e.0 += 1).or_insert((1, f));
            }
            for (sig, (n, f)) in &by_sig {
                m.count(&format!("{phase}.runs_with.{sig}"));
                m.count(&format!("{phase}.runs_with.{sig}.style.{}", style_name(&cfg)));
                let total_class = rep.get(&format!("S1.class.{sig}")) + rep.get(&format!("S3.class.{sig}"));
                m.violation(
                    sig,
                    &format!(
                        "[{phase} {} threads, styles {}, {} pool calls, {} distinct stale resources / {} stale serves of this class in the run] {}",
                        cfg.workers + 1, style_name(&cfg), out.ops, n, total_class, f.what
                    ),
                    json!({"level": "L2", "phase": phase, "label": label, "stream": id.stream, "with_delay": with_delay,
                        "tier": tier.as_str(), "cfg": cfg_json(&cfg), "excerpt": f.excerpt,
                        "note": "L2 runs depend on the OS scheduler: --replay re-runs this configuration repeatedly until the same signature is observed again"}),
                );
            }
            if s == 0 && m.wants_sample() && m.counter("samples.l2") < 1 && !rep.windows.is_empty() && cfg.workers >= 2 {
                m.count("samples.l2");
                // the events of the first refresh window with foreign events inside
                let w = rep.windows.iter().find(|w| w.foreign_inside > 0);
                let lines: Vec<String> = match w {
                    Some(w) => {
                        let b = out.log.iter().position(|e| e.kind == Kind::RefSet && e.gen == w.g).unwrap_or(0).saturating_sub(6);
                        out.log[b..].iter().take(36).map(|e| e.to_string()).collect()
                    }
                    None => log_lines(&out.log, 36),
                };
                m.sample(json!({"phase": phase, "stream": id.stream, "cfg": cfg_json(&cfg), "pool_calls": out.ops, "events_total": out.log.len(),
                    "refreshes": rep.get("refreshes"), "run_seconds": run_s, "window_events": lines}));
            }
        }
        coarse.lock().unwrap().extend(my_coarse);
        fine_all.lock().unwrap().extend(my_fine);
    });
    mon.extra.insert(format!("{phase}_distinct_refresh_window_orders_fine"), json!(fine_all.lock().unwrap().len()));
    mon.extra.insert(format!("{phase}_distinct_refresh_window_orders_coarse"), json!(coarse.lock().unwrap().len()));
}

// ---------------------------------------------------------------------------------------------
// L3 (thorough only): the same small workload under Miri, one process per Miri seed

fn phase_l3(mon: &mut Monitor) {
    let dir = std::path::Path::new(env!("CARGO_MANIFEST_DIR")).join("l3");
    let seeds: u64 = std::env::var("VERIF_L3_SEEDS").ok().and_then(|s| s.parse().ok()).unwrap_or(48);
    let target = std::env::var("VERIF_L3_TARGET").unwrap_or_else(|_| "/tmp/mon-pool-l3-target".into());
    let run = |seed: u64| -> Result<(String, bool), String> {
        let out = std::process::Command::new("cargo")
            .args(["+nightly", "miri", "run", "--offline", "-q", "-p", "runner", "--", "--runs", "2", "--seed"])
            .arg(seed.to_string())
            .current_dir(&dir)
            .env("CARGO_TARGET_DIR", &target)
            .env("RUSTFLAGS", "--cfg mithril_verif")
            .env("MIRIFLAGS", format!("-Zmiri-seed={seed} -Zmiri-preemption-rate=0.05"))
            .env_remove("RUSTUP_TOOLCHAIN")
            .output()
            .map_err(|e| format!("cannot spawn cargo: {e}"))?;
        let so = String::from_utf8_lossy(&out.stdout).to_string();
        let se = String::from_utf8_lossy(&out.stderr).to_string();
        if !so.contains("L3-DONE") {
            return Err(format!("status {:?}; stderr tail: {}", out.status.code(), se.lines().rev().take(12).collect::<Vec<_>>().into_iter().rev().collect::<Vec<_>>().join(" | ")));
        }
        let ub = se.contains("Undefined Behavior") || se.contains("Data race detected");
        Ok((so + if ub { &se } else { "" }, ub))
    };
    // seed 0 first (builds), then the rest in parallel
    let first = run(0);
    if let Err(e) = &first {
        mon.extra.insert("l3_miri".into(), json!(format!("skipped: {e}")));
        mon.count("L3.skipped");
        println!("[C18] L3 (Miri) skipped: {e}");
        return;
    }
    let results: Mutex<Vec<(u64, Result<(String, bool), String>)>> = Mutex::new(vec![(0, first)]);
    let next = std::sync::atomic::AtomicU64::new(1);
    std::thread::scope(|s| {
        for _ in 0..vcore::default_threads() {
            s.spawn(|| loop {
                let i = next.fetch_add(1, std::sync::atomic::Ordering::SeqCst);
                if i >= seeds {
                    break;
                }
                let r = run(i);
                results.lock().unwrap().push((i, r));
            });
        }
    });
    let mut results = results.into_inner().unwrap();
    results.sort_by_key(|r| r.0);
    let mut orders: HashSet<String> = HashSet::new();
    for (seed, r) in results {
        match r {
            Err(e) => {
                mon.count("L3.miri_processes_failed");
                mon.inconclusive(&format!("L3 Miri seed {seed}: {e}"));
            }
            Ok((text, ub)) => {
                mon.count("L3.miri_seeds_run");
                mon.eval();
                if ub {
                    mon.violation("C18 Miri reported undefined behaviour or a data race in the pool workload", &format!("Miri seed {seed}"), json!({"level": "L3", "miri_seed": seed, "output": text}));
                }
                for line in text.lines() {
                    if let Some(rest) = line.strip_prefix("L3-COUNT ") {
                        if let Some((k, v)) = rest.split_once('=') {
                            if let Ok(v) = v.trim().parse::<u64>() {
                                mon.count_n(&format!("L3.{}", k.trim()), v);
                            }
                        }
                    } else if let Some(rest) = line.strip_prefix("L3-ORDER ") {
                        for h in rest.split_whitespace() {
                            if orders.insert(h.to_string()) {
                                mon.nontrivial_str(&format!("L3|{h}"));
                            }
                        }
                    } else if let Some(rest) = line.strip_prefix("L3-FINDING ") {
                        let (sig, what) = rest.split_once(" || ").unwrap_or((rest, ""));
                        if sig == "HARNESS-ERROR" {
                            mon.inconclusive(&format!("L3 Miri seed {seed}: {what}"));
                            continue;
                        }
                        mon.count(&format!("L3.findings.{sig}"));
                        mon.violation(sig, &format!("[L3 Miri seed {seed}] {what}"), json!({"level": "L3", "miri_seed": seed,
                            "cmd": format!("cd {} && MIRIFLAGS='-Zmiri-seed={seed} -Zmiri-preemption-rate=0.05' RUSTFLAGS='--cfg mithril_verif' cargo +nightly miri run --offline -p runner -- --runs 2 --seed {seed}", dir.display())}));
                    }
                }
            }
        }
    }
    mon.extra.insert("l3_miri".into(), json!(format!("{seeds} Miri seeds, one process each")));
    mon.extra.insert("L3_distinct_refresh_window_orders_fine".into(), json!(orders.len()));
    phase_l3_tsan(mon, &dir);
}

/// ThreadSanitizer build (-Zbuild-std) of the same runner, native threads, larger runs
fn phase_l3_tsan(mon: &mut Monitor, dir: &std::path::Path) {
    let target = std::env::var("VERIF_L3_TSAN_TARGET").unwrap_or_else(|_| "/tmp/mon-pool-l3-tsan".into());
    let build = std::process::Command::new("cargo")
        .args(["+nightly", "build", "--offline", "-q", "-Zbuild-std", "--target", "x86_64-unknown-linux-gnu", "-p", "runner"])
        .current_dir(dir)
        .env("CARGO_TARGET_DIR", &target)
        .env("RUSTFLAGS", "--cfg mithril_verif -Zsanitizer=thread")
        .env_remove("RUSTUP_TOOLCHAIN")
        .output();
    let ok = matches!(&build, Ok(o) if o.status.success());
    if !ok {
        let why = match build {
            Ok(o) => String::from_utf8_lossy(&o.stderr).lines().rev().take(6).collect::<Vec<_>>().join(" | "),
            Err(e) => e.to_string(),
        };
        mon.extra.insert("l3_tsan".into(), json!(format!("skipped: {why}")));
        mon.count("L3.tsan_skipped");
        println!("[C18] L3 (TSan) skipped: {why}");
        return;
    }
    let bin = std::path::Path::new(&target).join("x86_64-unknown-linux-gnu/debug/runner");
    let out = std::process::Command::new(&bin)
        .args(["--native", "--runs", "80", "--ops", "20000", "--seed"])
        .arg(mon.seed.to_string())
        .env("TSAN_OPTIONS", "halt_on_error=0 exitcode=0")
        .output();
    let Ok(out) = out else {
        mon.inconclusive("L3 TSan: cannot run the instrumented runner");
        return;
    };
    let so = String::from_utf8_lossy(&out.stdout);
    let se = String::from_utf8_lossy(&out.stderr);
    if !so.contains("L3-DONE") {
        mon.inconclusive(&format!("L3 TSan: the instrumented runner did not finish (status {:?})", out.status.code()));
        return;
    }
    let races = se.matches("WARNING: ThreadSanitizer").count() as u64;
    mon.count_n("L3.tsan_reports", races);
    mon.eval();
    if races > 0 {
        let head: String = se.lines().take(60).collect::<Vec<_>>().join("\n");
        mon.violation("C18 ThreadSanitizer reported a data race in the pool workload", &format!("{races} report(s)"), json!({"level": "L3-tsan", "first_report": head}));
    }
    for line in so.lines() {
        if let Some(rest) = line.strip_prefix("L3-COUNT ") {
            if let Some((k, v)) = rest.split_once('=') {
                if let Ok(v) = v.trim().parse::<u64>() {
                    mon.count_n(&format!("L3tsan.{}", k.trim()), v);
                }
            }
        } else if let Some(rest) = line.strip_prefix("L3-FINDING ") {
            let (sig, what) = rest.split_once(" || ").unwrap_or((rest, ""));
            if sig == "HARNESS-ERROR" {
                mon.inconclusive(&format!("L3 TSan: {what}"));
                continue;
            }
            mon.count(&format!("L3tsan.findings.{sig}"));
            mon.violation(sig, &format!("[L3 TSan build] {what}"), json!({"level": "L3-tsan", "seed": mon.seed}));
        }
    }
    mon.extra.insert("l3_tsan".into(), json!("80 native runs of the ThreadSanitizer build"));
}

// ---------------------------------------------------------------------------------------------
// replay

fn replay(mon: &mut Monitor, path: &std::path::Path) {
    let txt = match std::fs::read_to_string(path) {
        Ok(t) => t,
        Err(e) => {
            mon.inconclusive(&format!("cannot read replay file: {e}"));
            return;
        }
    };
    let doc: Value = match serde_json::from_str(&txt) {
        Ok(v) => v,
        Err(e) => {
            mon.inconclusive(&format!("cannot parse replay file: {e}"));
            return;
        }
    };
    let want = doc["signature"].as_str().unwrap_or("").to_string();
    let r = &doc["replay"];
    match r["level"].as_str() {
        Some("L1") => {
            let ops: Option<Vec<Op>> = r["ops"].as_array().map(|a| a.iter().filter_map(|o| o.as_str().and_then(Op::parse)).collect());
            let Some(ops) = ops else {
                mon.inconclusive("replay: no ops");
                return;
            };
            let case = L1Case { size: r["size"].as_u64().unwrap_or(1) as usize, prefilled: r["prefilled"].as_bool().unwrap_or(false), ops };
            let out = run_l1(&case);
            for e in &out.log {
                println!("  {e}");
            }
            eval_l1(mon, "replay", &case, false, true);
        }
        Some("L2") => {
            let with_delay = r["with_delay"].as_bool().unwrap_or(false);
            let tier = if r["tier"].as_str() == Some("thorough") { Tier::Thorough } else { Tier::Quick };
            let label = r["label"].as_str().unwrap_or("l2-plain").to_string();
            let id = L2RunId { label: &label, stream: r["stream"].as_u64().unwrap_or(0), with_delay, tier };
            if let Some(seed) = doc["seed"].as_u64() {
                mon.seed = seed;
            }
            let (cfg, seed, _) = l2_make(mon, &id);
            println!("replaying L2 configuration {}", cfg_json(&cfg));
            set_process_hook(with_delay);
            let mut hit = false;
            for attempt in 0..60 {
                let out = run_l2(&cfg, seed);
                let rep = check(&out.log, cfg.size);
                mon.eval();
                merge_counters(mon, "replay", &rep);
                if let Some(f) = rep.findings.iter().find(|f| want.is_empty() || f.sig == want) {
                    println!("attempt {attempt}: reproduced: {}", f.what);
                    for l in &f.excerpt {
                        println!("  {l}");
                    }
                    mon.violation(f.sig, &f.what, r.clone());
                    hit = true;
                    break;
                }
            }
            if !hit {
                println!("not reproduced in 60 attempts (scheduler dependent)");
            }
        }
        _ => mon.inconclusive("replay: only L1 and L2 witnesses can be replayed by this binary (L3: use the command stored in the file)"),
    }
    // replay runs are about one case: make the evidence minimum irrelevant
    mon.nontrivial_str("replay-a");
    mon.nontrivial_str("replay-b");
}
