//! The honest aggregator side: the REAL services, wired by the aggregator's own
//! `DependenciesBuilder` (test environment, FILE-backed sqlite in a throw-away directory):
//!   * `AggregatorCardanoChainDataRepository` on the cardano-transaction sqlite pool,
//!   * the real `CardanoChainDataImporter` (through `AggregatorChainDataImporter`) fed by the
//!     harness chain (`chain::ChainScanner`),
//!   * `MithrilProverService` and `LegacyMithrilProverService` as built by
//!     `DependenciesBuilder::get_prover_service / get_legacy_prover_service`,
//!   * `CardanoTransactionsSignableBuilder` / `CardanoBlocksTransactionsSignableBuilder` constructed
//!     exactly like `build_signable_builder_service` does (importer + repository),
//!   * `StakePoolStore` (main sqlite) as `StakeDistributionRetriever` of the real
//!     `CardanoStakeDistributionSignableBuilder`.
//! The HTTP handlers' response assembly (private functions of proof_routes.rs and the private
//! `ToCardanoTransactionsProofsMessageAdapter`) is mirrored in `serve_*` below, line by line.
use anyhow::{anyhow, Context};
use std::path::{Path, PathBuf};
use std::sync::Arc;

use mithril_aggregator::database::repository::{AggregatorCardanoChainDataRepository, StakePoolStore};
use mithril_aggregator::dependency_injection::DependenciesBuilder;
use mithril_aggregator::services::{AggregatorChainDataImporter, LegacyProverService, ProverService};
use mithril_aggregator::ServeCommandConfiguration;
use mithril_common::crypto_helper::MKTreeStoreInMemory;
use mithril_common::entities::{
    BlockNumber, BlockNumberOffset, Epoch, ProtocolMessage, ProtocolMessagePartKey, SignedEntityType, StakeDistribution,
};
use mithril_common::messages::{
    CardanoBlocksProofsMessage, CardanoStakeDistributionMessage, CardanoTransactionsProofsMessage,
    CardanoTransactionsProofsV2Message, CardanoTransactionsSetProofMessagePart, CertificateMessage,
};
use mithril_common::signable_builder::{
    CardanoBlocksTransactionsSignableBuilder, CardanoStakeDistributionSignableBuilder, CardanoTransactionsSignableBuilder,
    SignableBuilder,
};
use mithril_common::test::double::Dummy;
use mithril_common::StdResult;
use mithril_persistence::store::StakeStorer;
use sha2::{Digest, Sha256};

use crate::chain::{Chain, ChainScanner};

pub fn discard_logger() -> slog::Logger {
    slog::Logger::root(slog::Discard, slog::o!())
}

#[derive(Clone, Copy, Debug, PartialEq, Eq, PartialOrd, Ord)]
pub enum CertKind {
    /// SignedEntityType::CardanoTransactions (legacy transaction-hash sets)
    Legacy,
    /// SignedEntityType::CardanoBlocksTransactions (v2 blocks + transactions)
    V2,
    /// SignedEntityType::CardanoStakeDistribution
    Stake,
}

impl CertKind {
    pub fn as_str(&self) -> &'static str {
        match self {
            CertKind::Legacy => "legacy",
            CertKind::V2 => "v2",
            CertKind::Stake => "stake",
        }
    }
}

/// A certificate the client can download: what the honest signable builder signed.
#[derive(Clone)]
pub struct Cert {
    pub kind: CertKind,
    pub beacon: u64,
    pub offset: u64,
    pub epoch: u64,
    /// the parts produced by the real signable builder (before the seed parts are added)
    pub signed_parts: ProtocolMessage,
    pub message: CertificateMessage,
    /// certified stake map for CertKind::Stake
    pub stakes: Option<StakeDistribution>,
}

impl Cert {
    pub fn hash(&self) -> &str {
        &self.message.hash
    }
    pub fn signed_root(&self) -> Option<&String> {
        let key = match self.kind {
            CertKind::Legacy => ProtocolMessagePartKey::CardanoTransactionsMerkleRoot,
            CertKind::V2 => ProtocolMessagePartKey::CardanoBlocksTransactionsMerkleRoot,
            CertKind::Stake => ProtocolMessagePartKey::CardanoStakeDistributionMerkleRoot,
        };
        self.signed_parts.get_message_part(&key)
    }
}

/// Build the certificate message around the parts produced by a signable builder: the aggregator
/// adds the seed parts (next AVK, next protocol parameters, current epoch) before signing; the
/// signed message is the hash of the whole protocol message.
pub fn make_certificate(kind: CertKind, epoch: u64, beacon: u64, offset: u64, parts: &ProtocolMessage, stakes: Option<StakeDistribution>) -> Cert {
    let dummy = CertificateMessage::dummy();
    let mut pm = parts.clone();
    pm.set_message_part(
        ProtocolMessagePartKey::NextAggregateVerificationKey,
        dummy.protocol_message.get_message_part(&ProtocolMessagePartKey::NextAggregateVerificationKey).cloned().unwrap_or_default(),
    );
    pm.set_message_part(ProtocolMessagePartKey::NextProtocolParameters, "a1b2c3d4e5f60718293a4b5c6d7e8f90a1b2c3d4e5f60718293a4b5c6d7e8f90".to_string());
    pm.set_message_part(ProtocolMessagePartKey::CurrentEpoch, epoch.to_string());
    let set = match kind {
        CertKind::Legacy => SignedEntityType::CardanoTransactions(Epoch(epoch), BlockNumber(beacon)),
        CertKind::V2 => SignedEntityType::CardanoBlocksTransactions(Epoch(epoch), BlockNumber(beacon), BlockNumberOffset(offset)),
        CertKind::Stake => SignedEntityType::CardanoStakeDistribution(Epoch(epoch)),
    };
    let signed_message = pm.compute_hash();
    let mut h = Sha256::new();
    h.update(b"verif-cert");
    h.update(kind.as_str().as_bytes());
    h.update(epoch.to_le_bytes());
    h.update(beacon.to_le_bytes());
    h.update(offset.to_le_bytes());
    h.update(signed_message.as_bytes());
    let hash = hex::encode(h.finalize());
    let message = CertificateMessage {
        hash,
        previous_hash: "previous".to_string(),
        epoch: Epoch(epoch),
        signed_entity_type: set.into(),
        protocol_message: pm,
        signed_message,
        ..dummy
    };
    Cert { kind, beacon, offset, epoch, signed_parts: parts.clone(), message, stakes }
}

pub struct Agg {
    pub dir: PathBuf,
    pub builder: DependenciesBuilder,
    pub repo: Arc<AggregatorCardanoChainDataRepository>,
    pub importer: Arc<AggregatorChainDataImporter>,
    pub prover: Arc<dyn ProverService>,
    pub legacy_prover: Arc<dyn LegacyProverService>,
    pub tx_signable: CardanoTransactionsSignableBuilder<MKTreeStoreInMemory>,
    pub bt_signable: CardanoBlocksTransactionsSignableBuilder<MKTreeStoreInMemory>,
}

impl Agg {
    /// `dir` must be an empty, private directory; it is removed on drop.
    pub async fn build(dir: &Path, chain: &Chain, scan_chunk: usize) -> StdResult<Agg> {
        std::fs::create_dir_all(dir.join("stores")).with_context(|| "cannot create the store directory")?;
        let configuration = ServeCommandConfiguration {
            data_stores_directory: dir.join("stores"),
            ..ServeCommandConfiguration::new_sample(dir.join("snapshots"))
        };
        let mut b = DependenciesBuilder::new(discard_logger(), Arc::new(configuration));
        b.block_scanner = Some(Arc::new(ChainScanner::new(chain, scan_chunk)));
        let repo = b.get_chain_data_repository().await.map_err(|e| anyhow!("chain data repository: {e:?}"))?;
        let importer = b.get_chain_data_importer().await.map_err(|e| anyhow!("chain data importer: {e:?}"))?;
        let prover = b.get_prover_service().await.map_err(|e| anyhow!("prover service: {e:?}"))?;
        let legacy_prover = b.get_legacy_prover_service().await.map_err(|e| anyhow!("legacy prover service: {e:?}"))?;
        // as DependenciesBuilder::build_signable_builder_service does
        let tx_signable = CardanoTransactionsSignableBuilder::<MKTreeStoreInMemory>::new(importer.clone(), repo.clone());
        let bt_signable = CardanoBlocksTransactionsSignableBuilder::<MKTreeStoreInMemory>::new(importer.clone(), repo.clone());
        Ok(Agg { dir: dir.to_path_buf(), builder: b, repo, importer, prover, legacy_prover, tx_signable, bt_signable })
    }

    /// signing round of the legacy entity at `beacon`: import + root of the legacy block range roots
    pub async fn sign_legacy(&self, epoch: u64, beacon: u64) -> StdResult<Cert> {
        let parts = self.tx_signable.compute_protocol_message(BlockNumber(beacon)).await?;
        Ok(make_certificate(CertKind::Legacy, epoch, beacon, 0, &parts, None))
    }

    pub async fn sign_v2(&self, epoch: u64, beacon: u64, offset: u64) -> StdResult<Cert> {
        let parts = self.bt_signable.compute_protocol_message((BlockNumber(beacon), BlockNumberOffset(offset))).await?;
        Ok(make_certificate(CertKind::V2, epoch, beacon, offset, &parts, None))
    }

    // --- mirrors of the HTTP handlers -----------------------------------------------------------

    /// proof_routes.rs::handlers::build_response_message + ToCardanoTransactionsProofsMessageAdapter
    pub async fn serve_legacy(&self, cert: &Cert, hashes: &[String]) -> StdResult<CardanoTransactionsProofsMessage> {
        let hashes = sanitize(hashes);
        let set_proofs = self.legacy_prover.compute_transactions_proofs(BlockNumber(cert.beacon), &hashes).await?;
        let certified: Vec<String> = set_proofs.iter().flat_map(|p| p.transactions_hashes().to_vec()).collect();
        let not_certified: Vec<String> = hashes.iter().filter(|h| !certified.contains(h)).cloned().collect();
        let mut parts: Vec<CardanoTransactionsSetProofMessagePart> = vec![];
        for p in set_proofs {
            parts.push(p.try_into()?);
        }
        Ok(CardanoTransactionsProofsMessage::new(cert.hash(), parts, not_certified, BlockNumber(cert.beacon)))
    }

    /// proof_routes.rs::handlers::build_response_message_for_v2_cardano_transaction
    pub async fn serve_tx_v2(&self, cert: &Cert, hashes: &[String]) -> StdResult<CardanoTransactionsProofsV2Message> {
        let hashes = sanitize(hashes);
        let (certified, non_certified) = match self.prover.compute_transactions_proofs(BlockNumber(cert.beacon), &hashes).await? {
            Some(set_proof) => {
                let certified_hashes: Vec<String> = set_proof.transactions_hashes().cloned().collect();
                let non: Vec<String> = hashes.iter().filter(|h| !certified_hashes.contains(h)).cloned().collect();
                (Some(set_proof.try_into()?), non)
            }
            None => (None, hashes.clone()),
        };
        Ok(CardanoTransactionsProofsV2Message::new(cert.hash(), certified, non_certified, BlockNumber(cert.beacon), BlockNumberOffset(cert.offset)))
    }

    /// proof_routes.rs::handlers::build_response_message_for_v2_cardano_block
    pub async fn serve_blk_v2(&self, cert: &Cert, hashes: &[String]) -> StdResult<CardanoBlocksProofsMessage> {
        let hashes = sanitize(hashes);
        let (certified, non_certified) = match self.prover.compute_blocks_proofs(BlockNumber(cert.beacon), &hashes).await? {
            Some(set_proof) => {
                let certified_hashes: Vec<String> = set_proof.blocks_hashes().cloned().collect();
                let non: Vec<String> = hashes.iter().filter(|h| !certified_hashes.contains(h)).cloned().collect();
                (Some(set_proof.try_into()?), non)
            }
            None => (None, hashes.clone()),
        };
        Ok(CardanoBlocksProofsMessage::new(cert.hash(), certified, non_certified, BlockNumber(cert.beacon), BlockNumberOffset(cert.offset)))
    }

    // --- stake distributions --------------------------------------------------------------------

    pub async fn stake_store(&mut self) -> StdResult<Arc<StakePoolStore>> {
        self.builder.get_stake_store().await.map_err(|e| anyhow!("stake store: {e:?}"))
    }

    /// store the distribution like the stake distribution service does, then run the real signable
    /// builder over the store; returns the certificate and the artifact message served to clients
    pub async fn sign_stake_distribution(&mut self, epoch: u64, stakes: &StakeDistribution) -> StdResult<(Cert, CardanoStakeDistributionMessage)> {
        let store = self.stake_store().await?;
        let snapshot_epoch = Epoch(epoch).offset_to_cardano_stake_distribution_snapshot_epoch();
        store.save_stakes(snapshot_epoch, stakes.clone()).await?;
        let sb = CardanoStakeDistributionSignableBuilder::new(store.clone());
        let parts = sb.compute_protocol_message(Epoch(epoch)).await?;
        let cert = make_certificate(CertKind::Stake, epoch, 0, 0, &parts, Some(stakes.clone()));
        // artifact: what the aggregator stores and serves (entity CardanoStakeDistribution -> message)
        let served_map = mithril_persistence::store::StakeStorer::get_stakes(&*store, snapshot_epoch)
            .await?
            .ok_or_else(|| anyhow!("stake distribution not found after save"))?;
        let entity = mithril_common::entities::CardanoStakeDistribution::new(Epoch(epoch), served_map);
        let msg = CardanoStakeDistributionMessage {
            epoch: entity.epoch,
            hash: entity.hash.clone(),
            certificate_hash: cert.hash().to_string(),
            stake_distribution: entity.stake_distribution.clone(),
            created_at: chrono::DateTime::parse_from_rfc3339("2026-01-01T00:00:00Z").unwrap().with_timezone(&chrono::Utc),
        };
        Ok((cert, msg))
    }
}

impl Drop for Agg {
    fn drop(&mut self) {
        let _ = std::fs::remove_dir_all(&self.dir);
    }
}

/// CardanoTransactionProofQueryParams::sanitize
pub fn sanitize(hashes: &[String]) -> Vec<String> {
    let mut v = hashes.to_vec();
    v.sort();
    v.dedup();
    v
}
