//! Extra counter group (belongs to property C06): the client recomputes the aggregate
//! verification key of a downloaded `MithrilStakeDistribution`
//! (`MessageBuilder::compute_mithril_stake_distribution_message`). For fixture signer lists every
//! permutation of `signers_with_stake` must give the same message, and that message must be the
//! one whose `NextAggregateVerificationKey` part is the fixture's own key. Altered signer sets
//! (stake +1, signer dropped, stakes swapped, keys swapped) must NOT match.
use mithril_client::MessageBuilder;
use mithril_common::entities::{Epoch, ProtocolMessage, ProtocolMessagePartKey, ProtocolParameters, SignedEntityType};
use mithril_common::messages::{CertificateMessage, MithrilStakeDistributionMessage, SignerWithStakeMessagePart};
use mithril_common::test::builder::{MithrilFixtureBuilder, StakeDistributionGenerationMethod};
use mithril_common::test::double::Dummy;
use serde_json::json;
use vcore::{rnd, Monitor};

pub const SIG_ORDER: &str = "C06 client stake-distribution message depends on signer order";
pub const SIG_ALTERED: &str = "C06 client stake-distribution message matches for an altered signer set";

/// task = (number of signers, fixture variant, slice of the permutations)
pub fn tasks(thorough: bool) -> Vec<(usize, u64, usize, usize)> {
    let mut t = vec![];
    let variants: u64 = if thorough { 4 } else { 2 };
    for n in 2..=6usize {
        for variant in 0..variants {
            let total: usize = (1..=n).product();
            // quick: all permutations up to 5 signers, 120 sampled ones for 6
            let chunks = if total > 120 { if thorough { 6 } else { 1 } } else { 1 };
            for c in 0..chunks {
                t.push((n, variant, c, chunks));
            }
        }
    }
    t
}

pub fn run_task(task: (usize, u64, usize, usize), mon: &mut Monitor, thorough: bool) {
    let (n, variant, chunk, chunks) = task;
    let mut rng = mon.rng("c06-client", (n as u64) * 100 + variant * 10 + chunk as u64);
    let mut seed = [0u8; 32];
    seed[0] = n as u8;
    seed[1] = variant as u8;
    let mut b = MithrilFixtureBuilder::default()
        .with_signers(n)
        .with_protocol_parameters(ProtocolParameters { k: 5, m: 100, phi_f: 0.65 })
        .with_party_id_seed(seed);
    // signers are always KES-certified (the harness never enables allow_skip_signer_certification)
    b = match variant % 4 {
        0 => b,
        1 => b.with_stake_distribution(StakeDistributionGenerationMethod::Uniform(1_000)),
        2 => b.with_stake_distribution(StakeDistributionGenerationMethod::RandomDistribution { seed, min_stake: 1 }),
        _ => b.with_stake_distribution(StakeDistributionGenerationMethod::RandomDistribution { seed: [7u8; 32], min_stake: 1_000_000 }),
    };
    let fixture = match vcore::catch(|| b.build()) {
        Ok(f) => f,
        Err(e) => {
            mon.inconclusive(&format!("fixture build failed: {e}"));
            return;
        }
    };
    let expected_avk = fixture.compute_and_encode_concatenation_aggregate_verification_key();
    let epoch = Epoch(12);
    let mut pm = ProtocolMessage::new();
    pm.set_message_part(ProtocolMessagePartKey::NextAggregateVerificationKey, expected_avk.clone());
    pm.set_message_part(ProtocolMessagePartKey::NextProtocolParameters, fixture.protocol_parameters().compute_hash());
    pm.set_message_part(ProtocolMessagePartKey::CurrentEpoch, epoch.to_string());
    let cert = CertificateMessage {
        hash: "msd-cert".into(),
        epoch,
        signed_entity_type: SignedEntityType::MithrilStakeDistribution(epoch).into(),
        signed_message: pm.compute_hash(),
        protocol_message: pm,
        ..CertificateMessage::dummy()
    };
    let signers = SignerWithStakeMessagePart::from_signers(fixture.signers_with_stake());
    let base = MithrilStakeDistributionMessage {
        epoch,
        signers_with_stake: signers.clone(),
        hash: "msd".into(),
        certificate_hash: cert.hash.clone(),
        created_at: chrono::DateTime::parse_from_rfc3339("2026-01-01T00:00:00Z").unwrap().with_timezone(&chrono::Utc),
        protocol_parameters: fixture.protocol_parameters(),
    };
    let mb = MessageBuilder::new();
    let compute = |msd: &MithrilStakeDistributionMessage| -> Result<String, String> {
        // through the wire form, as the client receives it
        let wire = serde_json::to_string(msd).map_err(|e| e.to_string())?;
        let msd: MithrilStakeDistributionMessage = serde_json::from_str(&wire).map_err(|e| e.to_string())?;
        match vcore::catch(|| mb.compute_mithril_stake_distribution_message(&cert, &msd)) {
            Ok(Ok(m)) => Ok(m.compute_hash()),
            Ok(Err(e)) => Err(format!("{e:?}").chars().take(200).collect()),
            Err(p) => Err(format!("panic {p}")),
        }
    };
    let mut perms = rnd::permutations(n);
    if perms.len() > 120 {
        if thorough {
            let per = perms.len().div_ceil(chunks);
            perms = perms.into_iter().skip(chunk * per).take(per).collect();
        } else {
            rnd::shuffle(&mut rng, &mut perms);
            perms.truncate(119);
            perms.insert(0, (0..n).collect());
        }
    }
    for p in &perms {
        let mut msd = base.clone();
        msd.signers_with_stake = p.iter().map(|i| signers[*i].clone()).collect();
        mon.eval();
        mon.nontrivial_str(&format!("c06|{n}|{variant}|{p:?}"));
        match compute(&msd) {
            Ok(h) if h == cert.signed_message => {
                mon.count("c06|permutation|message_matches_fixture_key");
                if n == 4 && variant == 0 && mon.counter("sample|c06") < 2 && p[0] != 0 {
                    mon.count("sample|c06");
                    mon.sample(json!({"kind": "c06", "signers": n, "order": p, "stakes": p.iter().map(|i| signers[*i].stake).collect::<Vec<_>>(), "outcome": "message equals the one built with the fixture's own aggregate verification key", "message_hash": h}));
                }
            }
            Ok(h) => {
                mon.count("c06|permutation|MESSAGE_DIFFERS");
                mon.violation(
                    SIG_ORDER,
                    &format!("{n} signers in order {p:?}: recomputed message {h} differs from the message built with the fixture's own aggregate verification key {}", cert.signed_message),
                    json!({"kind": "c06", "signers": n, "variant": variant, "order": p, "party_ids": signers.iter().map(|s| s.party_id.clone()).collect::<Vec<_>>(), "stakes": signers.iter().map(|s| s.stake).collect::<Vec<_>>()}),
                );
            }
            Err(e) => {
                mon.count("c06|permutation|ERROR");
                mon.violation(
                    SIG_ORDER,
                    &format!("{n} signers in order {p:?}: message computation failed: {e}"),
                    json!({"kind": "c06", "signers": n, "variant": variant, "order": p}),
                );
            }
        }
    }
    if chunk != 0 {
        return;
    }
    // altered signer sets: must not recompute the certified message
    let mut altered: Vec<(&str, MithrilStakeDistributionMessage)> = vec![];
    for i in 0..n {
        let mut m = base.clone();
        m.signers_with_stake[i].stake += 1;
        altered.push(("stake_plus1", m));
        let mut m = base.clone();
        m.signers_with_stake.remove(i);
        altered.push(("signer_dropped", m));
        let j = (i + 1) % n;
        if signers[i].stake != signers[j].stake {
            let mut m = base.clone();
            let (a, b) = (m.signers_with_stake[i].stake, m.signers_with_stake[j].stake);
            m.signers_with_stake[i].stake = b;
            m.signers_with_stake[j].stake = a;
            altered.push(("stakes_swapped", m));
            let mut m = base.clone();
            m.signers_with_stake[i].stake = a.saturating_sub(1).max(1);
            m.signers_with_stake[j].stake = b + 1;
            if a > 1 {
                altered.push(("unit_of_stake_moved", m));
            }
        }
        let mut m = base.clone();
        let dup = m.signers_with_stake[i].clone();
        m.signers_with_stake.push(dup);
        altered.push(("signer_duplicated", m));
    }
    {
        let mut m = base.clone();
        m.protocol_parameters.k += 1;
        // protocol parameters are not part of the key: the message may legitimately still match
        altered.push(("BENIGN_protocol_parameter_k_changed", m));
    }
    for (class, m) in altered {
        mon.eval();
        let r = compute(&m);
        let matches = matches!(&r, Ok(h) if *h == cert.signed_message);
        mon.count(&format!("c06|{class}|{}", if matches { "MATCHES" } else if r.is_ok() { "differs" } else { "error" }));
        if class.starts_with("BENIGN") {
            continue;
        }
        mon.nontrivial_str(&format!("c06|{n}|{variant}|{class}|{}", serde_json::to_string(&m.signers_with_stake.iter().map(|s| (s.party_id.clone(), s.stake)).collect::<Vec<_>>()).unwrap()));
        if matches {
            mon.violation(
                SIG_ALTERED,
                &format!("{n} signers, alteration {class}: the recomputed message still equals the certified one"),
                json!({"kind": "c06", "signers": n, "variant": variant, "class": class}),
            );
        }
    }
}
