//! GROUND TRUTH of the monitor: a generated Cardano chain (blocks with sparse block numbers, 0-4
//! transactions per block) and a `BlockScanner` that serves it to the REAL importer.
//! Nothing here is code under test.
use async_trait::async_trait;
use mithril_cardano_node_chain::chain_scanner::{BlockScanner, BlockStreamer, ChainScannedBlocks};
use mithril_cardano_node_chain::entities::{RawCardanoPoint, ScannedBlock};
use mithril_common::entities::{BlockNumber, SlotNumber};
use mithril_common::StdResult;
use rand_chacha::ChaCha20Rng;
use std::collections::HashMap;
use std::sync::Arc;
use vcore::rnd;

pub const RANGE: u64 = 15;

#[derive(Clone, Debug, PartialEq, Eq)]
pub struct Block {
    pub number: u64,
    pub slot: u64,
    pub hash: String,
    pub txs: Vec<String>,
}

#[derive(Clone, Debug, PartialEq, Eq)]
pub struct TxLoc {
    pub block: usize,
}

pub struct Chain {
    pub blocks: Vec<Block>,
    pub tx_index: HashMap<String, usize>,
    pub block_index: HashMap<String, usize>,
}

pub fn hex_hash(rng: &mut ChaCha20Rng) -> String {
    hex::encode(rnd::bytes(rng, 32))
}

impl Chain {
    pub fn generate(rng: &mut ChaCha20Rng) -> Chain {
        let n = match rnd::below(rng, 4) {
            0 => rnd::range(rng, 30, 60),
            1 => rnd::range(rng, 60, 150),
            2 => rnd::range(rng, 150, 400),
            _ => rnd::range(rng, 30, 400),
        } as usize;
        // transaction density profile of this chain
        let density = *rnd::pick(rng, &[15u64, 45, 75, 95]);
        let mut number = match rnd::below(rng, 4) {
            0 => 0,
            1 => rnd::below(rng, 15),
            2 => rnd::range(rng, 15, 200),
            _ => rnd::range(rng, 1000, 100_000),
        };
        let mut slot = number * 20 + rnd::below(rng, 50);
        let mut blocks = Vec::with_capacity(n);
        // quiet zones: stretches of blocks without any transaction (legacy ranges stay empty)
        let mut quiet_left = 0u64;
        for i in 0..n {
            if i > 0 {
                number += match rnd::below(rng, 100) {
                    0..=74 => 1,
                    75..=91 => rnd::range(rng, 2, 6),
                    92..=96 => rnd::range(rng, 6, 15),
                    _ => rnd::range(rng, 16, 61), // skips at least one whole block range
                };
                slot += rnd::range(rng, 1, 40);
            }
            if quiet_left == 0 && rnd::chance(rng, 3, 100) {
                quiet_left = rnd::range(rng, 5, 40);
            }
            let ntx = if quiet_left > 0 {
                quiet_left -= 1;
                0
            } else if rnd::below(rng, 100) < density {
                rnd::range(rng, 1, 4)
            } else {
                0
            };
            let txs = (0..ntx).map(|_| hex_hash(rng)).collect();
            blocks.push(Block { number, slot, hash: hex_hash(rng), txs });
        }
        Chain::from_blocks(blocks)
    }

    pub fn from_blocks(blocks: Vec<Block>) -> Chain {
        let mut tx_index = HashMap::new();
        let mut block_index = HashMap::new();
        for (i, b) in blocks.iter().enumerate() {
            block_index.insert(b.hash.clone(), i);
            for t in &b.txs {
                tx_index.insert(t.clone(), i);
            }
        }
        Chain { blocks, tx_index, block_index }
    }

    pub fn tip(&self) -> u64 {
        self.blocks.last().map(|b| b.number).unwrap_or(0)
    }
    pub fn first(&self) -> u64 {
        self.blocks.first().map(|b| b.number).unwrap_or(0)
    }
    pub fn tx_count(&self) -> usize {
        self.tx_index.len()
    }
    pub fn block_of_tx(&self, h: &str) -> Option<&Block> {
        self.tx_index.get(h).map(|i| &self.blocks[*i])
    }
    pub fn block_by_hash(&self, h: &str) -> Option<&Block> {
        self.block_index.get(h).map(|i| &self.blocks[*i])
    }
    /// blocks with number <= beacon
    pub fn blocks_upto(&self, beacon: u64) -> &[Block] {
        let n = self.blocks.partition_point(|b| b.number <= beacon);
        &self.blocks[..n]
    }
    pub fn blocks_after(&self, beacon: u64) -> &[Block] {
        let n = self.blocks.partition_point(|b| b.number <= beacon);
        &self.blocks[n..]
    }
    pub fn scanned(&self) -> Vec<ScannedBlock> {
        self.blocks
            .iter()
            .map(|b| ScannedBlock::new(hex::decode(&b.hash).unwrap(), BlockNumber(b.number), SlotNumber(b.slot), b.txs.clone()))
            .collect()
    }
    pub fn to_json(&self) -> serde_json::Value {
        serde_json::Value::Array(
            self.blocks
                .iter()
                .map(|b| serde_json::json!({"number": b.number, "slot": b.slot, "hash": b.hash, "txs": b.txs}))
                .collect(),
        )
    }
}

pub fn range_start(n: u64) -> u64 {
    (n / RANGE) * RANGE
}

// ---------------------------------------------------------------------------------------------
// the node seen by the importer: serves the blocks after `from` (by slot) up to `until` (by block
// number) in chunks, like the real streamer does; no roll-backs (C13 covers those).

pub struct ChainScanner {
    blocks: Arc<Vec<ScannedBlock>>,
    chunk: usize,
}

impl ChainScanner {
    pub fn new(chain: &Chain, chunk: usize) -> Self {
        ChainScanner { blocks: Arc::new(chain.scanned()), chunk: chunk.max(1) }
    }
}

#[async_trait]
impl BlockScanner for ChainScanner {
    async fn scan(&self, from: Option<RawCardanoPoint>, until: BlockNumber) -> StdResult<Box<dyn BlockStreamer>> {
        let start = match &from {
            Some(p) if !p.is_origin() => self.blocks.partition_point(|b| b.slot_number <= p.slot_number),
            _ => 0,
        };
        let end = self.blocks.partition_point(|b| b.block_number <= until);
        Ok(Box::new(ChainStreamer { blocks: self.blocks.clone(), next: start, end: end.max(start), chunk: self.chunk, last: from }))
    }
}

struct ChainStreamer {
    blocks: Arc<Vec<ScannedBlock>>,
    next: usize,
    end: usize,
    chunk: usize,
    last: Option<RawCardanoPoint>,
}

#[async_trait]
impl BlockStreamer for ChainStreamer {
    async fn poll_next(&mut self) -> StdResult<Option<ChainScannedBlocks>> {
        if self.next >= self.end {
            return Ok(None);
        }
        let upto = (self.next + self.chunk).min(self.end);
        let out: Vec<ScannedBlock> = self.blocks[self.next..upto].to_vec();
        self.next = upto;
        if let Some(b) = out.last() {
            self.last = Some(RawCardanoPoint::new(b.slot_number, b.block_hash.clone()));
        }
        Ok(Some(ChainScannedBlocks::RollForwards(out)))
    }

    fn last_polled_point(&self) -> Option<RawCardanoPoint> {
        self.last.clone()
    }
}
