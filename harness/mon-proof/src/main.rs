//! mon-proof — property C11: certified transaction, block and stake sets are reported exactly as
//! signed.  `mon-proof C11 --tier quick|thorough [--replay FILE]`
mod agg;
mod c06;
mod chain;
mod oracle;
mod stake;
mod tamper;

use rand_chacha::ChaCha20Rng;
use serde_json::{json, Value};
use sha2::{Digest, Sha256};
use std::collections::{BTreeMap, HashMap};
use std::path::PathBuf;
use vcore::{rnd, Monitor, Tier};

use agg::{Agg, Cert, CertKind};
use chain::{hex_hash, range_start, Block, Chain};
use oracle::{Fmt, Outcome, Resp};

struct Sizes {
    shards: u64,
    worlds_per_shard: u64,
    beacons: (u64, u64),
    queries_fresh: usize,
    queries_ahead: usize,
    stake_cases: usize,
}

fn main() {
    // anyhow captures a backtrace for every (expected) rejection when RUST_BACKTRACE is set and all
    // threads then serialise on std's backtrace lock; no other thread exists yet
    std::env::set_var("RUST_LIB_BACKTRACE", "0");
    let args = vcore::parse_args();
    vcore::install_panic_hook();
    let mut mon = Monitor::new(&args);
    mon.max_samples = 8; // 4 proof responses, 2 stake distributions, 2 signer-order cases
    if args.prop != "C11" {
        eprintln!("mon-proof: unknown property {}", args.prop);
        std::process::exit(2);
    }
    if let Some(f) = &args.replay {
        replay(f, &mut mon);
        return;
    }
    let sizes = match args.tier {
        Tier::Quick => Sizes { shards: 16, worlds_per_shard: 4, beacons: (2, 3), queries_fresh: 6, queries_ahead: 2, stake_cases: 10 },
        Tier::Thorough => Sizes { shards: 64, worlds_per_shard: 20, beacons: (2, 5), queries_fresh: 8, queries_ahead: 3, stake_cases: 40 },
    };
    let base = std::env::temp_dir().join(format!("verif-c11-{}-{}", std::process::id(), args.seed));
    let _ = std::fs::remove_dir_all(&base);
    let threads = vcore::default_threads();
    vcore::run_shards(&mut mon, sizes.shards, threads, |shard, m| {
        let rt = match tokio::runtime::Builder::new_multi_thread().worker_threads(2).enable_all().build() {
            Ok(rt) => rt,
            Err(e) => {
                m.inconclusive(&format!("cannot start a tokio runtime: {e}"));
                return;
            }
        };
        for w in 0..sizes.worlds_per_shard {
            let dir = base.join(format!("s{shard}-w{w}"));
            let r = vcore::catch(|| rt.block_on(run_world(shard, w, dir.clone(), m, &sizes)));
            let _ = std::fs::remove_dir_all(&dir);
            match r {
                Ok(Ok(())) => {}
                Ok(Err(e)) => m.inconclusive(&format!("world s{shard}-w{w}: harness error: {}", format!("{e:?}").chars().take(400).collect::<String>())),
                Err(p) => m.inconclusive(&format!("world s{shard}-w{w}: panic in the harness or the honest services: {p}")),
            }
        }
    });
    let _ = std::fs::remove_dir_all(&base);
    // extra counter group (property C06): client-side aggregate verification key recomputation
    let thorough = args.tier == Tier::Thorough;
    let tasks = c06::tasks(thorough);
    vcore::run_shards(&mut mon, tasks.len() as u64, threads, |i, m| c06::run_task(tasks[i as usize], m, thorough));

    let (errs, qs) = (mon.counter("honest_service_errors"), mon.counter("honest_queries"));
    if qs == 0 || errs * 20 > qs {
        mon.inconclusive(&format!("the honest prover services failed on {errs} of {qs} queries: the workload does not exercise the client enough"));
    }
    mon.extra.insert(
        "honest_side".into(),
        json!("REAL services wired by mithril_aggregator::dependency_injection::DependenciesBuilder over file-backed sqlite: AggregatorCardanoChainDataRepository, CardanoChainDataImporter (fed by the harness chain through a BlockScanner), MithrilProverService, LegacyMithrilProverService, CardanoTransactionsSignableBuilder, CardanoBlocksTransactionsSignableBuilder, StakePoolStore + CardanoStakeDistributionSignableBuilder; the HTTP handlers' response assembly (private) is mirrored in agg.rs::serve_*"),
    );
    mon.finish(
        "worlds = generated chains (30-400 blocks, sparse block numbers incl. skipped block ranges, 0-4 txs per block, quiet zones) imported by the real importer into the aggregator's sqlite chain store; 2-5 signing rounds per chain at beacons on / inside / before range boundaries, in gaps, at and beyond the tip; queries (present in 1-6 block ranges, absent, beyond the beacon, in the partial last range, large) answered by the real prover services right after the artifact step and again after the store has been imported for the next beacon; every honest response of the 3 formats (legacy tx-hash sets, v2 transactions, v2 blocks) is altered by every mutator of tamper.rs (items added/renamed/moved, field edits, separator and digit-boundary games, proofs swapped/forged/detached at every layer, several set proofs under different roots, latest block number / offset / certificate hash edits, certified<->non_certified moves, raw JSON type edits) and pushed through deserialize -> verify -> MessageBuilder::compute_* -> match_message against the certificate it names. Oracle = ground truth chain: accepted => every claimed item is in the chain at or below the certificate's beacon with exactly the claimed fields, is a leaf of its own proof, all proofs have one root = the signed root, latest block number and offset are the signed ones, certificate is of the right entity type; honest responses must be accepted. Stake distributions: 1-60 pools signed by the real signable builder over the real stake store, served maps edited (stakes, ids, pools, epoch, certificate, digits moved between id and stake); accepted => served == certified. Non-trivial = a response whose claims the oracle finds false (an acceptance would be a violation) or an honest response; distinct = distinct (format, mutator, wire text).",
        &[
            "hash collision resistance of Blake2s/SHA-256; MKMapProof::leaves()/compute_root() of mithril-merkle-tree used as reference accessors (the Merkle layer itself is C09)",
            "certificate chain validation is C03: the harness certificate store holds exactly the certificates whose protocol message was produced by the real signable builders",
            "response assembly of the private HTTP handlers mirrored, not linked",
            "moving an item from certified to non_certified, duplicating an item, re-ordering sub-proofs and editing unsigned display fields (hash, created_at) leave every certified claim true: counted (BENIGN_*), not violations",
        ],
        400,
    );
}

/// what a response looks like, short enough for the evidence file
fn excerpt(wire: &str) -> Value {
    let mut v: Value = serde_json::from_str(wire).unwrap_or(Value::Null);
    fn cut(v: &mut Value) {
        match v {
            Value::String(s) if s.len() > 80 => *s = format!("{}… ({} chars)", &s[..48], s.len()),
            Value::Array(a) => {
                if a.len() > 3 {
                    let n = a.len();
                    a.truncate(3);
                    a.push(Value::String(format!("… {} more", n - 3)));
                }
                a.iter_mut().for_each(cut)
            }
            Value::Object(o) => o.values_mut().for_each(cut),
            _ => {}
        }
    }
    cut(&mut v);
    v
}

fn sha(s: &str) -> String {
    hex::encode(&Sha256::digest(s.as_bytes())[..12])
}

// -------------------------------------------------------------------------------------------------

fn pick_beacons(chain: &Chain, rng: &mut ChaCha20Rng, k: usize) -> Vec<u64> {
    let first = chain.first();
    let tip = chain.tip();
    let mut out: Vec<u64> = vec![];
    let mut guard = 0;
    while out.len() < k && guard < 200 {
        guard += 1;
        let blk = &chain.blocks[rnd::usize_below(rng, chain.blocks.len())];
        let b = match rnd::below(rng, 9) {
            0 => blk.number,                                         // exactly a block
            1 => range_start(blk.number) + chain::RANGE - 1,         // last number of a range
            2 => range_start(blk.number),                            // first number of a range
            3 => range_start(blk.number).saturating_sub(1),          // last number of the previous range
            4 => blk.number + 1,                                     // possibly a gap
            5 => tip,                                                // the tip
            6 => tip + rnd::range(rng, 1, 40),                       // beyond the tip
            7 => rnd::range(rng, first, tip),                        // anywhere (often a gap)
            _ => blk.number.saturating_sub(rnd::below(rng, 3)),
        };
        // at least a few blocks below the beacon
        if chain.blocks_upto(b).len() >= 3 && !out.contains(&b) {
            out.push(b);
        }
    }
    out.sort();
    out
}

/// items (hash, block) at or below the beacon, grouped by block range
fn items_by_range<'a>(fmt: Fmt, chain: &'a Chain, beacon: u64) -> BTreeMap<u64, Vec<(String, &'a Block)>> {
    let mut m: BTreeMap<u64, Vec<(String, &Block)>> = BTreeMap::new();
    for b in chain.blocks_upto(beacon) {
        let e = m.entry(range_start(b.number)).or_default();
        match fmt {
            Fmt::BlkV2 => e.push((b.hash.clone(), b)),
            _ => {
                for t in &b.txs {
                    e.push((t.clone(), b));
                }
            }
        }
    }
    m.retain(|_, v| !v.is_empty());
    m
}

fn gen_query(fmt: Fmt, chain: &Chain, beacon: u64, rng: &mut ChaCha20Rng, kind: u64) -> (String, Vec<String>) {
    let by_range = items_by_range(fmt, chain, beacon);
    let ranges: Vec<u64> = by_range.keys().cloned().collect();
    let beyond: Vec<String> = chain
        .blocks_after(beacon)
        .iter()
        .flat_map(|b| match fmt {
            Fmt::BlkV2 => vec![b.hash.clone()],
            _ => b.txs.clone(),
        })
        .collect();
    let mut q: Vec<String> = vec![];
    let take_from = |r: u64, n: usize, rng: &mut ChaCha20Rng, q: &mut Vec<String>| {
        let v = &by_range[&r];
        for _ in 0..n {
            q.push(v[rnd::usize_below(rng, v.len())].0.clone());
        }
    };
    let name;
    match kind {
        0 => {
            name = "present_one_range";
            if !ranges.is_empty() {
                let r = *rnd::pick(rng, &ranges);
                take_from(r, rnd::range(rng, 1, 3) as usize, rng, &mut q);
            }
        }
        1 => {
            name = "present_2_to_6_ranges";
            if !ranges.is_empty() {
                let k = rnd::range(rng, 2, 6) as usize;
                let mut rs = ranges.clone();
                rnd::shuffle(rng, &mut rs);
                for r in rs.into_iter().take(k) {
                    take_from(r, rnd::range(rng, 1, 2) as usize, rng, &mut q);
                }
            }
        }
        2 => {
            name = "absent_only";
            for _ in 0..rnd::range(rng, 1, 3) {
                q.push(hex_hash(rng));
            }
        }
        3 => {
            name = "mixed_present_absent_beyond";
            if !ranges.is_empty() {
                let k = rnd::range(rng, 1, 4) as usize;
                let mut rs = ranges.clone();
                rnd::shuffle(rng, &mut rs);
                for r in rs.into_iter().take(k) {
                    take_from(r, 1, rng, &mut q);
                }
            }
            q.push(hex_hash(rng));
            if !beyond.is_empty() {
                q.push(rnd::pick(rng, &beyond).clone());
            }
        }
        4 => {
            name = "beyond_beacon_only";
            if beyond.is_empty() {
                q.push(hex_hash(rng));
            } else {
                for _ in 0..rnd::range(rng, 1, 2) {
                    q.push(rnd::pick(rng, &beyond).clone());
                }
            }
        }
        5 => {
            name = "last_range_and_beacon_block";
            if let Some(r) = ranges.last() {
                let v = &by_range[r];
                q.push(v.last().unwrap().0.clone());
                q.push(v[rnd::usize_below(rng, v.len())].0.clone());
            }
            if ranges.len() > 1 && rnd::chance(rng, 1, 2) {
                take_from(ranges[0], 1, rng, &mut q);
            }
        }
        _ => {
            name = "large";
            for r in &ranges {
                if q.len() >= 24 {
                    break;
                }
                if rnd::chance(rng, 2, 3) {
                    take_from(*r, rnd::range(rng, 1, 3) as usize, rng, &mut q);
                }
            }
            q.push(hex_hash(rng));
        }
    }
    if q.is_empty() {
        q.push(hex_hash(rng));
    }
    (name.to_string(), agg::sanitize(&q))
}

async fn serve(agg: &Agg, fmt: Fmt, cert: &Cert, q: &[String]) -> anyhow::Result<Resp> {
    Ok(match fmt {
        Fmt::Legacy => Resp::Legacy(agg.serve_legacy(cert, q).await?),
        Fmt::TxV2 => Resp::TxV2(agg.serve_tx_v2(cert, q).await?),
        Fmt::BlkV2 => Resp::BlkV2(agg.serve_blk_v2(cert, q).await?),
    })
}

fn has_proof(r: &Resp) -> bool {
    match r {
        Resp::Legacy(m) => !m.certified_transactions.is_empty(),
        Resp::TxV2(m) => m.certified_transactions.is_some(),
        Resp::BlkV2(m) => m.certified_blocks.is_some(),
    }
}

struct WorldState<'a> {
    tag: String,
    chain: &'a Chain,
    certs: Vec<Cert>,
    cert_map: HashMap<String, Cert>,
    /// honest responses with proof material seen so far: (format, certificate hash, response)
    history: Vec<(Fmt, String, Resp)>,
}

async fn run_world(shard: u64, w: u64, dir: PathBuf, mon: &mut Monitor, sizes: &Sizes) -> anyhow::Result<()> {
    let mut rng = mon.rng("world", shard * 1000 + w);
    let chain = Chain::generate(&mut rng);
    let chunk = *rnd::pick(&mut rng, &[1usize, 7, 50, 1000]);
    let mut agg = Agg::build(&dir, &chain, chunk).await?;
    let k = rnd::range(&mut rng, sizes.beacons.0, sizes.beacons.1) as usize;
    let beacons = pick_beacons(&chain, &mut rng, k);
    mon.count("worlds");
    mon.count_n("world|blocks", chain.blocks.len() as u64);
    mon.count_n("world|transactions", chain.tx_count() as u64);
    mon.count_n("world|signing_rounds", beacons.len() as u64);
    let mut st = WorldState { tag: format!("s{shard}-w{w}"), chain: &chain, certs: vec![], cert_map: HashMap::new(), history: vec![] };
    let epoch = 100 + shard;
    let mut prev: Option<(Option<Cert>, Cert)> = None;
    for (i, &b) in beacons.iter().enumerate() {
        let offset = *rnd::pick(&mut rng, &[0u64, 0, 1, 7, 15, 30, 100, 2160]);
        // signing round: the real signable builders import up to the beacon and compute the roots.
        // v2 beacons are arbitrary block numbers (CardanoBlocksTransactionsSigningConfig: multiple
        // of any step); legacy beacons are always the last number of a block range
        // (CardanoTransactionsSigningConfig::compute_block_number_to_be_signed: multiple of 15, -1).
        let cv = agg.sign_v2(epoch + i as u64, b, offset).await?;
        let lb = ((b + 1) / chain::RANGE * chain::RANGE).checked_sub(1);
        let cl = match lb {
            Some(lb) if chain.blocks_upto(lb).iter().any(|x| !x.txs.is_empty()) => Some(agg.sign_legacy(epoch + i as u64, lb).await?),
            _ => {
                // nothing to sign: the legacy signable builder cannot compute the root of an empty set
                mon.count("beacon|legacy_round_skipped_no_transaction_in_complete_ranges");
                None
            }
        };
        for c in cl.iter().chain(std::iter::once(&cv)) {
            st.certs.push(c.clone());
            st.cert_map.insert(c.hash().to_string(), c.clone());
        }
        mon.count(&format!(
            "beacon|v2|{}",
            if b > chain.tip() { "beyond_tip" } else if b == chain.tip() { "at_tip" } else if (b + 1) % chain::RANGE == 0 { "range_complete" } else if !chain.blocks.iter().any(|x| x.number == b) { "in_gap" } else { "inside_range" }
        ));
        // the previous certificate is still the latest signed entity while the store is already
        // imported for the new beacon
        if let Some((pl, pv)) = &prev {
            for (fmt, cert) in [(Fmt::Legacy, pl.as_ref()), (Fmt::TxV2, Some(pv)), (Fmt::BlkV2, Some(pv))] {
                let Some(cert) = cert else { continue };
                for _ in 0..sizes.queries_ahead {
                    let kind = rnd::below(&mut rng, 7);
                    one_query(&agg, &mut st, mon, &mut rng, fmt, cert, kind, "store_ahead").await;
                }
            }
        }
        // artifact creation: prover caches are rebuilt for the new beacons
        if let Some(cl) = &cl {
            agg.legacy_prover.compute_cache(mithril_common::entities::BlockNumber(cl.beacon)).await?;
        }
        agg.prover.compute_cache(mithril_common::entities::BlockNumber(b)).await?;
        for (fmt, cert) in [(Fmt::Legacy, cl.as_ref()), (Fmt::TxV2, Some(&cv)), (Fmt::BlkV2, Some(&cv))] {
            let Some(cert) = cert else { continue };
            for qn in 0..sizes.queries_fresh {
                let kind = if qn < 7 { (qn as u64 + shard + w) % 7 } else { rnd::below(&mut rng, 7) };
                one_query(&agg, &mut st, mon, &mut rng, fmt, cert, kind, "fresh").await;
            }
        }
        // a legacy round may be skipped: the previous legacy certificate stays the latest one
        let keep = prev.take().and_then(|(pl, _)| pl);
        prev = Some((cl.or(keep), cv));
    }
    // stake distributions of this world (their certificates join the same certificate store)
    let WorldState { tag, mut certs, mut cert_map, .. } = st;
    stake::run(&mut agg, &mut certs, &mut cert_map, mon, &mut rng, sizes.stake_cases, 1000 + shard * 100 + w * 50, &tag).await;
    agg.builder.drop_sqlite_connections().await;
    drop(agg);
    Ok(())
}

async fn one_query(
    agg: &Agg,
    st: &mut WorldState<'_>,
    mon: &mut Monitor,
    rng: &mut ChaCha20Rng,
    fmt: Fmt,
    cert: &Cert,
    kind: u64,
    state: &str,
) {
    let chain = st.chain;
    let (qname, q) = gen_query(fmt, chain, cert.beacon, rng, kind);
    mon.count("honest_queries");
    let honest = match serve(agg, fmt, cert, &q).await {
        Ok(r) => r,
        Err(e) => {
            // the honest service failed (HTTP 500 in the aggregator): nothing is reported to the client
            let first = format!("{e}").lines().next().unwrap_or("").chars().take(80).collect::<String>();
            mon.count("honest_service_errors");
            mon.count(&format!("{}|honest_service_error|{}|{}|{}", fmt.as_str(), qname, state, first));
            return;
        }
    };
    mon.count(&format!("{}|query|{}|{}", fmt.as_str(), qname, state));
    mon.count_n(&format!("{}|honest_certified_items", fmt.as_str()), honest.certified_count() as u64);
    mon.count_n(&format!("{}|honest_non_certified_items", fmt.as_str()), honest.non_certified_count() as u64);
    // how many queried items at or below the beacon the honest prover did not certify
    {
        let claimed: Vec<String> = match oracle::claimed(&honest) {
            oracle::Reported::Tx(v) => v,
            oracle::Reported::TxV2(v) => v.into_iter().map(|t| t.transaction_hash).collect(),
            oracle::Reported::Blk(v) => v.into_iter().map(|b| b.block_hash).collect(),
        };
        for h in &q {
            let blk = if fmt == Fmt::BlkV2 { chain.block_by_hash(h) } else { chain.block_of_tx(h) };
            if let Some(b) = blk {
                if b.number <= cert.beacon && !claimed.contains(h) {
                    let partial = range_start(b.number) + chain::RANGE - 1 > cert.beacon;
                    mon.count(&format!("{}|honest_left_uncertified_below_beacon|{}", fmt.as_str(), if partial { "in_partial_last_range" } else { "in_complete_range" }));
                }
            }
        }
    }
    // auxiliary honest material for swaps
    let k2 = rnd::below(rng, 2);
    let (_, q2) = gen_query(fmt, chain, cert.beacon, rng, k2);
    let other_same = serve(agg, fmt, cert, &q2).await.ok().filter(has_proof);
    let split = if fmt == Fmt::Legacy {
        let present: Vec<String> = q.iter().filter(|h| chain.block_of_tx(h).map(|b| b.number <= cert.beacon).unwrap_or(false)).cloned().collect();
        if present.len() >= 2 {
            let (a, b) = present.split_at(present.len() / 2);
            match (serve(agg, fmt, cert, a).await, serve(agg, fmt, cert, b).await) {
                (Ok(x), Ok(y)) if has_proof(&x) && has_proof(&y) => Some((x, y)),
                _ => None,
            }
        } else {
            None
        }
    } else {
        None
    };
    let cross = {
        // the same beacon in another format
        let other_kind_cert = st.certs.iter().find(|c| c.beacon == cert.beacon && c.kind != cert.kind && c.kind != CertKind::Stake).cloned();
        match fmt {
            Fmt::Legacy => match &other_kind_cert {
                Some(c) => serve(agg, Fmt::TxV2, c, &q).await.ok(),
                None => None,
            },
            Fmt::TxV2 => {
                let blocks: Vec<String> = q.iter().filter_map(|h| chain.block_of_tx(h)).map(|b| b.hash.clone()).collect();
                if blocks.is_empty() {
                    None
                } else {
                    serve(agg, Fmt::BlkV2, cert, &blocks).await.ok()
                }
            }
            Fmt::BlkV2 => {
                let txs: Vec<String> = q.iter().filter_map(|h| chain.block_by_hash(h)).filter_map(|b| b.txs.first().cloned()).collect();
                if txs.is_empty() {
                    None
                } else {
                    serve(agg, Fmt::TxV2, cert, &txs).await.ok()
                }
            }
        }
        .filter(has_proof)
    };
    let other_root: Option<Resp> = {
        let c: Vec<&(Fmt, String, Resp)> = st.history.iter().filter(|(f, h, _)| *f == fmt && h != cert.hash()).collect();
        if c.is_empty() {
            None
        } else {
            Some(rnd::pick(rng, &c).2.clone())
        }
    };
    let ctx = tamper::Ctx {
        chain,
        cert,
        certs: &st.certs,
        same_root_other: other_same.as_ref(),
        other_root: other_root.as_ref(),
        cross: cross.as_ref(),
        split: split.as_ref().map(|(a, b)| (a, b)),
    };
    let cands = tamper::candidates(&honest, &ctx, rng);
    for c in cands {
        judge(st, mon, fmt, cert, &c, state, &qname);
    }
    if has_proof(&honest) {
        st.history.push((fmt, cert.hash().to_string(), honest));
        if st.history.len() > 60 {
            st.history.remove(0);
        }
    }
}

fn judge(st: &WorldState<'_>, mon: &mut Monitor, fmt: Fmt, cert: &Cert, c: &tamper::Candidate, state: &str, qname: &str) {
    let outcome = match vcore::catch(|| oracle::client_check(fmt, &c.wire, &st.cert_map)) {
        Ok(o) => o,
        Err(p) => {
            // a panic of the verifier on a response is not an acceptance; it is C05's business
            mon.count(&format!("{}|{}|PANIC", fmt.as_str(), c.class));
            mon.count(&format!("client_panic_at|{}", vcore::panic_location(&p)));
            return;
        }
    };
    mon.eval();
    mon.count(&format!("{}|{}|{}", fmt.as_str(), c.class, outcome.label()));
    let parsed = Resp::from_wire(fmt, &c.wire);
    let replay = |outcome: &Outcome, f: &[(&'static str, String)]| {
        json!({
            "kind": "proof", "world": st.tag, "format": fmt.as_str(), "class": c.class, "state": state, "query": qname,
            "response": serde_json::from_str::<Value>(&c.wire).unwrap_or(Value::String(c.wire.clone())),
            "honest_certificate": oracle::cert_json(cert),
            "named_certificate": parsed.as_ref().ok().and_then(|r| st.cert_map.get(r.certificate_hash())).map(oracle::cert_json),
            "certificate_message": parsed.as_ref().ok().and_then(|r| st.cert_map.get(r.certificate_hash())).map(|c| serde_json::to_value(&c.message).unwrap_or(Value::Null)),
            "outcome": outcome.label(), "false_claims": f.iter().map(|(s, d)| format!("{s}: {d}")).collect::<Vec<_>>(),
            "chain": st.chain.to_json(),
        })
    };
    let Ok(resp) = parsed.as_ref() else {
        if outcome.accepted() {
            mon.violation("C11 response accepted that the harness cannot decode", &format!("class {}", c.class), replay(&outcome, &[]));
        }
        return;
    };
    let f = oracle::falsehoods(resp, &st.cert_map, st.chain);
    if c.class == "honest" {
        mon.nontrivial_str(&format!("{}|honest|{}", fmt.as_str(), sha(&c.wire)));
        if !f.is_empty() {
            // the honest aggregator itself claims something the ground truth denies
            let (sig, detail) = oracle::most_specific(&f).unwrap();
            mon.count(&format!("{}|HONEST_RESPONSE_NOT_TRUTHFUL|{sig}", fmt.as_str()));
            if outcome.accepted() {
                mon.violation(sig, &format!("HONEST prover response ({}, {state}, query {qname}) claims: {detail}; and the client accepts it", fmt.as_str()), replay(&outcome, &f));
            }
        }
        if !outcome.accepted() && resp.certified_count() > 0 {
            let sig = if state == "store_ahead" { oracle::SIG_HONEST_REJECTED_AHEAD } else { oracle::SIG_HONEST_REJECTED };
            mon.violation(sig, &format!("honest {} response ({state}, query {qname}, beacon {}) rejected: {:?}", fmt.as_str(), cert.beacon, outcome), replay(&outcome, &f));
        }
        if st.tag.starts_with("s0-") && mon.counter("sample|proof") < 2 && resp.certified_count() > 1 && outcome.accepted() {
            mon.count("sample|proof");
            mon.sample(json!({"kind": "proof", "format": fmt.as_str(), "class": "honest", "state": state, "query": qname, "beacon": cert.beacon,
                "certified_items": resp.certified_count(), "non_certified": resp.non_certified_count(), "outcome": outcome.label(), "response": excerpt(&c.wire)}));
        }
        return;
    }
    if !f.is_empty() {
        mon.nontrivial_str(&format!("{}|{}|{}", fmt.as_str(), c.class, sha(&c.wire)));
        mon.count(&format!("{}|false_responses", fmt.as_str()));
        if outcome.accepted() {
            let (sig, detail) = oracle::most_specific(&f).unwrap();
            mon.count(&format!("{}|ACCEPTED_FALSE|{sig}", fmt.as_str()));
            mon.violation(
                sig,
                &format!("{} response altered by `{}` ({state}, query {qname}, beacon {}) is accepted although: {}", fmt.as_str(), c.class, cert.beacon, f.iter().map(|(s, d)| format!("[{s}] {d}")).collect::<Vec<_>>().join("; ").chars().take(900).collect::<String>()),
                replay(&outcome, &f),
            );
            let _ = detail;
        } else if st.tag.starts_with("s0-") && mon.counter("sample|proof") < 4 && mon.evaluations % 97 == 0 {
            mon.count("sample|proof");
            mon.sample(json!({"kind": "proof", "format": fmt.as_str(), "class": c.class, "state": state, "outcome": outcome.label(),
                "false_claims": f.iter().map(|(s, _)| *s).collect::<Vec<_>>(),
                "detail": match &outcome { Outcome::RejectedVerify(e) | Outcome::RejectedDecode(e) => e.clone(), _ => String::new() },
                "response": excerpt(&c.wire)}));
        }
    } else {
        // every certified claim of the altered response is true and proven under the signed root
        mon.count(&format!("{}|truthful_altered|{}", fmt.as_str(), if outcome.accepted() { "accepted" } else { "rejected" }));
        if let Outcome::Accepted { reported, .. } = &outcome {
            if *reported != oracle::claimed(resp) {
                mon.violation(oracle::SIG_REPORT_DIFFERS, &format!("class {}", c.class), replay(&outcome, &f));
            }
        }
    }
}

// -------------------------------------------------------------------------------------------------

/// `--replay FILE`: re-run the client on the stored response against the stored certificate
fn replay(path: &std::path::Path, mon: &mut Monitor) {
    // a reproduced witness of a registered known finding is reported as such (exit 0); the
    // evidence file is not touched by a replay
    let mut reproduced = |sig: &str, what: &str| -> ! {
        mon.violation(sig, what, Value::Null);
        if mon.known_hit_count(sig) > 0 {
            println!("KNOWN-FINDING: property=C11 witness reproduced [signature: {sig}] {what}");
            std::process::exit(0);
        }
        println!("VIOLATION property=C11 replay={}\n  signature: {sig}\n  what: {what}", path.display());
        std::process::exit(1);
    };
    let doc: Value = match std::fs::read_to_string(path).ok().and_then(|s| serde_json::from_str(&s).ok()) {
        Some(v) => v,
        None => {
            println!("INCONCLUSIVE property=C11 cannot read replay file {}", path.display());
            std::process::exit(2);
        }
    };
    let r = &doc["replay"];
    match r["kind"].as_str() {
        Some("stake") => {
            use mithril_common::entities::StakeDistribution;
            use mithril_common::signable_builder::CardanoStakeDistributionSignableBuilder as B;
            let certified: StakeDistribution = serde_json::from_value(r["certified"].clone()).unwrap_or_default();
            let served: StakeDistribution = serde_json::from_value(r["served"]["stake_distribution"].clone()).unwrap_or_default();
            let root = |m: &StakeDistribution| B::compute_merkle_tree_from_stake_distribution(m.clone()).and_then(|t| t.compute_root()).map(|r| r.to_hex()).unwrap_or_default();
            let (rc, rs) = (root(&certified), root(&served));
            println!("certified map: {}", serde_json::to_string(&certified).unwrap());
            println!("served map:    {}", serde_json::to_string(&served).unwrap());
            println!("certified root {rc}\nserved root    {rs}");
            if certified != served && rc == rs {
                reproduced(doc["signature"].as_str().unwrap_or(stake::SIG_SHIFT), "different stake maps, same Merkle root: the served map recomputes the signed message");
            }
            println!("HELD property=C11 replayed case does not reproduce");
        }
        Some("proof") => {
            let fmt = match r["format"].as_str() {
                Some("legacy_tx") => Fmt::Legacy,
                Some("v2_tx") => Fmt::TxV2,
                _ => Fmt::BlkV2,
            };
            let wire = r["response"].to_string();
            let Ok(message) = serde_json::from_value::<mithril_common::messages::CertificateMessage>(r["certificate_message"].clone()) else {
                println!("INCONCLUSIVE property=C11 replay file has no certificate");
                std::process::exit(2);
            };
            let cert = Cert { kind: fmt.cert_kind(), beacon: 0, offset: 0, epoch: 0, signed_parts: message.protocol_message.clone(), message, stakes: None };
            let mut m = HashMap::new();
            m.insert(cert.hash().to_string(), cert);
            let o = oracle::client_check(fmt, &wire, &m);
            println!("client outcome: {o:?}");
            println!("false claims recorded: {}", r["false_claims"]);
            if o.accepted() {
                reproduced(doc["signature"].as_str().unwrap_or("C11 replayed response accepted"), "the stored response is accepted against the stored certificate");
            }
            println!("HELD property=C11 replayed response is rejected");
        }
        _ => {
            println!("INCONCLUSIVE property=C11 replay kind not supported");
            std::process::exit(2);
        }
    }
}
