//! The client under observation and the ORACLE.
//!
//! `client_check` is the documented client flow, on the wire JSON of a response:
//!   deserialize -> `…ProofsMessage::verify()` -> download the certificate named by the response
//!   (harness certificate store = the certificates the honest signable builders signed; chain
//!   validation of certificates is C03) -> `MessageBuilder::compute_cardano_*_message`
//!   -> `certificate.match_message`.
//!
//! `falsehoods` is the oracle: an independent statement, from the GROUND TRUTH chain held by the
//! harness, of everything a response claims that is not true / not proven / not what was signed.
//! accepted && !falsehoods.is_empty()  =>  violation.
use mithril_client::MessageBuilder;
use mithril_common::crypto_helper::{MKMapProof, MKTreeNode, ProtocolMkProof};
use mithril_common::entities::BlockRange;
use mithril_common::messages::{
    CardanoBlockMessagePart, CardanoBlocksProofsMessage, CardanoTransactionMessagePart, CardanoTransactionsProofsMessage,
    CardanoTransactionsProofsV2Message,
};
use serde_json::{json, Value};
use std::collections::HashMap;

use crate::agg::{Cert, CertKind};
use crate::chain::Chain;

#[derive(Clone, Copy, Debug, PartialEq, Eq, PartialOrd, Ord, Hash)]
pub enum Fmt {
    Legacy,
    TxV2,
    BlkV2,
}

impl Fmt {
    pub fn as_str(&self) -> &'static str {
        match self {
            Fmt::Legacy => "legacy_tx",
            Fmt::TxV2 => "v2_tx",
            Fmt::BlkV2 => "v2_block",
        }
    }
    pub fn cert_kind(&self) -> CertKind {
        match self {
            Fmt::Legacy => CertKind::Legacy,
            _ => CertKind::V2,
        }
    }
}

#[derive(Clone, Debug, PartialEq)]
pub enum Resp {
    Legacy(CardanoTransactionsProofsMessage),
    TxV2(CardanoTransactionsProofsV2Message),
    BlkV2(CardanoBlocksProofsMessage),
}

impl Resp {
    pub fn fmt(&self) -> Fmt {
        match self {
            Resp::Legacy(_) => Fmt::Legacy,
            Resp::TxV2(_) => Fmt::TxV2,
            Resp::BlkV2(_) => Fmt::BlkV2,
        }
    }
    pub fn to_wire(&self) -> String {
        match self {
            Resp::Legacy(m) => serde_json::to_string(m).unwrap(),
            Resp::TxV2(m) => serde_json::to_string(m).unwrap(),
            Resp::BlkV2(m) => serde_json::to_string(m).unwrap(),
        }
    }
    pub fn from_wire(fmt: Fmt, s: &str) -> Result<Resp, String> {
        match fmt {
            Fmt::Legacy => serde_json::from_str(s).map(Resp::Legacy).map_err(|e| e.to_string()),
            Fmt::TxV2 => serde_json::from_str(s).map(Resp::TxV2).map_err(|e| e.to_string()),
            Fmt::BlkV2 => serde_json::from_str(s).map(Resp::BlkV2).map_err(|e| e.to_string()),
        }
    }
    pub fn certificate_hash(&self) -> &str {
        match self {
            Resp::Legacy(m) => &m.certificate_hash,
            Resp::TxV2(m) => &m.certificate_hash,
            Resp::BlkV2(m) => &m.certificate_hash,
        }
    }
    pub fn set_certificate_hash(&mut self, h: &str) {
        match self {
            Resp::Legacy(m) => m.certificate_hash = h.to_string(),
            Resp::TxV2(m) => m.certificate_hash = h.to_string(),
            Resp::BlkV2(m) => m.certificate_hash = h.to_string(),
        }
    }
    pub fn certified_count(&self) -> usize {
        match self {
            Resp::Legacy(m) => m.certified_transactions.iter().map(|p| p.transactions_hashes.len()).sum(),
            Resp::TxV2(m) => m.certified_transactions.as_ref().map(|p| p.items.len()).unwrap_or(0),
            Resp::BlkV2(m) => m.certified_blocks.as_ref().map(|p| p.items.len()).unwrap_or(0),
        }
    }
    pub fn non_certified_count(&self) -> usize {
        match self {
            Resp::Legacy(m) => m.non_certified_transactions.len(),
            Resp::TxV2(m) => m.non_certified_transactions.len(),
            Resp::BlkV2(m) => m.non_certified_blocks.len(),
        }
    }
}

#[derive(Clone, Debug, PartialEq)]
pub enum Reported {
    Tx(Vec<String>),
    TxV2(Vec<CardanoTransactionMessagePart>),
    Blk(Vec<CardanoBlockMessagePart>),
}

impl Reported {
    pub fn len(&self) -> usize {
        match self {
            Reported::Tx(v) => v.len(),
            Reported::TxV2(v) => v.len(),
            Reported::Blk(v) => v.len(),
        }
    }
}

#[derive(Clone, Debug, PartialEq)]
pub enum Outcome {
    RejectedDecode(String),
    RejectedVerify(String),
    RejectedNoCertificate,
    RejectedMismatch,
    Accepted { cert_hash: String, reported: Reported },
}

impl Outcome {
    pub fn label(&self) -> &'static str {
        match self {
            Outcome::RejectedDecode(_) => "rejected_decode",
            Outcome::RejectedVerify(_) => "rejected_verify",
            Outcome::RejectedNoCertificate => "rejected_no_certificate",
            Outcome::RejectedMismatch => "rejected_message_mismatch",
            Outcome::Accepted { .. } => "ACCEPTED",
        }
    }
    pub fn accepted(&self) -> bool {
        matches!(self, Outcome::Accepted { .. })
    }
}

fn short(e: impl std::fmt::Display) -> String {
    let s = e.to_string();
    s.chars().take(160).collect()
}

/// The client. Everything called here is code under test.
pub fn client_check(fmt: Fmt, wire: &str, certs: &HashMap<String, Cert>) -> Outcome {
    let resp = match Resp::from_wire(fmt, wire) {
        Ok(r) => r,
        Err(e) => return Outcome::RejectedDecode(short(e)),
    };
    let mb = MessageBuilder::new();
    match &resp {
        Resp::Legacy(m) => {
            let verified = match m.verify() {
                Ok(v) => v,
                Err(e) => return Outcome::RejectedVerify(short(format!("{e:?}"))),
            };
            let Some(cert) = certs.get(verified.certificate_hash()) else { return Outcome::RejectedNoCertificate };
            let message = mb.compute_cardano_transactions_proofs_message(&cert.message, &verified);
            if !cert.message.match_message(&message) {
                return Outcome::RejectedMismatch;
            }
            Outcome::Accepted { cert_hash: verified.certificate_hash().to_string(), reported: Reported::Tx(verified.certified_transactions().to_vec()) }
        }
        Resp::TxV2(m) => {
            let verified = match m.verify() {
                Ok(v) => v,
                Err(e) => return Outcome::RejectedVerify(short(format!("{e:?}"))),
            };
            let Some(cert) = certs.get(verified.certificate_hash()) else { return Outcome::RejectedNoCertificate };
            let message = mb.compute_cardano_transactions_proofs_v2_message(&cert.message, &verified);
            if !cert.message.match_message(&message) {
                return Outcome::RejectedMismatch;
            }
            Outcome::Accepted { cert_hash: verified.certificate_hash().to_string(), reported: Reported::TxV2(verified.certified_transactions().to_vec()) }
        }
        Resp::BlkV2(m) => {
            let verified = match m.verify() {
                Ok(v) => v,
                Err(e) => return Outcome::RejectedVerify(short(format!("{e:?}"))),
            };
            let Some(cert) = certs.get(verified.certificate_hash()) else { return Outcome::RejectedNoCertificate };
            let message = mb.compute_cardano_blocks_proofs_message(&cert.message, &verified);
            if !cert.message.match_message(&message) {
                return Outcome::RejectedMismatch;
            }
            Outcome::Accepted { cert_hash: verified.certificate_hash().to_string(), reported: Reported::Blk(verified.certified_blocks().to_vec()) }
        }
    }
}

// ---------------------------------------------------------------------------------------------
// oracle

pub const SIG_NOT_IN_CHAIN_TX: &str = "C11 transaction reported certified is not in the chain";
pub const SIG_NOT_IN_CHAIN_BLK: &str = "C11 block reported certified is not in the chain";
pub const SIG_BEYOND: &str = "C11 item beyond the certified beacon reported certified";
pub const SIG_FIELD_BH: &str = "C11 item fields altered yet accepted (block hash)";
pub const SIG_FIELD_BN: &str = "C11 item fields altered yet accepted (block number)";
pub const SIG_FIELD_SLOT: &str = "C11 item fields altered yet accepted (slot number)";
pub const SIG_NOT_LEAF: &str = "C11 item reported certified is not a leaf of its proof";
pub const SIG_ROOTS_DIFFER: &str = "C11 set proofs under different roots accepted";
pub const SIG_ROOT_NOT_SIGNED: &str = "C11 proof root differs from the signed root yet message matches";
pub const SIG_LATEST: &str = "C11 latest block number altered yet message matches";
pub const SIG_OFFSET: &str = "C11 security offset altered yet message matches";
pub const SIG_OTHER_KIND: &str = "C11 response accepted against a certificate of another signed entity type";
pub const SIG_NO_CERT: &str = "C11 response accepted without a known certificate";
pub const SIG_BAD_PROOF: &str = "C11 undecodable proof accepted";
pub const SIG_REPORT_DIFFERS: &str = "C11 reported certified items differ from the items of the verified response";
pub const SIG_HONEST_REJECTED: &str = "C11 honest response rejected";
pub const SIG_HONEST_REJECTED_AHEAD: &str = "C11 honest response rejected (store imported beyond the certified beacon)";
pub const SIG_BENIGN_REJECTED: &str = "C11 truthful response under one signed root rejected";

/// fixed priority: the most specific claim first
const PRIORITY: &[&str] = &[
    SIG_NO_CERT,
    SIG_OTHER_KIND,
    SIG_NOT_IN_CHAIN_TX,
    SIG_NOT_IN_CHAIN_BLK,
    SIG_FIELD_BH,
    SIG_FIELD_BN,
    SIG_FIELD_SLOT,
    SIG_BEYOND,
    SIG_ROOTS_DIFFER,
    SIG_LATEST,
    SIG_OFFSET,
    SIG_ROOT_NOT_SIGNED,
    SIG_BAD_PROOF,
    SIG_NOT_LEAF,
    SIG_REPORT_DIFFERS,
];

pub fn most_specific<'a>(f: &'a [(&'static str, String)]) -> Option<&'a (&'static str, String)> {
    for p in PRIORITY {
        if let Some(x) = f.iter().find(|(s, _)| s == p) {
            return Some(x);
        }
    }
    f.first()
}

pub fn decode_proof(fmt: Fmt, s: &str) -> Option<MKMapProof<BlockRange>> {
    match fmt {
        Fmt::Legacy => ProtocolMkProof::from_json_hex(s).ok().map(|k| k.into_inner()),
        _ => ProtocolMkProof::from_bytes_hex(s).ok().map(|k| k.into_inner()),
    }
}

pub fn encode_proof(fmt: Fmt, p: &MKMapProof<BlockRange>) -> String {
    let k = ProtocolMkProof::new(p.clone());
    match fmt {
        Fmt::Legacy => k.to_json_hex().unwrap_or_default(),
        _ => k.to_bytes_hex().unwrap_or_default(),
    }
}

/// harness-side leaf encodings (reference, written from the documented leaf formats)
pub fn leaf_legacy(tx_hash: &str) -> MKTreeNode {
    MKTreeNode::new(tx_hash.as_bytes().to_vec())
}
pub fn leaf_tx_v2(t: &CardanoTransactionMessagePart) -> MKTreeNode {
    MKTreeNode::new(format!("Tx/{}/{}/{}/{}", t.transaction_hash, t.block_hash, *t.block_number, *t.slot_number).into_bytes())
}
pub fn leaf_blk_v2(b: &CardanoBlockMessagePart) -> MKTreeNode {
    MKTreeNode::new(format!("Block/{}/{}/{}", b.block_hash, *b.block_number, *b.slot_number).into_bytes())
}

struct ProofFacts {
    root: String,
    leaves: Vec<MKTreeNode>,
}

fn proof_facts(fmt: Fmt, s: &str) -> Option<ProofFacts> {
    let p = decode_proof(fmt, s)?;
    Some(ProofFacts { root: p.compute_root().to_hex(), leaves: p.leaves() })
}

/// Everything the response claims that is false, with respect to the certificate it names.
pub fn falsehoods(resp: &Resp, certs: &HashMap<String, Cert>, chain: &Chain) -> Vec<(&'static str, String)> {
    let mut out: Vec<(&'static str, String)> = vec![];
    let Some(cert) = certs.get(resp.certificate_hash()) else {
        out.push((SIG_NO_CERT, format!("certificate {} does not exist", resp.certificate_hash())));
        return out;
    };
    if cert.kind != resp.fmt().cert_kind() {
        out.push((SIG_OTHER_KIND, format!("certificate is of kind {}", cert.kind.as_str())));
    }
    let beacon = cert.beacon;
    let signed_root = cert.signed_root().cloned().unwrap_or_default();
    let mut roots: Vec<String> = vec![];
    let mut check_root = |facts: &Option<ProofFacts>, out: &mut Vec<(&'static str, String)>| match facts {
        None => out.push((SIG_BAD_PROOF, "proof does not decode".into())),
        Some(f) => roots.push(f.root.clone()),
    };
    match resp {
        Resp::Legacy(m) => {
            if *m.latest_block_number != beacon {
                out.push((SIG_LATEST, format!("response says {}, certificate signed {}", *m.latest_block_number, beacon)));
            }
            for part in &m.certified_transactions {
                let facts = proof_facts(Fmt::Legacy, &part.proof);
                check_root(&facts, &mut out);
                for h in &part.transactions_hashes {
                    match chain.block_of_tx(h) {
                        None => out.push((SIG_NOT_IN_CHAIN_TX, format!("transaction {h}"))),
                        Some(b) if b.number > beacon => out.push((SIG_BEYOND, format!("transaction {h} is in block {} > beacon {beacon}", b.number))),
                        Some(_) => {}
                    }
                    if let Some(f) = &facts {
                        if !f.leaves.contains(&leaf_legacy(h)) {
                            out.push((SIG_NOT_LEAF, format!("transaction {h}")));
                        }
                    }
                }
            }
        }
        Resp::TxV2(m) => {
            if *m.latest_block_number != beacon {
                out.push((SIG_LATEST, format!("response says {}, certificate signed {}", *m.latest_block_number, beacon)));
            }
            if *m.security_parameter != cert.offset {
                out.push((SIG_OFFSET, format!("response says {}, certificate signed {}", *m.security_parameter, cert.offset)));
            }
            if let Some(part) = &m.certified_transactions {
                let facts = proof_facts(Fmt::TxV2, &part.proof);
                check_root(&facts, &mut out);
                for t in &part.items {
                    match chain.block_of_tx(&t.transaction_hash) {
                        None => out.push((SIG_NOT_IN_CHAIN_TX, format!("transaction {}", t.transaction_hash))),
                        Some(b) => {
                            if b.hash != t.block_hash {
                                out.push((SIG_FIELD_BH, format!("transaction {} is in block {} not {}", t.transaction_hash, b.hash, t.block_hash)));
                            }
                            if b.number != *t.block_number {
                                out.push((SIG_FIELD_BN, format!("transaction {} has block number {} not {}", t.transaction_hash, b.number, *t.block_number)));
                            }
                            if b.slot != *t.slot_number {
                                out.push((SIG_FIELD_SLOT, format!("transaction {} has slot {} not {}", t.transaction_hash, b.slot, *t.slot_number)));
                            }
                            if b.number > beacon {
                                out.push((SIG_BEYOND, format!("transaction {} is in block {} > beacon {beacon}", t.transaction_hash, b.number)));
                            }
                        }
                    }
                    if let Some(f) = &facts {
                        if !f.leaves.contains(&leaf_tx_v2(t)) {
                            out.push((SIG_NOT_LEAF, format!("transaction {}", t.transaction_hash)));
                        }
                    }
                }
            }
        }
        Resp::BlkV2(m) => {
            if *m.latest_block_number != beacon {
                out.push((SIG_LATEST, format!("response says {}, certificate signed {}", *m.latest_block_number, beacon)));
            }
            if *m.security_parameter != cert.offset {
                out.push((SIG_OFFSET, format!("response says {}, certificate signed {}", *m.security_parameter, cert.offset)));
            }
            if let Some(part) = &m.certified_blocks {
                let facts = proof_facts(Fmt::BlkV2, &part.proof);
                check_root(&facts, &mut out);
                for bl in &part.items {
                    match chain.block_by_hash(&bl.block_hash) {
                        None => out.push((SIG_NOT_IN_CHAIN_BLK, format!("block {}", bl.block_hash))),
                        Some(b) => {
                            if b.number != *bl.block_number {
                                out.push((SIG_FIELD_BN, format!("block {} has number {} not {}", bl.block_hash, b.number, *bl.block_number)));
                            }
                            if b.slot != *bl.slot_number {
                                out.push((SIG_FIELD_SLOT, format!("block {} has slot {} not {}", bl.block_hash, b.slot, *bl.slot_number)));
                            }
                            if b.number > beacon {
                                out.push((SIG_BEYOND, format!("block {} has number {} > beacon {beacon}", bl.block_hash, b.number)));
                            }
                        }
                    }
                    if let Some(f) = &facts {
                        if !f.leaves.contains(&leaf_blk_v2(bl)) {
                            out.push((SIG_NOT_LEAF, format!("block {}", bl.block_hash)));
                        }
                    }
                }
            }
        }
    }
    if roots.windows(2).any(|w| w[0] != w[1]) {
        out.push((SIG_ROOTS_DIFFER, format!("roots {:?}", roots)));
    }
    if let Some(r) = roots.first() {
        if cert.kind == resp.fmt().cert_kind() && *r != signed_root {
            out.push((SIG_ROOT_NOT_SIGNED, format!("proof root {r}, signed root {signed_root}")));
        }
    }
    out
}

/// the items a response puts in its certified section (what an accepting client must report)
pub fn claimed(resp: &Resp) -> Reported {
    match resp {
        Resp::Legacy(m) => Reported::Tx(m.certified_transactions.iter().flat_map(|p| p.transactions_hashes.clone()).collect()),
        Resp::TxV2(m) => Reported::TxV2(m.certified_transactions.as_ref().map(|p| p.items.clone()).unwrap_or_default()),
        Resp::BlkV2(m) => Reported::Blk(m.certified_blocks.as_ref().map(|p| p.items.clone()).unwrap_or_default()),
    }
}

pub fn cert_json(c: &Cert) -> Value {
    json!({
        "kind": c.kind.as_str(), "beacon": c.beacon, "offset": c.offset, "epoch": c.epoch,
        "hash": c.hash(), "signed_message": c.message.signed_message,
        "protocol_message": serde_json::to_value(&c.message.protocol_message).unwrap_or(Value::Null),
    })
}
